#!/bin/bash
# /verif/run.sh <ID> <quick|thorough>   build the check binaries from /repo's working tree and run one check
# /verif/run.sh setup                    warm the build cache
# /verif/run.sh replay <path>            re-execute one recorded case
set -u
cd "$(dirname "$0")"
export GOFLAGS=-mod=mod GOPROXY=off GOSUMDB=off GOTOOLCHAIN=local
export VERIF_ROOT="$(pwd)"
REPO=${VERIF_REPO:-/repo}
mkdir -p .build .scratch evidence replays

build() { # build <out> <pkg> [extra go build args]
  local out=$1 pkg=$2; shift 2
  local tmp="$(dirname "$out")/.$(basename "$out").$$"
  if ! go build -tags verif "$@" -o "$tmp" "$pkg" 2> ".build/build.$$.log"; then
    echo "INFRASTRUCTURE ERROR: build of $pkg failed" >&2; cat ".build/build.$$.log" >&2; rm -f "$tmp" ".build/build.$$.log"; exit 2
  fi
  rm -f ".build/build.$$.log"; mv -f "$tmp" "$out"
}

overlay() { # sync-shim overlay for C08, generated from the current tree into $1
  build .build/mkoverlay ./cmd/mkoverlay
  .build/mkoverlay "$REPO" overlay/vsync/vsync.go.txt "$1" go:hap go:crypto 2>/dev/null || { echo "INFRASTRUCTURE ERROR: overlay generation failed" >&2; exit 2; }
}

YIELD_PKGS="yield:hap yield:crypto yield:util yield:tlv8 yield:characteristic yield:service yield:accessory yield:db yield:hap/pair yield:hap/http yield:hap/data yield:hap/endpoint yield:crypto/chacha20poly1305 yield:crypto/hkdf yield:crypto/curve25519 yield:event yield:rtp yield:log yield:."
buildyield() { # the scheduler binary with a scheduling point before every statement of hc's packages → .build/vsched-yield
  local sc=.scratch/yield.$$; mkdir -p $sc
  build .build/mkoverlay ./cmd/mkoverlay
  .build/mkoverlay "$REPO" overlay/vsync/vsync.go.txt $sc/ov $YIELD_PKGS 2>/dev/null || { echo "INFRASTRUCTURE ERROR: yield overlay generation failed" >&2; exit 2; }
  build .build/vsched-yield ./cmd/vsched -overlay "$sc/ov/overlay.json"; rm -rf $sc
}

buildsched() { # buildsched <scratchdir> : vsched (+ the -race variant) next to each other
  overlay "$1/ov"
  build "$1/vsched" ./cmd/vsched -overlay "$1/ov/overlay.json"
  build "$1/vsched-race" ./cmd/vsched -race -overlay "$1/ov/overlay.json"
}

gen() { # regenerate the constructor catalog from the current tree
  build .build/gencatalog ./cmd/gencatalog
  .build/gencatalog "$REPO" internal/catalog/registry_gen.go || { echo "INFRASTRUCTURE ERROR: catalog generation failed" >&2; exit 2; }
}

case "${1:-}" in
  setup)
    [ -d cmd/gencatalog ] && gen
    build .build/vcheck ./cmd/vcheck
    build .build/crashchild ./cmd/crashchild
    mkdir -p .scratch/setup.$$ && buildsched .scratch/setup.$$ && cp .scratch/setup.$$/vsched .build/vsched-pair && rm -rf .scratch/setup.$$
    buildyield
    [ -x ./setup_extra.sh ] && ./setup_extra.sh
    echo "setup ok"; exit 0;;
  replay)
    [ -d cmd/gencatalog ] && gen
    build .build/vcheck.$$ ./cmd/vcheck
    build .build/crashchild ./cmd/crashchild
    SC=.scratch/pair.$$; mkdir -p $SC; overlay $SC/ov
    build .build/vsched-pair ./cmd/vsched -overlay "$SC/ov/overlay.json"; rm -rf $SC
    buildyield
    if grep -Eq '"property": *"C08"' "$2"; then   # C08's cases belong to the scheduler binary (built with the overlay)
      .build/vsched-pair replay "$2"; rc=$?; rm -f .build/vcheck.$$; exit $rc
    fi
    .build/vcheck.$$ replay "$2"; rc=$?; rm -f .build/vcheck.$$; exit $rc;;
  "") echo "usage: run.sh <ID> <quick|thorough> | setup | replay <path>" >&2; exit 2;;
esac

ID=$1; TIER=${2:-${VERIF_TIER:-quick}}
[ -d cmd/gencatalog ] && gen
if [ "$ID" = C08 ]; then
  buildyield
  SC=.scratch/c08.$$; mkdir -p $SC; buildsched $SC
  $SC/vsched C08 "$TIER"; rc=$?; rm -rf $SC; exit $rc
fi
build .build/vcheck.$$ ./cmd/vcheck
[ "$ID" = C19 ] && build .build/crashchild ./cmd/crashchild
case "$ID" in C01|C02|C04|C03|C13|C05|C06|C07|C09|C10|C11|C12|C14|C16|C17|C18|C20) buildyield;; esac
if [ "$ID" = C02 ] || [ "$ID" = C03 ]; then   # the pairing-handler scheduler binary (overlay build), next to vcheck
  SC=.scratch/pair.$$; mkdir -p $SC; overlay $SC/ov
  build .build/vsched-pair ./cmd/vsched -overlay "$SC/ov/overlay.json"; rm -rf $SC
fi
.build/vcheck.$$ "$ID" "$TIER"; rc=$?
rm -f .build/vcheck.$$
exit $rc
