#!/bin/bash
# tools/seeded_par.sh [jobs] [pattern] — the regression of tools/seeded_all.sh, but every change is applied to its own
# scratch worktree of /repo (tools/scratch_eval.sh), so that several run at once and /repo itself is left alone.
# One line per change on stdout; "detected" needs exit 1 from at least one of the checks named for the change.
ROOT=$(cd "$(dirname "$0")/.." && pwd); cd "$ROOT"
J=${1:-3}; pat=${2:-}
export LC_ALL=C
one() {
  d=$1; id=$(basename $d); prop=${id%%-*}
  [ -f $d/patch.diff ] || return
  p=$ROOT/$d/patch.diff; [ -f $d/patch.rebased.diff ] && p=$ROOT/$d/patch.rebased.diff
  checks=$(python3 -c "import json,sys; m=json.load(open('$d/meta.json')); print(' '.join(m.get('regress_checks',[])) if not m.get('base_rev') else 'SKIP')" 2>/dev/null)
  [ -z "$checks" ] && checks=$prop
  [ "$id" = "C04-r2m3" ] && checks=C07
  [ "$id" = "C05-r2m3" ] && checks=C03
  [ "$id" = "C05-m1" ] && checks="C05 C06"
  if [ "$checks" = SKIP ]; then echo "$id: skipped (written for an older tree, see meta.json)"; return; fi
  if ! git -C /repo apply --check $p 2>/dev/null; then echo "$id: patch does not apply (code changed since)"; return; fi
  out=$(tools/scratch_eval.sh $p $checks 2>&1 | grep -E "^C[0-9]+ rc=" | tr '\n' ' ')
  if echo "$out" | grep -q "rc=1"; then echo "$id: detected ($out)"; else echo "$id: NOT DETECTED ($out)"; fi
}
export -f one; export ROOT
ls -d seeded/*${pat}*/ | xargs -P $J -I{} bash -c 'one {}'
