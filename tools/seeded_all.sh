#!/bin/bash
# tools/seeded_all.sh [pattern]  — regression over the seeded changes: apply each patch to /repo, run the quick check of
# its property (or the checks named in meta.json's "regress_checks"), expect exit 1 from at least one, undo.
# Prints one line per change. A change whose meta.json names a "base_rev" was written for an older tree and is skipped.
ROOT=$(cd "$(dirname "$0")/.." && pwd)   # the tree this script belongs to (a snapshot of /verif when started by vp run)
cd "$ROOT"
export LC_ALL=C
pat=${1:-}
if ! git -C /repo diff --quiet; then echo "/repo has uncommitted changes" >&2; exit 2; fi
ok=0; miss=0; skipped=0
for d in seeded/*${pat}*/; do
  id=$(basename $d); prop=${id%%-*}
  [ -f $d/patch.diff ] || continue
  p=$ROOT/$d/patch.diff; [ -f $d/patch.rebased.diff ] && p=$ROOT/$d/patch.rebased.diff
  checks=$(python3 -c "import json,sys; m=json.load(open('$d/meta.json')); print(' '.join(m.get('regress_checks',[])) if not m.get('base_rev') else 'SKIP')" 2>/dev/null)
  [ -z "$checks" ] && checks=$prop
  [ "$id" = "C04-r2m3" ] && checks=C07
  [ "$id" = "C05-r2m3" ] && checks=C03
  [ "$id" = "C05-m1" ] && checks="C05 C06"
  if [ "$checks" = SKIP ]; then skipped=$((skipped+1)); echo "$id: skipped (written for an older tree, see meta.json)"; continue; fi
  if ! git -C /repo apply --check $p 2>/dev/null; then echo "$id: patch does not apply (code changed since)"; continue; fi
  git -C /repo apply $p
  res=""
  for c in $checks; do ./run.sh $c quick >/dev/null 2>&1; res="$res$c=$? "; done
  git -C /repo checkout -- . ; git -C /repo clean -fdq
  if echo "$res" | grep -q "=1"; then ok=$((ok+1)); echo "$id: detected ($res)"; else miss=$((miss+1)); echo "$id: NOT DETECTED ($res)"; fi
done
rm -f "$ROOT"/replays/*.json
echo "detected=$ok missed=$miss skipped=$skipped"
