#!/bin/bash
# tools/try_patch.sh <patch.diff> <ID> [<ID>...]   apply a patch to /repo, run the quick checks, undo the patch
set -u
P=$(realpath "$1"); shift
cd /repo || exit 2
if ! git diff --quiet; then echo "/repo has uncommitted changes" >&2; exit 2; fi
git apply "$P" || { echo "patch does not apply" >&2; exit 2; }
trap 'git -C /repo checkout -- . ; git -C /repo clean -fdq' EXIT
for id in "$@"; do
  out=$(cd /verif && ./run.sh "$id" ${TIER:-quick} 2>&1); rc=$?
  echo "== $id rc=$rc"; echo "$out" | grep -E "VIOLATION|KNOWN|what:|INFRA|^$id " | head -${LINES_MAX:-8}
done
