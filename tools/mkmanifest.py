#!/usr/bin/env python3
"""Writes /verif/MANIFEST.json from the table below (one entry per claimed property)."""
import json, os
ROOT = os.path.dirname(os.path.dirname(os.path.abspath(__file__)))

CHECKS = {
 "C09": dict(cat="exploration", engine="world+refctl+catalog", ref="§2 C09",
   technique="exhaustive enumeration over every characteristic constructor × boundary value alphabet, id-list shapes, every response body length 0..4200/9000 and growing databases, against the real transport with an independent verified controller; typed-cell reference model",
   text="Every constructor × its format's boundary alphabet is set by the application and read three ways, and written by the controller and compared with getter and callback; all id-list shapes; every body length in the sweep range; databases up to 57/157 accessories.",
   note="Values compared after JSON decoding; only valid (in-bounds) values are in scope."),
 "C10": dict(cat="model_checking", engine="seqx+world+refctl", ref="§2 C10",
   technique="exhaustive history exploration (depth 3 with 2 connections; thorough depth 4 / 3 connections) over subscribe, unsubscribe, writes, application sets, close, reconnect with a barrier after every event; subscription-relation reference model",
   text="Every history up to the bound on a fresh real system with really verified connections; after every event the EVENT messages collected by a barrier on every open connection must equal the model's multiset exactly.",
   note="Order across different characteristics is not judged; a mismatch is re-checked after 20 ms and 500 ms before it counts."),
 "C11": dict(cat="exploration", engine="world+refctl+catalog", ref="§2 C11",
   technique="exhaustive enumeration over every characteristic constructor and 40 generic constructor × permission-subset configurations × JSON value alphabet, in-process and over HTTP",
   text="Every subject × ≈40 values through the in-process remote-update API; every subject through PUT value / GET / ev=true / value+ev / change+barrier over the real transport.",
   note="A refused write need not produce an error status; only 'nothing changes, nothing is revealed, no event' is judged."),
 "C20": dict(cat="model_checking", engine="seqx+world+refctl / enumx", ref="§2 C20",
   technique="exhaustive history exploration of restart/pair/unpair/value-change sequences on one storage directory against a reference model of id, key, pairings, c# and sf; exhaustive sweep of all 10^8 setup codes and a hostile string alphabet; exhaustive category × flags × id grid with an independent setup-URI decoder",
   text="All histories of length 3/4 over 8 symbols after an initial start, TXT records and store compared with the model after every event; ValidatePin and XHMURI over all 10^8 codes and all strings ≤9 over a 6-symbol alphabet.",
   note="Restart = stop + new transport in the same process on the same directory; TXT records through the verif accessor."),
 "C01": dict(cat="model_checking", engine="seqx+world+refctl", ref="§2 C01",
   technique="exhaustive history exploration (depth 3/4) over an adversary + legitimate-controller + application alphabet against the real transport over TCP, reference model compared after every event",
   text="Every history up to the depth bound over 24/33 symbols (two adversary connections, a legitimate controller, the application) is replayed on a fresh real system; after every event refusal, non-disclosure, absence of EVENTs, values, callback counters and stored pairings are compared with the reference model.",
   note="Adversary knowledge = what it derives from its own exchanges; histories longer than the bound and more than two adversary connections are not explored."),
 "C02": dict(cat="model_checking", engine="seqx+world+refctl", ref="§2 C02",
   technique="exhaustive history exploration (depth 3/4) over the pair-setup message alphabet with real SRP over TCP; stored pairings compared with the reference model after every event; plus stateless exploration of the interleavings of the real pairing handlers of two connections under a cooperative scheduler with iterative preemption bounding (scheduling points: every log statement of the library, mutex Locks, request arrivals)",
   text="Every history of the bound's length over 19/24 pair-setup symbols on a legitimate and an adversary connection; after every event the pairing store must equal the model (L's key iff a complete genuine exchange happened on L's connection).",
   note="Message constructors are the menu in DESIGN §2 C02; arbitrary byte strings are C13's business."),
 "C03": dict(cat="model_checking", engine="seqx+world+refctl", ref="§2 C03",
   technique="exhaustive history exploration (depth 3/4, every node replayed) over the pair-verify alphabet, with destructive end-of-history probes of each connection's verified/encrypted status; plus stateless exploration of the interleavings of the real pair-verify / pair-setup handlers of two connections under a cooperative scheduler with iterative preemption bounding",
   text="Every history up to the depth bound over 16/22 pair-verify symbols on an adversary and a legitimate connection; every tree node is replayed on a fresh system and ends with probes (plaintext still answered and refused; ciphertext under own exchange keys not served; verified connection serves).",
   note="Whether a start is accepted is observed, only the verified status is predicted."),
 "C04": dict(cat="exploration", engine="world+refctl", ref="§2 C04",
   technique="exhaustive execution of an explicit input-partition grid by an independent specification-derived controller against the real transport",
   text="Every cell of the stated grid (codes × identifiers × keys × request sizes × restart × connection reuse, plus leading-zero SRP cells and wrong code) runs the complete pair-setup / pair-verify / encrypted request sequence; the controller verifies every accessory proof, signature and key.",
   note="The universal over all codes/keys is covered only through code-visible branches; see DESIGN §2 C04 'Limit'."),
 "C07": dict(cat="model_checking", engine="scripted-conn environment explorer", ref="§2 C07",
   technique="deviation-bounded exhaustive exploration of network segmentations / timeouts / buffer policies and of read-vs-session-switch placements on a real hap.Connection over a scripted net.Conn",
   text="All message sequences over 10 boundary lengths × 6 buffer policies with 0, 1 and selected 2 environment deviations (split at every offset, coalesce, timeout), plus every placement of reads relative to install-cryptographer / write-response / first-ciphertext; exact-bytes, no-spurious-error and promptness oracles per execution.",
   note="Blocking is modelled by a timeout on an exhausted script; sender is the reference framing."),
 "C08": dict(cat="model_checking", engine="sched (cooperative scheduler, preemption bounding) + -race pass", ref="§2 C08",
   technique="stateless exploration of all goroutine interleavings up to a preemption bound under a cooperative scheduler (sync rewritten through go build -overlay), plus a free-running -race pass",
   text="2-writer scenarios are explored without bound, 3–4 writer scenarios with preemption bound 2/3; per schedule the wire must decrypt in arrival order and consist of whole payloads.",
   note="Code between scheduling points is atomic under the scheduler; unsynchronised accesses are left to the free-running -race pass; channels are not modelled (watchdog → inconclusive)."),
 "C13": dict(cat="exploration", engine="world+refctl", ref="§2 C13",
   technique="exhaustive enumeration of a mechanically derived malformed-input alphabet in every protocol state × endpoint against the real transport; panic, response, same-connection and new-connection recovery oracles",
   text="≈5.8k (quick) / ≈27k (thorough) inputs derived from the correct next messages (prefixes, item edits, lengths, tag flips, all state/method bytes, hostile JSON) in 5 protocol states over all endpoints.",
   note="Requests are well-formed HTTP; malformed HTTP is answered by net/http before hc code runs."),
 "C14": dict(cat="exploration", engine="catalog", ref="§2 C14",
   technique="exhaustive enumeration of accessory compositions (singles, pairs, triples, two large ones) over every accessory/service constructor × explicit/automatic ids; id uniqueness, rebuild stability and HAP JSON well-formedness",
   text="All singles and pairs over ≈230 accessory templates × 5 id choices (quick: first element restricted), triples over a reduced set, two large compositions; each container built twice.",
   note="JSON is json.Marshal of the container (what the /accessories handler writes); panicking constructors are C15's."),
 "C17": dict(cat="exploration", engine="enumx (reflective reference encoder)", ref="§2 C17",
   technique="exhaustive enumeration of field-boundary deviations (1, 2, thorough 3 simultaneous) over every RTP message type and synthetic all-kinds structs, differential against an independent reflective encoder; exhaustive small decoder inputs",
   text="Every leaf field of every target type moved through its boundary alphabet, all pairs (triples) of deviations; all byte strings ≤2 and all prefixes/edits of valid encodings as decoder input.",
   note="Empty values may be encoded as no item; nil and empty are identified; one open known finding (inline lists with multi-field elements)."),
 "C05": dict(cat="fault_enumeration", engine="enumx+refctl", ref="§2 C05",
   technique="exhaustive fault enumeration over the ciphertext stream (every bit flip, truncation, frame deletion/duplication/permutation, reflection, cross-session frame) against hc's real receiving session",
   text="Sender is the independent reference framing, receiver hc's real session. For 14 stream shapes every single-bit flip, every truncation offset and every frame-level rearrangement (≤4 frames) is applied and the receiver must release only an unmodified frame-granular prefix and report an error no later than the first altered frame; thorough adds all pairs from a reduced menu.",
   note="Trusted: x/crypto ChaCha20-Poly1305 and the reference framing; more than two simultaneous alterations are not enumerated."),
 "C06": dict(cat="exploration", engine="enumx+refctl", ref="§2 C06",
   technique="bounded exhaustive enumeration of payload lengths × reader behaviours × message sequences on hc's real sessions, byte-for-byte differential against an independent framing implementation",
   text="All payload lengths 0..4097 (plus six fixed larger ones) × six io.Reader delivery behaviours × both directions, contents and secrets on a grid, every 2–3 message sequence over boundary lengths: ciphertext must equal the reference framing byte for byte, hc's opposite end and the reference must decrypt it.",
   note="Trusted: reference framing (refctl/crypto.go). Contents other than three fills and lengths above 4097 other than the fixed list are not enumerated."),
 "C12": dict(cat="model_checking", engine="seqx+catalog", ref="§2 C12",
   technique="exhaustive exploration of update histories (depth 2, depth 3 per behaviour class) over a JSON value alphabet on every real characteristic constructor, invariant checked after every step",
   text="Every update sequence up to the depth bound over ≈40 JSON-like values × local/remote on every constructor present at check time; invariant (type, range, finiteness, getter, JSON encoding, no panic) evaluated after every step.",
   note="Depth 3 is explored once per behaviour class (format, bounds, default type, permissions) — updateValue reads nothing else; only declared bounds are judged."),
 "C15": dict(cat="exploration", engine="catalog", ref="§2 C15",
   technique="exhaustive depth-1 enumeration of the constructor catalog (found by go/parser at check time) against gen/metadata.json",
   text="Every constructor is called and every metadata entry compared field by field; complete for the finite catalog present at check time.",
   note="gen/metadata.json in the tree is the reference; this is the degenerate (depth 1) form of exhaustive exploration."),
 "C18": dict(cat="model_checking", engine="seqx(Graph)", ref="§2 C18",
   technique="explicit-state BFS over the real file storage / pairing database with exact directory content as state key, every operation executed in every reachable state, step-by-step agreement with a Go map; plus every history of length 3/4 (and, for one key with same-length values under a clock that does not advance, 4/6) replayed WITHOUT state merging, reads included as operations of the object under test",
   text="Breadth-first search to depth 4/6 (storage) and 2/3 (database) where each transition runs the real operation on a directory rebuilt by replaying the state's shortest history; all return values, listings and entities are compared with a map after every step.",
   note="State merging on exact directory bytes is sound only if the storage object holds nothing but the path; the un-merged trees cover objects that cache. Storage keys: the characters hc itself uses, the colon, letter case, '<' and '?'."),
 "C19": dict(cat="fault_enumeration", engine="crashx (strace kill-point injection)", ref="§2 C19",
   technique="exhaustive crash-point enumeration: the real process is SIGKILLed at the entry of every file-system syscall of every write scenario (strace fault injection), then the store is re-opened and compared with old/new; plus environment answers without a kill, enumerated over small grids: writes cut short (RLIMIT_FSIZE) and a storage directory that is a nearly full file system of its own (tmpfs in a private mount namespace)",
   text="Every file-system syscall of every scenario (16 Set old/new combinations, Delete, SaveEntity ×3, add-pairing ×3, look-ups, a symbolic link as key file, three whole-transport starts) is a kill point on the real code and kernel file system; after each kill every key must read as its previous or its new value in full.",
   note="Process kill only (page cache survives): power loss and torn single writes are outside the property. Needs ptrace (strace)."),
 "C16": dict(cat="exploration", engine="enumx+refctl", ref="§2 C16",
   technique="bounded exhaustive enumeration of set sequences and parser inputs on the real container, differential against an independent TLV8 codec",
   text="Every tag × every value length 0..1024, every Set sequence up to depth 3/4 over boundary lengths, and every byte string up to length 2/3 (plus all prefixes/edits of valid encodings) is executed on hc's real container and compared with an independent reference codec. Exhaustive inside those bounds; contents are patterned, lengths above 1024 are a fixed list.",
   note="Trusted: the 60-line reference codec in internal/refctl/tlv.go; value contents beyond the position pattern are not enumerated."),
}

NOT_APPLICABLE = []

def main():
    checks = []
    for pid in sorted(CHECKS):
        c = CHECKS[pid]
        checks.append({
            "property_id": pid,
            "quick_cmd": f"./run.sh {pid} quick",
            "thorough_cmd": f"./run.sh {pid} thorough",
            "evidence_file": f"/verif/evidence/{pid}.json",
            "replay_cmd_template": "./run.sh replay {path}",
            "engine": c["engine"],
            "level_claimed": {"category": c["cat"], "text": c["text"], "design_ref": c["ref"]},
            "level_note": c["note"],
            "technique": c["technique"] + ("; plus stateless exploration, under a cooperative scheduler with a scheduling point before every statement of the library (preemption bound 1 / 2), of the interleavings of operation pairs and handler pairs on disjoint objects, each side compared with the sequential run" if pid in ("C01","C02","C03","C04","C05","C06","C07","C08","C09","C10","C11","C12","C13","C14","C16","C17","C18","C20") else ""),
        })
    props = [json.loads(l)["id"] for l in open(os.path.join(ROOT, "properties.jsonl"))]
    na = [x for x in NOT_APPLICABLE]
    claimed = set(CHECKS)
    listed = {x["property_id"] for x in na}
    for p in props:
        if p not in claimed and p not in listed:
            na.append({"property_id": p, "reason": "check not built yet in this revision of /verif (planned, see DESIGN.md §2); not claimed until its check runs clean"})
    m = {
        "version": 1,
        "setup_cmd": "./run.sh setup",
        "hooks": {
            "guard": "verif",
            "enable": "go build -tags verif (checks build /repo through a replace directive; C02, C03 and C08 additionally use a generated -overlay that routes the sync import of packages hap and crypto through a scheduler shim and adds a file to hc's log package that turns log statements into scheduling points; /repo is not touched by it)",
            "baseline_off_cmd": "cd /repo && GOFLAGS=-mod=mod go test -vet=off -count=1 ./...",
            "source_commits": ["87bc922", "251c496"],
            "add_only": True,
        },
        "engines": [
            {"name": "refctl", "path": "internal/refctl", "kind_free_text": "independent HAP controller (TLV8, SRP-6a, HKDF, session framing, HTTP/EVENT reader) — the reference model for wire behaviour", "serves_properties": ["C01","C02","C03","C04","C05","C06","C07","C08","C09","C10","C11","C13","C16","C20"]},
            {"name": "world", "path": "internal/world", "kind_free_text": "the real hc IP transport on loopback with scratch storage; panic capture", "serves_properties": ["C01","C02","C03","C04","C09","C10","C11","C13","C14","C20"]},
            {"name": "sched", "path": "internal/sched", "kind_free_text": "cooperative scheduler + iterative preemption-bounding explorer; internal/c08 (writers/readers of a connection) and internal/psched (pairing handlers of several connections) are its harnesses, built into cmd/vsched with the overlay of cmd/mkoverlay", "serves_properties": ["C02","C03","C08"]},
            {"name": "interf", "path": "internal/interf", "kind_free_text": "non-interference of operations / handlers on disjoint objects under statement-level interleaving (scheduling point before every statement of hc's packages, inserted textually by cmd/mkoverlay \"yield:<pkg>\"); preemption bound 1 / 2; result compared with the solo / sequential run", "serves_properties": ["C01","C02","C03","C04","C05","C06","C07","C08","C09","C10","C11","C12","C13","C14","C16","C17","C18","C20"]},
            {"name": "fw", "path": "internal/fw", "kind_free_text": "sharded worker processes, merge, known-findings filter, evidence, replay", "serves_properties": props},
        ],
        "checks": checks,
        "not_applicable": na,
        "notes": "All checks are bounded-exhaustive explorations of the real code (model checking family); see DESIGN.md. known_findings.json lists genuine defects recorded rather than repaired.",
    }
    json.dump(m, open(os.path.join(ROOT, "MANIFEST.json"), "w"), indent=1)
    print("wrote MANIFEST.json with", len(checks), "checks,", len(na), "not_applicable")

main()
