#!/usr/bin/env python3
"""Writes /verif/MANIFEST.json from the table below (one entry per claimed property)."""
import json, os
ROOT = os.path.dirname(os.path.dirname(os.path.abspath(__file__)))

CHECKS = {
 "C05": dict(cat="fault_enumeration", engine="enumx+refctl", ref="§2 C05",
   technique="exhaustive fault enumeration over the ciphertext stream (every bit flip, truncation, frame deletion/duplication/permutation, reflection, cross-session frame) against hc's real receiving session",
   text="Sender is the independent reference framing, receiver hc's real session. For 14 stream shapes every single-bit flip, every truncation offset and every frame-level rearrangement (≤4 frames) is applied and the receiver must release only an unmodified frame-granular prefix and report an error no later than the first altered frame; thorough adds all pairs from a reduced menu.",
   note="Trusted: x/crypto ChaCha20-Poly1305 and the reference framing; more than two simultaneous alterations are not enumerated."),
 "C06": dict(cat="exploration", engine="enumx+refctl", ref="§2 C06",
   technique="bounded exhaustive enumeration of payload lengths × reader behaviours × message sequences on hc's real sessions, byte-for-byte differential against an independent framing implementation",
   text="All payload lengths 0..4097 (plus six fixed larger ones) × six io.Reader delivery behaviours × both directions, contents and secrets on a grid, every 2–3 message sequence over boundary lengths: ciphertext must equal the reference framing byte for byte, hc's opposite end and the reference must decrypt it.",
   note="Trusted: reference framing (refctl/crypto.go). Contents other than three fills and lengths above 4097 other than the fixed list are not enumerated."),
 "C12": dict(cat="model_checking", engine="seqx+catalog", ref="§2 C12",
   technique="exhaustive exploration of update histories (depth 2, depth 3 per behaviour class) over a JSON value alphabet on every real characteristic constructor, invariant checked after every step",
   text="Every update sequence up to the depth bound over ≈40 JSON-like values × local/remote on every constructor present at check time; invariant (type, range, finiteness, getter, JSON encoding, no panic) evaluated after every step.",
   note="Depth 3 is explored once per behaviour class (format, bounds, default type, permissions) — updateValue reads nothing else; only declared bounds are judged."),
 "C15": dict(cat="exploration", engine="catalog", ref="§2 C15",
   technique="exhaustive depth-1 enumeration of the constructor catalog (found by go/parser at check time) against gen/metadata.json",
   text="Every constructor is called and every metadata entry compared field by field; complete for the finite catalog present at check time.",
   note="gen/metadata.json in the tree is the reference; this is the degenerate (depth 1) form of exhaustive exploration."),
 "C18": dict(cat="model_checking", engine="seqx(Graph)", ref="§2 C18",
   technique="explicit-state BFS over the real file storage / pairing database with exact directory content as state key, every operation executed in every reachable state, step-by-step agreement with a Go map",
   text="Breadth-first search to depth 4/6 (storage) and 2/3 (database) where each transition runs the real operation on a directory rebuilt by replaying the state's shortest history; all return values, listings and entities are compared with a map after every step.",
   note="State merging on exact directory bytes is sound because the storage object holds only the path. Storage keys are limited to characters hc itself uses."),
 "C19": dict(cat="fault_enumeration", engine="crashx (strace kill-point injection)", ref="§2 C19",
   technique="exhaustive crash-point enumeration: the real process is SIGKILLed at the entry of every file-system syscall of every write scenario (strace fault injection), then the store is re-opened and compared with old/new",
   text="Every file-system syscall of every scenario (16 Set old/new combinations, Delete, SaveEntity ×3, three whole-transport starts) is a kill point on the real code and kernel file system; after each kill every key must read as its previous or its new value in full.",
   note="Process kill only (page cache survives): power loss and torn single writes are outside the property. Needs ptrace (strace)."),
 "C16": dict(cat="exploration", engine="enumx+refctl", ref="§2 C16",
   technique="bounded exhaustive enumeration of set sequences and parser inputs on the real container, differential against an independent TLV8 codec",
   text="Every tag × every value length 0..1024, every Set sequence up to depth 3/4 over boundary lengths, and every byte string up to length 2/3 (plus all prefixes/edits of valid encodings) is executed on hc's real container and compared with an independent reference codec. Exhaustive inside those bounds; contents are patterned, lengths above 1024 are a fixed list.",
   note="Trusted: the 60-line reference codec in internal/refctl/tlv.go; value contents beyond the position pattern are not enumerated."),
}

NOT_APPLICABLE = []

def main():
    checks = []
    for pid in sorted(CHECKS):
        c = CHECKS[pid]
        checks.append({
            "property_id": pid,
            "quick_cmd": f"./run.sh {pid} quick",
            "thorough_cmd": f"./run.sh {pid} thorough",
            "evidence_file": f"/verif/evidence/{pid}.json",
            "replay_cmd_template": "./run.sh replay {path}",
            "engine": c["engine"],
            "level_claimed": {"category": c["cat"], "text": c["text"], "design_ref": c["ref"]},
            "level_note": c["note"],
            "technique": c["technique"],
        })
    props = [json.loads(l)["id"] for l in open(os.path.join(ROOT, "properties.jsonl"))]
    na = [x for x in NOT_APPLICABLE]
    claimed = set(CHECKS)
    listed = {x["property_id"] for x in na}
    for p in props:
        if p not in claimed and p not in listed:
            na.append({"property_id": p, "reason": "check not built yet in this revision of /verif (planned, see DESIGN.md §2); not claimed until its check runs clean"})
    m = {
        "version": 1,
        "setup_cmd": "./run.sh setup",
        "hooks": {
            "guard": "verif",
            "enable": "go build -tags verif (checks build /repo through a replace directive; C08 additionally uses a generated -overlay that routes package hap's sync import through a scheduler shim)",
            "baseline_off_cmd": "cd /repo && GOFLAGS=-mod=mod go test -vet=off -count=1 ./...",
            "source_commits": ["87bc922"],
            "add_only": True,
        },
        "engines": [
            {"name": "refctl", "path": "internal/refctl", "kind_free_text": "independent HAP controller (TLV8, SRP-6a, HKDF, session framing, HTTP/EVENT reader) — the reference model for wire behaviour", "serves_properties": ["C01","C02","C03","C04","C05","C06","C07","C08","C09","C10","C11","C13","C16","C20"]},
            {"name": "world", "path": "internal/world", "kind_free_text": "the real hc IP transport on loopback with scratch storage; panic capture", "serves_properties": ["C01","C02","C03","C04","C09","C10","C11","C13","C14","C20"]},
            {"name": "fw", "path": "internal/fw", "kind_free_text": "sharded worker processes, merge, known-findings filter, evidence, replay", "serves_properties": props},
        ],
        "checks": checks,
        "not_applicable": na,
        "notes": "All checks are bounded-exhaustive explorations of the real code (model checking family); see DESIGN.md. known_findings.json lists genuine defects recorded rather than repaired.",
    }
    json.dump(m, open(os.path.join(ROOT, "MANIFEST.json"), "w"), indent=1)
    print("wrote MANIFEST.json with", len(checks), "checks,", len(na), "not_applicable")

main()
