#!/usr/bin/env python3
"""Writes /verif/MANIFEST.json from the table below (one entry per claimed property)."""
import json, os
ROOT = os.path.dirname(os.path.dirname(os.path.abspath(__file__)))

CHECKS = {
 "C16": dict(cat="exploration", engine="enumx+refctl", ref="§2 C16",
   technique="bounded exhaustive enumeration of set sequences and parser inputs on the real container, differential against an independent TLV8 codec",
   text="Every tag × every value length 0..1024, every Set sequence up to depth 3/4 over boundary lengths, and every byte string up to length 2/3 (plus all prefixes/edits of valid encodings) is executed on hc's real container and compared with an independent reference codec. Exhaustive inside those bounds; contents are patterned, lengths above 1024 are a fixed list.",
   note="Trusted: the 60-line reference codec in internal/refctl/tlv.go; value contents beyond the position pattern are not enumerated."),
}

NOT_APPLICABLE = []

def main():
    checks = []
    for pid in sorted(CHECKS):
        c = CHECKS[pid]
        checks.append({
            "property_id": pid,
            "quick_cmd": f"./run.sh {pid} quick",
            "thorough_cmd": f"./run.sh {pid} thorough",
            "evidence_file": f"/verif/evidence/{pid}.json",
            "replay_cmd_template": "./run.sh replay {path}",
            "engine": c["engine"],
            "level_claimed": {"category": c["cat"], "text": c["text"], "design_ref": c["ref"]},
            "level_note": c["note"],
            "technique": c["technique"],
        })
    props = [json.loads(l)["id"] for l in open(os.path.join(ROOT, "properties.jsonl"))]
    na = [x for x in NOT_APPLICABLE]
    claimed = set(CHECKS)
    listed = {x["property_id"] for x in na}
    for p in props:
        if p not in claimed and p not in listed:
            na.append({"property_id": p, "reason": "check not built yet in this revision of /verif (planned, see DESIGN.md §2); not claimed until its check runs clean"})
    m = {
        "version": 1,
        "setup_cmd": "./run.sh setup",
        "hooks": {
            "guard": "verif",
            "enable": "go build -tags verif (checks build /repo through a replace directive; C08 additionally uses a generated -overlay that routes package hap's sync import through a scheduler shim)",
            "baseline_off_cmd": "cd /repo && GOFLAGS=-mod=mod go test -vet=off -count=1 ./...",
            "source_commits": ["87bc922"],
            "add_only": True,
        },
        "engines": [
            {"name": "refctl", "path": "internal/refctl", "kind_free_text": "independent HAP controller (TLV8, SRP-6a, HKDF, session framing, HTTP/EVENT reader) — the reference model for wire behaviour", "serves_properties": ["C01","C02","C03","C04","C05","C06","C07","C08","C09","C10","C11","C13","C16","C20"]},
            {"name": "world", "path": "internal/world", "kind_free_text": "the real hc IP transport on loopback with scratch storage; panic capture", "serves_properties": ["C01","C02","C03","C04","C09","C10","C11","C13","C14","C20"]},
            {"name": "fw", "path": "internal/fw", "kind_free_text": "sharded worker processes, merge, known-findings filter, evidence, replay", "serves_properties": props},
        ],
        "checks": checks,
        "not_applicable": na,
        "notes": "All checks are bounded-exhaustive explorations of the real code (model checking family); see DESIGN.md. known_findings.json lists genuine defects recorded rather than repaired.",
    }
    json.dump(m, open(os.path.join(ROOT, "MANIFEST.json"), "w"), indent=1)
    print("wrote MANIFEST.json with", len(checks), "checks,", len(na), "not_applicable")

main()
