#!/bin/bash
# tools/seed_eval.sh <ID> <mK> <pkgdir-for-demo> <go-test-args...>
#   e.g. tools/seed_eval.sh C05 m1 crypto -run TestDemo
# Confirms a sub-agent's mutant in a scratch worktree (applies; suite passes; demo fails with / passes without),
# then applies it to /repo, runs the property's quick check, undoes it, and files everything under seeded/<ID>-<mK>/.
set -u
ID=$1; MK=$2; PKG=$3; shift 3
SRC=/tmp/wt-out/${SRCBASE:-$ID}/$MK
export GOFLAGS=-mod=mod GOPROXY=off GOSUMDB=off GOTOOLCHAIN=local
WT=/tmp/sv-$ID-$MK
git -C /repo worktree remove --force $WT 2>/dev/null
git -C /repo worktree add -q --detach $WT HEAD || exit 2
res() { echo "$1=$2"; }
cd $WT
cp -r $SRC/demo/* $WT/$PKG/ 2>/dev/null
# demo without mutant
if go test -vet=off -count=1 ./$PKG/ "$@" > /tmp/sv.$$.log 2>&1; then DEMO_CLEAN=pass; else DEMO_CLEAN=fail; fi
tail -3 /tmp/sv.$$.log | sed 's/^/   clean: /'
if git apply $SRC/patch.diff; then APPLIES=yes; else APPLIES=no; fi
if go build ./... >/dev/null 2>&1; then BUILDS=yes; else BUILDS=no; fi
if go test -vet=off -count=1 ./$PKG/ "$@" > /tmp/sv.$$.log 2>&1; then DEMO_MUT=pass; else DEMO_MUT=fail; fi
tail -4 /tmp/sv.$$.log | sed 's/^/   mutant: /'
# existing suite with the mutant (demo files removed)
for f in $(cd $SRC/demo && ls); do rm -f $WT/$PKG/$f; done
if go test -vet=off -count=1 ./... > /tmp/sv.$$.log 2>&1; then SUITE=pass; else SUITE=fail; grep -E "FAIL|panic" /tmp/sv.$$.log | head -5; fi
cd /verif
git -C /repo worktree remove --force $WT
CHECKS="${CHECKS:-$ID}"
OUT=""
if [ $APPLIES = yes ] && [ "${SCRATCH:-}" = 1 ]; then   # triage while /repo is in use: scratch copies, see scratch_eval.sh
  for c in $CHECKS; do
    o=$(tools/scratch_eval.sh $SRC/patch.diff $c 2>&1)
    OUT="$OUT$c:$(echo "$o" | grep -o "rc=[0-9]*" | head -1)(scratch) "
    echo "$o" | grep -E "what:|INFRA" | head -4 | cut -c1-300
  done
elif [ $APPLIES = yes ] && git -C /repo diff --quiet; then
  git -C /repo apply $SRC/patch.diff
  for c in $CHECKS; do
    o=$(./run.sh $c ${TIER:-quick} 2>&1); rc=$?
    OUT="$OUT$c:rc=$rc "
    echo "$o" | grep -E "what:|INFRA|^$c " | head -4 | cut -c1-300
  done
  git -C /repo checkout -- . ; git -C /repo clean -fdq
fi
rm -f /verif/replays/*.json /tmp/sv.$$.log
D=/verif/seeded/$ID-${TAG:-}$MK; mkdir -p $D; cp $SRC/patch.diff $D/; rm -rf $D/demo; cp -r $SRC/demo $D/ 2>/dev/null; cp $SRC/README.md $D/AGENT_README.md 2>/dev/null
echo "RESULT $ID-${TAG:-}$MK applies=$APPLIES builds=$BUILDS suite=$SUITE demo_clean=$DEMO_CLEAN demo_mutant=$DEMO_MUT checks: $OUT"
cat > $D/result.txt <<EOT
applies=$APPLIES builds=$BUILDS suite=$SUITE demo_clean=$DEMO_CLEAN demo_mutant=$DEMO_MUT
demo: copy demo/* to $PKG/ and run: go test -vet=off -count=1 ./$PKG/ $*
checks: $OUT
EOT
