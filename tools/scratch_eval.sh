#!/bin/bash
# tools/scratch_eval.sh <patch.diff> <ID> [<ID>...]
# Triage only: runs the quick checks against a scratch worktree of /repo with the patch applied, using a scratch copy
# of /verif whose go.mod points at that worktree. /repo and /verif are not touched, so this can run while something else
# uses /repo. The result that counts is still the one of tools/seed_eval.sh / tools/seeded_all.sh (patch applied to /repo).
set -u
P=$1; [ "$P" != none ] && P=$(readlink -f "$1"); shift   # "none": the unchanged tree
export GOFLAGS=-mod=mod GOPROXY=off GOSUMDB=off GOTOOLCHAIN=local
K=$$
WT=/tmp/se-wt-$K; VF=/tmp/se-vf-$K
# (every scratch worktree has its own path, so nothing compiled from it is ever reused: the build cache only grows — trim it)
trim_cache() { local d; d=$(go env GOCACHE 2>/dev/null); [ -d "$d" ] || return 0; local g; g=$(du -s --block-size=1G "$d" 2>/dev/null | cut -f1); [ "${g:-0}" -gt 60 ] && [ "$(pgrep -fc 'tools/scratch_eval.sh')" -le 1 ] && go clean -cache 2>/dev/null; return 0; }   # (never while another evaluation is building)
trap 'git -C /repo worktree remove --force $WT 2>/dev/null; rm -rf $VF; trim_cache' EXIT
git -C /repo worktree add -q --detach $WT ${BASE_REV:-HEAD} || exit 2
if [ "$P" != none ] && ! git -C $WT apply "$P"; then echo "patch does not apply"; exit 2; fi
mkdir -p $VF
# the committed state of /verif (a working tree that is being edited does not make a run fail); VERIF_LIVE=1: the working tree
if [ "${VERIF_LIVE:-0}" = 1 ]; then
  rsync -a --exclude .build --exclude .scratch --exclude seeded --exclude evidence --exclude replays --exclude .git /verif/ $VF/
else
  git -C /verif archive ${VERIF_REV:-HEAD} -- . ':!seeded' ':!evidence' | tar -x -C $VF   # VERIF_REV: the checks as they stood at an earlier commit
fi
cd $VF
go mod edit -replace github.com/brutella/hc=$WT
export VERIF_REPO=$WT
for c in "$@"; do
  o=$(./run.sh $c ${TIER:-quick} 2>&1); rc=$?
  echo "$c rc=$rc"; echo "$o" | grep -E "^$c (quick|thorough):" | cut -c1-200
  echo "$o" | grep -E "what:|INFRA|VIOLATION|KNOWN" | head -${LINES_MAX:-4} | cut -c1-300
done
