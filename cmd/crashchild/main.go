// crashchild performs one storage operation between two marker syscalls so that the parent can kill it, with
// strace fault injection, at every file-system syscall of the operation.
//
//	crashchild <dir> set <key> <valuefile>
//	crashchild <dir> delete <key>
//	crashchild <dir> save-entity <name> <publen>
//	crashchild <dir> get-entity <name> | list-entities
//	crashchild <dir> fullfs <old length> <new length> <free pages>   (on a small file system of its own)
//	crashchild <dir> transport           (hc.NewIPTransport on the directory: device, config load/save)
package main

import (
	crand "crypto/rand"
	"fmt"
	"os"
	"runtime"
	"strconv"
	"syscall"

	"github.com/brutella/hc"
	"github.com/brutella/hc/accessory"
	"github.com/brutella/hc/db"
	"github.com/brutella/hc/hap/pair"
	hclog "github.com/brutella/hc/log"
	"github.com/brutella/hc/util"
)

func init() { runtime.LockOSThread() }

// detReader makes the device id and key pair of a first start reproducible across runs.
type detReader struct{ n byte }

func (d *detReader) Read(p []byte) (int, error) {
	for i := range p {
		d.n += 37
		p[i] = d.n
	}
	return len(p), nil
}

func mark(s string) { syscall.Access("/VERIF_MARK_"+s, 0) }

func main() {
	hclog.Info.Disable()
	runtime.GOMAXPROCS(1)
	dir, op := os.Args[1], os.Args[2]
	switch op {
	case "set":
		val, err := os.ReadFile(os.Args[4])
		if err != nil {
			fmt.Fprintln(os.Stderr, err)
			os.Exit(3)
		}
		st, err := util.NewFileStorage(dir)
		if err != nil {
			os.Exit(3)
		}
		mark("BEGIN")
		err = st.Set(os.Args[3], val)
		mark("END")
		if err != nil {
			os.Exit(4)
		}
	case "delete":
		st, err := util.NewFileStorage(dir)
		if err != nil {
			os.Exit(3)
		}
		mark("BEGIN")
		st.Delete(os.Args[3])
		mark("END")
	case "save-entity":
		n, _ := strconv.Atoi(os.Args[4])
		pub := make([]byte, n)
		for i := range pub {
			pub[i] = byte(i*3 + n)
		}
		database, err := db.NewDatabase(dir)
		if err != nil {
			os.Exit(3)
		}
		mark("BEGIN")
		err = database.SaveEntity(db.NewEntity(os.Args[3], pub, nil))
		mark("END")
		if err != nil {
			os.Exit(4)
		}
	case "fullfs":
		// crashchild <dir> fullfs <old length> <new length> <free pages>: <dir> is a small file system of its own (the
		// parent mounted a tmpfs there). A value is stored, the rest of the file system is filled up to <free pages>
		// pages, the value is set again. Success means the new value is read back, failure that the previous one is.
		oldN, _ := strconv.Atoi(os.Args[3])
		newN, _ := strconv.Atoi(os.Args[4])
		free, _ := strconv.Atoi(os.Args[5])
		mk := func(n int, b byte) []byte {
			v := make([]byte, n)
			for i := range v {
				v[i] = b + byte(i%7)
			}
			return v
		}
		st, err := util.NewFileStorage(dir)
		if err != nil {
			fmt.Println("RESULT infra", err)
			return
		}
		oldV, newV := mk(oldN, 'o'), mk(newN, 'n')
		if err := st.Set("k1", oldV); err != nil {
			fmt.Println("RESULT infra first Set:", err)
			return
		}
		st.Set("other", []byte("OTHER-VALUE"))
		filler := dir + "/.filler"
		f, err := os.Create(filler)
		if err != nil {
			fmt.Println("RESULT infra", err)
			return
		}
		page := make([]byte, 4096)
		pages := 0
		for pages < 100000 {
			if _, err := f.Write(page); err != nil {
				break
			}
			pages++
		}
		f.Close()
		if pages < free {
			free = pages
		}
		os.Truncate(filler, int64(pages-free)*4096)
		serr := st.Set("k1", newV)
		st2, _ := util.NewFileStorage(dir)
		got, gerr := st2.Get("k1")
		oth, _ := st2.Get("other")
		switch {
		case string(oth) != "OTHER-VALUE":
			fmt.Printf("RESULT violation another key reads %d bytes after the Set (error: %v)\n", len(oth), serr)
		case serr == nil && (gerr != nil || string(got) != string(newV)):
			fmt.Printf("RESULT violation Set reported success; the key reads %d bytes (err %v), the new value has %d\n", len(got), gerr, newN)
		case serr != nil && (gerr != nil || string(got) != string(oldV)):
			fmt.Printf("RESULT violation Set failed (%v); the key reads %d bytes (err %v) instead of the previous value of %d bytes\n", serr, len(got), gerr, oldN)
		case serr == nil:
			fmt.Println("RESULT ok stored")
		default:
			fmt.Println("RESULT ok refused")
		}
	case "get-entity":
		// a look-up: nothing is written, and whatever the database does on the way must survive a kill as well
		database, err := db.NewDatabase(dir)
		if err != nil {
			os.Exit(3)
		}
		mark("BEGIN")
		database.EntityWithName(os.Args[3])
		mark("END")
	case "list-entities":
		database, err := db.NewDatabase(dir)
		if err != nil {
			os.Exit(3)
		}
		mark("BEGIN")
		database.Entities()
		mark("END")
	case "add-pairing":
		// an administrator's add-pairing request as the /pairings endpoint hands it to the pairing controller
		n, _ := strconv.Atoi(os.Args[4])
		pub := make([]byte, n)
		for i := range pub {
			pub[i] = byte(i*5 + n)
		}
		database, err := db.NewDatabase(dir)
		if err != nil {
			os.Exit(3)
		}
		req := util.NewTLV8Container()
		req.SetByte(pair.TagPairingMethod, byte(pair.PairingMethodAdd))
		req.SetString(pair.TagUsername, os.Args[3])
		req.SetBytes(pair.TagPublicKey, pub)
		req.SetByte(pair.TagPermission, 1)
		mark("BEGIN")
		_, err = pair.NewPairingController(database).Handle(req)
		mark("END")
		if err != nil {
			os.Exit(4)
		}
	case "transport":
		crand.Reader = &detReader{}
		acc := accessory.NewSwitch(accessory.Info{Name: "CrashAcc"})
		extra := accessory.NewLightbulb(accessory.Info{Name: "Extra"})
		mark("BEGIN")
		var err error
		if len(os.Args) > 3 && os.Args[3] == "changed" {
			_, err = hc.NewIPTransport(hc.Config{StoragePath: dir}, acc.Accessory, extra.Accessory)
		} else {
			_, err = hc.NewIPTransport(hc.Config{StoragePath: dir}, acc.Accessory)
		}
		mark("END")
		if err != nil {
			os.Exit(4)
		}
	default:
		os.Exit(2)
	}
}
