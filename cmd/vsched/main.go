// vsched is the scheduler binary (C08's check, and the pairing-handler exploration that the C02 and C03 checks
// run as a subprocess); it must be built with the overlay produced by cmd/mkoverlay.
package main

import (
	"os"

	"verif/internal/c08"
	"verif/internal/fw"
	"verif/internal/interf"
	"verif/internal/psched"
)

func main() {
	if len(os.Args) > 1 && os.Args[1] == "freerun" {
		c08.FreeRun()
		return
	}
	if len(os.Args) > 1 && (os.Args[1] == "pairsched" || os.Args[1] == "pairsched-replay") {
		psched.Main(os.Args[1:])
		return
	}
	if len(os.Args) > 1 && (os.Args[1] == "interf" || os.Args[1] == "interf-replay") {
		interf.Main(os.Args[1:])
		return
	}
	fw.Main()
}
