// vsched is the C08 binary; it must be built with the overlay produced by cmd/mkoverlay.
package main

import (
	"os"

	"verif/internal/c08"
	"verif/internal/fw"
)

func main() {
	if len(os.Args) > 1 && os.Args[1] == "freerun" {
		c08.FreeRun()
		return
	}
	fw.Main()
}
