// vcheck is the single check binary: one sub-command per property (see internal/fw.Main).
package main

import (
	_ "verif/internal/checks"
	"verif/internal/fw"
)

func main() { fw.Main() }
