// mkoverlay writes a `go build -overlay` file that (1) adds the scheduler shim as the virtual package
// <repo>/verifshim/vsync and (2) replaces every non-test file of the given repo packages that imports "sync" by
// a copy whose import is rewritten to the shim, and (3) adds a file to hc's log package that turns every log
// statement into a scheduling point. /repo itself is not touched.
//
//	mkoverlay <repo> <shim source> <outdir> <pkgdir>...
package main

import (
	"encoding/json"
	"fmt"
	"go/ast"
	"go/format"
	"go/parser"
	"go/token"
	"os"
	"path/filepath"
	"strings"
)

func main() {
	repo, shim, out := os.Args[1], os.Args[2], os.Args[3]
	os.MkdirAll(out, 0755)
	repl := map[string]string{}
	b, err := os.ReadFile(shim)
	die(err)
	shimCopy := filepath.Join(out, "vsync.go")
	die(os.WriteFile(shimCopy, b, 0644))
	repl[filepath.Join(repo, "verifshim", "vsync", "vsync.go")] = shimCopy
	// every log statement of the library becomes a scheduling point: a file ADDED to hc's log package
	if ly, err := os.ReadFile(filepath.Join(filepath.Dir(filepath.Dir(shim)), "logyield", "logyield.go.txt")); err == nil {
		if _, err := os.Stat(filepath.Join(repo, "log")); err == nil {
			lyCopy := filepath.Join(out, "log_verif_yield.go")
			die(os.WriteFile(lyCopy, ly, 0644))
			repl[filepath.Join(repo, "log", "verif_yield_overlay.go")] = lyCopy
		}
	}
	n := 0
	for _, pkg := range os.Args[4:] {
		dir := filepath.Join(repo, pkg)
		ents, err := os.ReadDir(dir)
		die(err)
		for _, e := range ents {
			if e.IsDir() || !strings.HasSuffix(e.Name(), ".go") || strings.HasSuffix(e.Name(), "_test.go") {
				continue
			}
			path := filepath.Join(dir, e.Name())
			fset := token.NewFileSet()
			f, err := parser.ParseFile(fset, path, nil, parser.ParseComments)
			die(err)
			changed := false
			for _, im := range f.Imports {
				if im.Path.Value == `"sync"` {
					im.Path.Value = `"github.com/brutella/hc/verifshim/vsync"`
					if im.Name == nil {
						im.Name = ast.NewIdent("sync")
					}
					changed = true
				}
			}
			if !changed {
				continue
			}
			dst := filepath.Join(out, strings.ReplaceAll(pkg, "/", "_")+"_"+e.Name())
			w, err := os.Create(dst)
			die(err)
			die(format.Node(w, fset, f))
			w.Close()
			repl[path] = dst
			n++
		}
	}
	j, _ := json.MarshalIndent(map[string]interface{}{"Replace": repl}, "", " ")
	die(os.WriteFile(filepath.Join(out, "overlay.json"), j, 0644))
	fmt.Fprintf(os.Stderr, "mkoverlay: %d files rewritten\n", n)
}

func die(err error) {
	if err != nil {
		fmt.Fprintln(os.Stderr, "mkoverlay:", err)
		os.Exit(1)
	}
}
