// mkoverlay writes a `go build -overlay` file that (1) adds the scheduler shim as the virtual package
// <repo>/verifshim/vsync and (2) replaces every non-test file of the given repo packages that imports "sync" by
// a copy whose import is rewritten to the shim, and (3) adds a file to hc's log package that turns every log
// statement into a scheduling point. /repo itself is not touched.
//
//	mkoverlay <repo> <shim source> <outdir> <pkgdir>...
package main

import (
	"bytes"
	"encoding/json"
	"fmt"
	"go/ast"
	"go/format"
	"go/parser"
	"go/token"
	"os"
	"path/filepath"
	"sort"
	"strings"
)

func main() {
	repo, shim, out := os.Args[1], os.Args[2], os.Args[3]
	os.MkdirAll(out, 0755)
	repl := map[string]string{}
	b, err := os.ReadFile(shim)
	die(err)
	shimCopy := filepath.Join(out, "vsync.go")
	die(os.WriteFile(shimCopy, b, 0644))
	repl[filepath.Join(repo, "verifshim", "vsync", "vsync.go")] = shimCopy
	// files ADDED to packages of the library (overlay/add/<package dir>/<name>.go.txt; "_root" = the module root):
	// log statements as scheduling points, a listener-less server and the multiplexer of a transport not started
	addRoot := filepath.Join(filepath.Dir(filepath.Dir(shim)), "add")
	filepath.Walk(addRoot, func(p string, info os.FileInfo, err error) error {
		if err != nil || info.IsDir() || !strings.HasSuffix(p, ".go.txt") {
			return nil
		}
		rel, _ := filepath.Rel(addRoot, filepath.Dir(p))
		pkgDir := filepath.Join(repo, rel)
		if rel == "_root" {
			pkgDir = repo
		}
		if _, err := os.Stat(pkgDir); err != nil {
			return nil
		}
		b, err := os.ReadFile(p)
		die(err)
		name := strings.TrimSuffix(filepath.Base(p), ".txt")
		cp := filepath.Join(out, "add_"+strings.ReplaceAll(rel, "/", "_")+"_"+name)
		die(os.WriteFile(cp, b, 0644))
		repl[filepath.Join(pkgDir, name)] = cp
		return nil
	})
	n := 0
	{
		// the package the inserted scheduling points call (always present: cmd/vsched links the harness that sets its hook)
		src := "// Package vyield exists only in verification builds (go build -overlay).\npackage vyield\n\n// Hook is called before every statement of the instrumented packages when it is set.\nvar Hook func()\n\n// Y is the inserted call.\nfunc Y() {\n\tif h := Hook; h != nil {\n\t\th()\n\t}\n}\n\n// GoHook, when set, starts the goroutines of the instrumented packages.\nvar GoHook func(func())\n\n// Go replaces the go statement.\nfunc Go(fn func()) {\n\tif h := GoHook; h != nil {\n\t\th(fn)\n\t\treturn\n\t}\n\tgo fn()\n}\n"
		yc := filepath.Join(out, "vyield.go")
		die(os.WriteFile(yc, []byte(src), 0644))
		repl[filepath.Join(repo, "verifshim", "vyield", "vyield.go")] = yc
	}
	for _, pkg := range os.Args[4:] {
		// "yield:<pkg>": additionally, a scheduling point is inserted before EVERY statement of the package
		// (textually, at the statement's start offset, so that nothing else of the file changes)
		// "go:<pkg>": only the go statements of the package are rewritten (the goroutines it starts become threads of the
		// explorer), no scheduling points are inserted
		yield := strings.HasPrefix(pkg, "yield:")
		goOnly := strings.HasPrefix(pkg, "go:")
		pkg = strings.TrimPrefix(strings.TrimPrefix(pkg, "yield:"), "go:")
		dir := filepath.Join(repo, pkg)
		ents, err := os.ReadDir(dir)
		die(err)
		for _, e := range ents {
			if e.IsDir() || !strings.HasSuffix(e.Name(), ".go") || strings.HasSuffix(e.Name(), "_test.go") {
				continue
			}
			path := filepath.Join(dir, e.Name())
			fset := token.NewFileSet()
			f, err := parser.ParseFile(fset, path, nil, parser.ParseComments)
			die(err)
			changed := false
			for _, im := range f.Imports {
				if im.Path.Value == `"sync"` {
					im.Path.Value = `"github.com/brutella/hc/verifshim/vsync"`
					if im.Name == nil {
						im.Name = ast.NewIdent("sync")
					}
					changed = true
				}
			}
			hasGo := false
			if goOnly {
				ast.Inspect(f, func(n ast.Node) bool {
					if _, ok := n.(*ast.GoStmt); ok {
						hasGo = true
					}
					return true
				})
			}
			if !changed && !yield && !hasGo {
				continue
			}
			dst := filepath.Join(out, strings.ReplaceAll(pkg, "/", "_")+"_"+e.Name())
			var buf bytes.Buffer
			if changed {
				die(format.Node(&buf, fset, f))
			} else {
				b, err := os.ReadFile(path)
				die(err)
				buf.Write(b)
			}
			src := buf.Bytes()
			if yield {
				src = insertYields(src, true)
			} else if hasGo {
				src = insertYields(src, false)
			}
			die(os.WriteFile(dst, src, 0644))
			repl[path] = dst
			n++
		}
	}
	j, _ := json.MarshalIndent(map[string]interface{}{"Replace": repl}, "", " ")
	die(os.WriteFile(filepath.Join(out, "overlay.json"), j, 0644))
	fmt.Fprintf(os.Stderr, "mkoverlay: %d files rewritten\n", n)
}

// insertYields puts "vyield.Y(); " in front of every statement of every block, case and select clause.
func insertYields(src []byte, stmts bool) []byte {
	fset := token.NewFileSet()
	f, err := parser.ParseFile(fset, "x.go", src, parser.ParseComments)
	die(err)
	type edit struct {
		off, del, ord int
		ins           string
	}
	var edits []edit
	add := func(list []ast.Stmt) {
		if !stmts {
			return
		}
		for _, st := range list {
			switch st.(type) {
			case *ast.CaseClause, *ast.CommClause:
				continue // the "statements" of a switch / select body are its clauses
			}
			edits = append(edits, edit{off: fset.Position(st.Pos()).Offset, ins: "vyield.Y(); "})
		}
	}
	ast.Inspect(f, func(n ast.Node) bool {
		switch x := n.(type) {
		case *ast.BlockStmt:
			add(x.List)
		case *ast.CaseClause:
			add(x.Body)
		case *ast.CommClause:
			add(x.Body)
		case *ast.GoStmt:
			// "go f(x)" becomes "vyield.Go(func() { f(x) })": a goroutine started by instrumented code is a thread of
			// the explorer (spawn is a scheduling point), not a free-running one
			edits = append(edits, edit{off: fset.Position(x.Pos()).Offset, del: 2, ord: 1, ins: "vyield.Go(func() {"})
			edits = append(edits, edit{off: fset.Position(x.End()).Offset, ord: -1, ins: " })"})
		}
		return true
	})
	if len(edits) == 0 {
		return src
	}
	sort.SliceStable(edits, func(i, j int) bool {
		if edits[i].off != edits[j].off {
			return edits[i].off < edits[j].off
		}
		return edits[i].ord < edits[j].ord
	})
	var out bytes.Buffer
	last := 0
	for _, e := range edits {
		out.Write(src[last:e.off])
		out.WriteString(e.ins)
		last = e.off + e.del
	}
	out.Write(src[last:])
	res := out.Bytes()
	// the import goes right after the package clause (a separate import declaration)
	end := fset.Position(f.Name.End()).Offset
	var withImp bytes.Buffer
	withImp.Write(res[:end])
	withImp.WriteString("; import vyield \"github.com/brutella/hc/verifshim/vyield\"")
	withImp.Write(res[end:])
	return withImp.Bytes()
}

func die(err error) {
	if err != nil {
		fmt.Fprintln(os.Stderr, "mkoverlay:", err)
		os.Exit(1)
	}
}
