// Package fw is the shared plumbing of every check: sharded worker processes, result merging,
// known-findings filter, evidence and replay files, VIOLATION / KNOWN-FINDING lines and exit codes.
package fw

import (
	"crypto/sha256"
	"encoding/binary"
	"encoding/hex"
	"encoding/json"
	"fmt"
	"os"
	"os/exec"
	"path/filepath"
	"runtime"
	"sort"
	"strconv"
	"strings"
	"sync"
	"syscall"
	"time"
)

// Violation is one property violation found by a check.
type Violation struct {
	// Sig is the narrow machine signature used for de-duplication and for the known-findings filter.
	Sig string `json:"sig"`
	// Desc says in words what failed.
	Desc string `json:"desc"`
	// Case is the replayable description of the failing case (check specific).
	Case json.RawMessage `json:"case"`
	// Count is the number of explored cases with this signature.
	Count int `json:"count"`
}

// Result is what one worker (or the merged run) produced.
type Result struct {
	Evaluations int64            `json:"evaluations"`
	States      int64            `json:"states"`
	Transitions int64            `json:"transitions"`
	Traces      int64            `json:"traces"`
	Classes     map[string]int64 `json:"classes"` // distinct observation classes → count
	Violations  []Violation      `json:"violations"`
	Samples     []interface{}    `json:"samples"`
	Exhaustive  bool             `json:"exhaustive"`
	Notes       []string         `json:"notes"`
	Extra       map[string]int64 `json:"extra"`
	InfraErrors []string         `json:"infra_errors"`
}

// Ctx is handed to a check's Run function inside a worker process.
type Ctx struct {
	ID       string
	Tier     string // quick | thorough
	Shard    int
	NShards  int
	Seed     int64
	Scratch  string // per-worker scratch directory (removed by the parent)
	outPath  string
	crumb    []byte
	Deadline time.Time

	mu  sync.Mutex
	res Result
	vio map[string]*Violation
}

func (c *Ctx) Thorough() bool { return c.Tier == "thorough" }

// Mine says whether work item i belongs to this shard.
func (c *Ctx) Mine(i int) bool { return c.NShards <= 1 || i%c.NShards == c.Shard }

// Eval counts n executed cases.
func (c *Ctx) Eval(n int) { c.mu.Lock(); c.res.Evaluations += int64(n); c.mu.Unlock() }

// State / Transition / Trace count model-checking coverage.
func (c *Ctx) State(n int)      { c.mu.Lock(); c.res.States += int64(n); c.mu.Unlock() }
func (c *Ctx) Transition(n int) { c.mu.Lock(); c.res.Transitions += int64(n); c.mu.Unlock() }
func (c *Ctx) Trace(n int)      { c.mu.Lock(); c.res.Traces += int64(n); c.mu.Unlock() }

// Class records a distinct observation class (vacuity guard: many executions, one class = nothing collided).
func (c *Ctx) Class(k string) {
	c.mu.Lock()
	if c.res.Classes == nil {
		c.res.Classes = map[string]int64{}
	}
	c.res.Classes[k]++
	c.mu.Unlock()
}

// Extra adds to a named counter.
func (c *Ctx) Extra(k string, n int64) {
	c.mu.Lock()
	if c.res.Extra == nil {
		c.res.Extra = map[string]int64{}
	}
	c.res.Extra[k] += n
	c.mu.Unlock()
}

// Sample keeps up to 4 written-out cases per worker.
func (c *Ctx) Sample(v interface{}) {
	c.mu.Lock()
	if len(c.res.Samples) < 4 {
		c.res.Samples = append(c.res.Samples, v)
	}
	c.mu.Unlock()
}

func (c *Ctx) Note(s string) { c.mu.Lock(); c.res.Notes = append(c.res.Notes, s); c.mu.Unlock() }

// Infra records an infrastructure problem (never a verdict).
func (c *Ctx) Infra(s string) {
	c.mu.Lock()
	if len(c.res.InfraErrors) < 20 {
		c.res.InfraErrors = append(c.res.InfraErrors, s)
	}
	c.mu.Unlock()
}

// NotExhaustive marks the run as cut short (deadline or cap).
func (c *Ctx) NotExhaustive(why string) {
	c.mu.Lock()
	c.res.Exhaustive = false
	c.res.Notes = append(c.res.Notes, "not exhaustive: "+why)
	c.mu.Unlock()
}

// Expired says whether the internal deadline passed.
func (c *Ctx) Expired() bool { return !c.Deadline.IsZero() && time.Now().After(c.Deadline) }

// Report records a violation; the first case per signature is kept as the replay artefact.
func (c *Ctx) Report(sig, desc string, cas interface{}) {
	c.mu.Lock()
	defer c.mu.Unlock()
	if c.vio == nil {
		c.vio = map[string]*Violation{}
	}
	if v, ok := c.vio[sig]; ok {
		v.Count++
		return
	}
	raw, _ := json.Marshal(cas)
	c.vio[sig] = &Violation{Sig: sig, Desc: desc, Case: raw, Count: 1}
}

// Breadcrumb records, before a call into the code under exploration that might take the whole worker down (memory
// without end, stack overflow — not recoverable in Go), which case is about to run. If the worker then dies with a
// fatal runtime error whose stack is inside the library, the parent reports that case as a violation.
func (c *Ctx) Breadcrumb(sig, desc string, cas interface{}) {
	if c.crumb == nil {
		// a shared file mapping: writing it costs no system call, and what was written survives the death of the process
		f, err := os.OpenFile(filepath.Join(c.Scratch, "breadcrumb.bin"), os.O_RDWR|os.O_CREATE|os.O_TRUNC, 0644)
		if err != nil {
			return
		}
		defer f.Close()
		if f.Truncate(crumbSize) != nil {
			return
		}
		m, err := syscall.Mmap(int(f.Fd()), 0, crumbSize, syscall.PROT_READ|syscall.PROT_WRITE, syscall.MAP_SHARED)
		if err != nil {
			return
		}
		c.crumb = m
	}
	raw, _ := json.Marshal(cas)
	if len(raw) > crumbSize/2 {
		raw = []byte("null")
	}
	b, _ := json.Marshal(Violation{Sig: sig, Desc: desc, Case: raw, Count: 1})
	if len(b)+4 > crumbSize {
		return
	}
	binary.LittleEndian.PutUint32(c.crumb[:4], 0) // invalid while it is being written
	copy(c.crumb[4:], b)
	binary.LittleEndian.PutUint32(c.crumb[:4], uint32(len(b)))
}

const crumbSize = 1 << 18

func readBreadcrumb(dir string) ([]byte, error) {
	b, err := os.ReadFile(filepath.Join(dir, "breadcrumb.bin"))
	if err != nil || len(b) < 4 {
		return nil, fmt.Errorf("no breadcrumb")
	}
	n := int(binary.LittleEndian.Uint32(b[:4]))
	if n == 0 || n+4 > len(b) {
		return nil, fmt.Errorf("no breadcrumb")
	}
	return b[4 : 4+n], nil
}

// Violated says whether sig has already been reported by this worker.
func (c *Ctx) Violated(sig string) bool {
	c.mu.Lock()
	defer c.mu.Unlock()
	_, ok := c.vio[sig]
	return ok
}

func (c *Ctx) finish() Result {
	c.mu.Lock()
	defer c.mu.Unlock()
	r := c.res
	var sigs []string
	for s := range c.vio {
		sigs = append(sigs, s)
	}
	sort.Strings(sigs)
	for _, s := range sigs {
		r.Violations = append(r.Violations, *c.vio[s])
	}
	return r
}

// Check is the registration record of one property check.
type Check struct {
	ID    string
	Level string // evidence level
	Rule  string // how cases are enumerated and what makes one distinct/non-trivial
	// Shards returns the number of worker processes for a tier (0 = number of CPUs).
	Shards func(tier string) int
	// Run explores the shard's part of the space.
	Run func(c *Ctx)
	// Replay re-executes one recorded case without the explorer and reports through c as Run does.
	Replay func(c *Ctx, cas json.RawMessage)
	// Budget is the internal deadline for a tier (after it the run ends exhaustive:false, exit 0).
	Budget func(tier string) time.Duration
	// Assumptions listed in the evidence file.
	Assumptions []string
	// PostMerge lets the check add derived counters after merging (optional).
	PostMerge func(r *Result)
}

var registry = map[string]*Check{}

func Register(ch *Check) { registry[ch.ID] = ch }

// Each calls f for every registered check (used to wrap replay functions).
func Each(f func(*Check)) {
	for _, ch := range registry {
		f(ch)
	}
}

// Finding is one entry of known_findings.json.
type Finding struct {
	Property string `json:"property"`
	Status   string `json:"status"` // open | fixed
	Sig      string `json:"sig"`    // exact signature, or prefix when it ends in '*'
	What     string `json:"what"`
	Commit   string `json:"commit,omitempty"`
}

func loadFindings(root string) []Finding {
	b, err := os.ReadFile(filepath.Join(root, "known_findings.json"))
	if err != nil {
		return nil
	}
	var f struct {
		Findings []Finding `json:"findings"`
	}
	if err := json.Unmarshal(b, &f); err != nil {
		fmt.Fprintln(os.Stderr, "known_findings.json:", err)
		os.Exit(2)
	}
	return f.Findings
}

func matchFinding(fs []Finding, id, sig string) *Finding {
	for i := range fs {
		f := &fs[i]
		if f.Property != id || f.Status != "open" {
			continue
		}
		if f.Sig == sig || (strings.HasSuffix(f.Sig, "*") && strings.HasPrefix(sig, strings.TrimSuffix(f.Sig, "*"))) {
			return f
		}
	}
	return nil
}

func root() string {
	if r := os.Getenv("VERIF_ROOT"); r != "" {
		return r
	}
	return "/verif"
}

// Main is the entry point of the vcheck binary.
//
//	vcheck <ID> <quick|thorough>           parent: spawns workers, merges, writes evidence, prints verdict lines
//	vcheck worker <ID> <tier> <i> <n> <out> <scratch>
//	vcheck replay <path>
//	vcheck list
func Main() {
	args := os.Args[1:]
	if len(args) == 0 {
		fmt.Fprintln(os.Stderr, "usage: vcheck <ID> <quick|thorough> | replay <path> | list")
		os.Exit(2)
	}
	switch args[0] {
	case "list":
		var ids []string
		for id := range registry {
			ids = append(ids, id)
		}
		sort.Strings(ids)
		fmt.Println(strings.Join(ids, " "))
	case "worker":
		worker(args[1:])
	case "replay":
		replay(args[1])
	default:
		tier := "quick"
		if len(args) > 1 {
			tier = args[1]
		}
		if t := os.Getenv("VERIF_TIER"); t != "" && len(args) <= 1 {
			tier = t
		}
		parent(args[0], tier)
	}
}

func seed() int64 {
	s, _ := strconv.ParseInt(os.Getenv("VERIF_SEED"), 10, 64)
	return s
}

func worker(a []string) {
	id, tier := a[0], a[1]
	i, _ := strconv.Atoi(a[2])
	n, _ := strconv.Atoi(a[3])
	out, scratch := a[4], a[5]
	ch := registry[id]
	if ch == nil {
		fmt.Fprintln(os.Stderr, "unknown check", id)
		os.Exit(2)
	}
	c := &Ctx{ID: id, Tier: tier, Shard: i, NShards: n, Seed: seed(), Scratch: scratch}
	c.res.Exhaustive = true
	c.outPath = out
	if ch.Budget != nil {
		c.Deadline = time.Now().Add(ch.Budget(tier))
	}
	limitMemory()
	ch.Run(c)
	b, _ := json.Marshal(c.finish())
	if err := os.WriteFile(out, b, 0644); err != nil {
		fmt.Fprintln(os.Stderr, err)
		os.Exit(2)
	}
}

// limitMemory bounds the address space of a worker (the sandbox has no memory limit of its own): code under
// exploration that allocates without end then dies with "out of memory" instead of taking the machine down.
func memLimitText() string {
	if v := os.Getenv("VERIF_WORKER_MEM_GB"); v != "" {
		return v + " GiB"
	}
	return "12 GiB"
}

func limitMemory() {
	gb := uint64(12)
	if v, err := strconv.Atoi(os.Getenv("VERIF_WORKER_MEM_GB")); err == nil && v > 0 {
		gb = uint64(v)
	}
	lim := syscall.Rlimit{Cur: gb << 30, Max: gb << 30}
	syscall.Setrlimit(syscall.RLIMIT_AS, &lim)
}

// Abort ends this worker at once with what it has found so far (used after a hang in the code under exploration:
// the hanging goroutine cannot be stopped and may go on allocating).
func (c *Ctx) Abort() {
	c.NotExhaustive("worker stopped early after a hang in the code under exploration")
	b, _ := json.Marshal(c.finish())
	if c.outPath != "" {
		os.WriteFile(c.outPath, b, 0644)
	}
	os.Exit(0)
}

func merge(dst *Result, src Result) {
	dst.Evaluations += src.Evaluations
	dst.States += src.States
	dst.Transitions += src.Transitions
	dst.Traces += src.Traces
	if dst.Classes == nil {
		dst.Classes = map[string]int64{}
	}
	for k, v := range src.Classes {
		dst.Classes[k] += v
	}
	if dst.Extra == nil {
		dst.Extra = map[string]int64{}
	}
	for k, v := range src.Extra {
		dst.Extra[k] += v
	}
	dst.Exhaustive = dst.Exhaustive && src.Exhaustive
	dst.Notes = append(dst.Notes, src.Notes...)
	dst.InfraErrors = append(dst.InfraErrors, src.InfraErrors...)
	if len(dst.Samples) < 6 {
		for _, s := range src.Samples {
			if len(dst.Samples) < 6 {
				dst.Samples = append(dst.Samples, s)
			}
		}
	}
	for _, v := range src.Violations {
		found := false
		for i := range dst.Violations {
			if dst.Violations[i].Sig == v.Sig {
				dst.Violations[i].Count += v.Count
				if len(v.Case) < len(dst.Violations[i].Case) { // keep the shortest case
					dst.Violations[i].Case = v.Case
					dst.Violations[i].Desc = v.Desc
				}
				found = true
			}
		}
		if !found {
			dst.Violations = append(dst.Violations, v)
		}
	}
}

func uniq(ss []string) []string {
	seen := map[string]bool{}
	var out []string
	for _, s := range ss {
		if !seen[s] {
			seen[s] = true
			out = append(out, s)
		}
	}
	return out
}

func parent(id, tier string) {
	ch := registry[id]
	if ch == nil {
		fmt.Fprintln(os.Stderr, "unknown check", id)
		os.Exit(2)
	}
	t0 := time.Now()
	n := runtime.NumCPU()
	if ch.Shards != nil {
		if k := ch.Shards(tier); k > 0 {
			n = k
		}
	}
	scratchRoot, err := os.MkdirTemp("", "vcheck-"+id+"-")
	if err != nil {
		fmt.Fprintln(os.Stderr, err)
		os.Exit(2)
	}
	exe, _ := os.Executable()
	var wg sync.WaitGroup
	results := make([]Result, n)
	fails := make([]string, n)
	for i := 0; i < n; i++ {
		wg.Add(1)
		go func(i int) {
			defer wg.Done()
			out := filepath.Join(scratchRoot, fmt.Sprintf("res-%d.json", i))
			sc := filepath.Join(scratchRoot, fmt.Sprintf("w%d", i))
			os.MkdirAll(sc, 0755)
			cmd := exec.Command(exe, "worker", id, tier, strconv.Itoa(i), strconv.Itoa(n), out, sc)
			cmd.Env = append(os.Environ(), "TMPDIR="+sc)
			logf, _ := os.Create(filepath.Join(scratchRoot, fmt.Sprintf("w%d.log", i)))
			cmd.Stdout, cmd.Stderr = logf, logf
			err := cmd.Run()
			logf.Close()
			b, rerr := os.ReadFile(out)
			if err != nil || rerr != nil {
				lg, _ := os.ReadFile(filepath.Join(scratchRoot, fmt.Sprintf("w%d.log", i)))
				// a fatal runtime error (out of memory, stack overflow) with the library on the stack, and a breadcrumb
				// saying which case was running: that case is a violation, not an infrastructure failure
				if bc, berr := readBreadcrumb(sc); berr == nil {
					ls := string(lg)
					fatal := ""
					for _, f := range []string{"fatal error: out of memory", "fatal error: runtime: out of memory", "fatal error: stack overflow", "runtime: goroutine stack exceeds", "cannot allocate memory"} {
						if strings.Contains(ls, f) {
							fatal = f
						}
					}
					var v Violation
					if fatal != "" && strings.Contains(ls, "github.com/brutella/hc/") && json.Unmarshal(bc, &v) == nil {
						site := ""
						for _, l := range strings.Split(ls, "\n") {
							if strings.HasPrefix(l, "github.com/brutella/hc/") && site == "" {
								site = strings.SplitN(l, "(", 2)[0]
							}
						}
						v.Desc += fmt.Sprintf(" — the worker process died with %q (memory limit %s) in %s", fatal, memLimitText(), site)
						results[i] = Result{Exhaustive: false, Evaluations: 1, Violations: []Violation{v}, Notes: []string{"not exhaustive: a worker died with a fatal runtime error in the code under exploration; its other results are lost"}}
						return
					}
				}
				if len(lg) > 3000 {
					lg = lg[len(lg)-3000:]
				}
				fails[i] = fmt.Sprintf("worker %d: %v %v\n%s", i, err, rerr, lg)
				return
			}
			if err := json.Unmarshal(b, &results[i]); err != nil {
				fails[i] = fmt.Sprintf("worker %d: bad result: %v", i, err)
			}
		}(i)
	}
	wg.Wait()
	os.RemoveAll(scratchRoot)
	for _, f := range fails {
		if f != "" {
			fmt.Fprintln(os.Stderr, "INFRASTRUCTURE ERROR:", f)
			os.Exit(2)
		}
	}
	total := Result{Exhaustive: true}
	for _, r := range results {
		merge(&total, r)
	}
	total.Notes = uniq(total.Notes)
	if ch.PostMerge != nil {
		ch.PostMerge(&total)
	}
	finish(ch, tier, total, time.Since(t0).Seconds(), true)
}

func finish(ch *Check, tier string, total Result, wall float64, writeEvidence bool) {
	rt := root()
	findings := loadFindings(rt)
	sort.Slice(total.Violations, func(i, j int) bool { return total.Violations[i].Sig < total.Violations[j].Sig })
	newV := 0
	var lines []string
	knownSeen := map[string]bool{}
	for _, v := range total.Violations {
		if f := matchFinding(findings, ch.ID, v.Sig); f != nil {
			if !knownSeen[f.Sig] {
				knownSeen[f.Sig] = true
				lines = append(lines, fmt.Sprintf("KNOWN-FINDING: property=%s %s [sig=%s]", ch.ID, f.What, f.Sig))
			}
			continue
		}
		newV++
		h := sha256.Sum256([]byte(v.Sig))
		p := filepath.Join(rt, "replays", fmt.Sprintf("%s-%s.json", ch.ID, hex.EncodeToString(h[:6])))
		os.MkdirAll(filepath.Dir(p), 0755)
		rep, _ := json.MarshalIndent(map[string]interface{}{"property": ch.ID, "sig": v.Sig, "desc": v.Desc, "count": v.Count, "case": v.Case}, "", " ")
		os.WriteFile(p, rep, 0644)
		lines = append(lines, fmt.Sprintf("VIOLATION property=%s replay=%s", ch.ID, p))
		lines = append(lines, fmt.Sprintf("  what: %s (x%d) sig=%s", v.Desc, v.Count, v.Sig))
	}
	if writeEvidence {
		writeEvidenceFile(rt, ch, tier, total, wall, newV, len(knownSeen))
	}
	for _, l := range lines {
		fmt.Println(l)
	}
	for _, e := range uniq(total.InfraErrors) {
		fmt.Fprintln(os.Stderr, "infra:", e)
	}
	fmt.Printf("%s %s: evaluations=%d states=%d transitions=%d classes=%d exhaustive=%v violations=%d known=%d wall=%.1fs\n",
		ch.ID, tier, total.Evaluations, total.States, total.Transitions, len(total.Classes), total.Exhaustive, newV, len(knownSeen), wall)
	if newV > 0 {
		os.Exit(1)
	}
	if total.Evaluations == 0 && total.States == 0 {
		fmt.Fprintln(os.Stderr, "INFRASTRUCTURE ERROR: nothing was explored")
		os.Exit(2)
	}
	os.Exit(0)
}

func writeEvidenceFile(rt string, ch *Check, tier string, total Result, wall float64, newV, known int) {
	cov := map[string]interface{}{
		"evaluations":         total.Evaluations,
		"distinct_nontrivial": int64(len(total.Classes)),
		"rule":                ch.Rule,
		"samples":             total.Samples,
		"exhaustive":          total.Exhaustive,
		"notes":               total.Notes,
	}
	if len(total.Samples) == 0 {
		cov["samples"] = []interface{}{"(no sample recorded)"}
	}
	if ch.Level == "model_checking" {
		cov["states"] = total.States
		cov["transitions"] = total.Transitions
		cov["traces_validated_against_impl"] = total.Traces
	}
	for k, v := range total.Extra {
		cov[k] = v
	}
	// the largest observation classes, to expose vacuity
	type kv struct {
		K string
		V int64
	}
	var cl []kv
	for k, v := range total.Classes {
		cl = append(cl, kv{k, v})
	}
	sort.Slice(cl, func(i, j int) bool { return cl[i].V > cl[j].V || (cl[i].V == cl[j].V && cl[i].K < cl[j].K) })
	top := map[string]int64{}
	for i, e := range cl {
		if i >= 25 {
			break
		}
		top[e.K] = e.V
	}
	cov["observation_classes_top"] = top
	cov["known_findings_matched"] = known
	ev := map[string]interface{}{
		"property_id": ch.ID,
		"tier":        tier,
		"seed":        seed(),
		"level":       ch.Level,
		"coverage":    cov,
		"assumptions": ch.Assumptions,
		"wall_s":      wall,
		"violations":  newV,
	}
	b, _ := json.MarshalIndent(ev, "", " ")
	os.MkdirAll(filepath.Join(rt, "evidence"), 0755)
	tmp := filepath.Join(rt, "evidence", "."+ch.ID+".json.tmp")
	os.WriteFile(tmp, b, 0644)
	os.Rename(tmp, filepath.Join(rt, "evidence", ch.ID+".json"))
}

func replay(path string) {
	b, err := os.ReadFile(path)
	if err != nil {
		fmt.Fprintln(os.Stderr, err)
		os.Exit(2)
	}
	var rep struct {
		Property string          `json:"property"`
		Case     json.RawMessage `json:"case"`
	}
	if err := json.Unmarshal(b, &rep); err != nil {
		fmt.Fprintln(os.Stderr, err)
		os.Exit(2)
	}
	ch := registry[rep.Property]
	if ch == nil || ch.Replay == nil {
		fmt.Fprintln(os.Stderr, "no replay for", rep.Property)
		os.Exit(2)
	}
	sc, _ := os.MkdirTemp("", "vreplay-")
	c := &Ctx{ID: rep.Property, Tier: "quick", NShards: 1, Seed: seed(), Scratch: sc}
	c.res.Exhaustive = true
	limitMemory() // a case recorded after a fatal runtime error dies here again ("fatal error: out of memory"), bounded
	ch.Replay(c, rep.Case)
	os.RemoveAll(sc)
	finish(ch, "replay", c.finish(), 0, false)
}
