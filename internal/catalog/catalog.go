// Package catalog gives reflective access to every constructor found in /repo at check time.
package catalog

import (
	"fmt"
	"reflect"

	"github.com/brutella/hc/accessory"
	"github.com/brutella/hc/characteristic"
	"github.com/brutella/hc/service"
)

// Ctor is one constructor of the library.
type Ctor struct {
	Name string
	File string
	New  func() interface{}
}

// Build calls the constructor; a panic is returned as an error.
func (c Ctor) Build() (v interface{}, err error) {
	defer func() {
		if p := recover(); p != nil {
			err = fmt.Errorf("constructor panics: %v", p)
		}
	}()
	v = c.New()
	if v == nil || (reflect.ValueOf(v).Kind() == reflect.Ptr && reflect.ValueOf(v).IsNil()) {
		return nil, fmt.Errorf("constructor returns nil")
	}
	return v, nil
}

func embedded(v reflect.Value, want reflect.Type, depth int) reflect.Value {
	if depth > 6 || !v.IsValid() {
		return reflect.Value{}
	}
	if v.Type() == want {
		return v
	}
	if v.Kind() == reflect.Ptr {
		if v.IsNil() {
			return reflect.Value{}
		}
		return embedded(v.Elem(), want, depth+1)
	}
	if v.Kind() != reflect.Struct {
		return reflect.Value{}
	}
	for i := 0; i < v.NumField(); i++ {
		f := v.Type().Field(i)
		if !f.Anonymous {
			continue
		}
		if r := embedded(v.Field(i), want, depth+1); r.IsValid() {
			return r
		}
	}
	return reflect.Value{}
}

// Char returns the embedded *characteristic.Characteristic of a constructed object (nil if none).
func Char(v interface{}) *characteristic.Characteristic {
	r := embedded(reflect.ValueOf(v), reflect.TypeOf(&characteristic.Characteristic{}), 0)
	if !r.IsValid() || r.IsNil() {
		return nil
	}
	return r.Interface().(*characteristic.Characteristic)
}

// Svc returns the embedded *service.Service.
func Svc(v interface{}) *service.Service {
	r := embedded(reflect.ValueOf(v), reflect.TypeOf(&service.Service{}), 0)
	if !r.IsValid() || r.IsNil() {
		return nil
	}
	return r.Interface().(*service.Service)
}

// Acc returns the embedded *accessory.Accessory.
func Acc(v interface{}) *accessory.Accessory {
	r := embedded(reflect.ValueOf(v), reflect.TypeOf(&accessory.Accessory{}), 0)
	if !r.IsValid() || r.IsNil() {
		return nil
	}
	return r.Interface().(*accessory.Accessory)
}

// TypedGet calls the typed GetValue() method of a constructed characteristic wrapper; a panic is an error.
func TypedGet(v interface{}) (res interface{}, err error) {
	defer func() {
		if p := recover(); p != nil {
			err = fmt.Errorf("typed getter panics: %v", p)
		}
	}()
	m := reflect.ValueOf(v).MethodByName("GetValue")
	if !m.IsValid() {
		return nil, fmt.Errorf("no GetValue method")
	}
	out := m.Call(nil)
	if len(out) != 1 {
		return nil, fmt.Errorf("GetValue returns %d values", len(out))
	}
	return out[0].Interface(), nil
}

// TypedSet calls the typed setter SetValue(x) of a characteristic object with v converted to the parameter
// type (int, float64, bool, string, []byte). ok is false when the object has no such setter or v does not fit.
func TypedSet(obj interface{}, v interface{}) (ok bool, err error) {
	defer func() {
		if p := recover(); p != nil {
			err = fmt.Errorf("typed setter panics: %v", p)
		}
	}()
	m := reflect.ValueOf(obj).MethodByName("SetValue")
	if !m.IsValid() || m.Type().NumIn() != 1 {
		return false, nil
	}
	pt := m.Type().In(0)
	rv := reflect.ValueOf(v)
	if !rv.IsValid() || !rv.Type().ConvertibleTo(pt) {
		return false, nil
	}
	if rv.Kind() == reflect.String && pt.Kind() != reflect.String && !(pt.Kind() == reflect.Slice) {
		return false, nil
	}
	if pt.Kind() == reflect.String && rv.Kind() != reflect.String {
		return false, nil
	}
	m.Call([]reflect.Value{rv.Convert(pt)})
	return true, nil
}

// TypedOnRemoteUpdate registers fn through the typed OnValueRemoteUpdate(func(T)) of a characteristic object;
// fn receives the typed argument as an interface value.
func TypedOnRemoteUpdate(obj interface{}, fn func(interface{})) bool {
	m := reflect.ValueOf(obj).MethodByName("OnValueRemoteUpdate")
	if !m.IsValid() || m.Type().NumIn() != 1 || m.Type().In(0).Kind() != reflect.Func || m.Type().In(0).NumIn() != 1 {
		return false
	}
	ft := m.Type().In(0)
	f := reflect.MakeFunc(ft, func(args []reflect.Value) []reflect.Value {
		fn(args[0].Interface())
		return nil
	})
	m.Call([]reflect.Value{f})
	return true
}

// InfoTemplate is the accessory.Info the accessory constructors of the registry are called with. Checks may replace it
// (e.g. by an Info with nothing but a name) and build again.
var InfoTemplate = accessory.Info{Name: "Acc", SerialNumber: "SN", Manufacturer: "M", Model: "Mo", FirmwareRevision: "1.0"}

// Fields lists the exported pointer fields of the struct v points to (the typed handles a constructor returns next
// to the generic object: service.Lightbulb.On, accessory.Switch.Switch, …), in declaration order.
func Fields(v interface{}) (names []string, vals []interface{}) {
	rv := reflect.ValueOf(v)
	for rv.Kind() == reflect.Ptr && !rv.IsNil() {
		rv = rv.Elem()
	}
	if rv.Kind() != reflect.Struct {
		return nil, nil
	}
	for i := 0; i < rv.NumField(); i++ {
		f := rv.Type().Field(i)
		if f.PkgPath != "" || f.Anonymous || rv.Field(i).Kind() != reflect.Ptr || rv.Field(i).IsNil() {
			continue
		}
		names = append(names, f.Name)
		vals = append(vals, rv.Field(i).Interface())
	}
	return names, vals
}
