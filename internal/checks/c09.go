package checks

import (
	"bytes"
	"encoding/base64"
	"encoding/json"
	"fmt"
	"net"
	"os"
	"path/filepath"
	"reflect"
	"strings"
	"sync"
	"time"

	"github.com/brutella/hc/accessory"
	"github.com/brutella/hc/characteristic"
	"github.com/brutella/hc/service"

	"verif/internal/catalog"
	"verif/internal/fw"
	"verif/internal/refctl"
	"verif/internal/world"
)

// C09 — what the application sets is what a controller reads, and vice versa.

type c09Char struct {
	Name string
	Obj  interface{}
	Ch   *characteristic.Characteristic
	Acc  *accessory.Accessory
}

type c09Sys struct {
	w      *world.World
	dir    string
	chars  []*c09Char
	k      *refctl.Ctl
	wo     *c09Char // a write-only characteristic
	mu     sync.Mutex
	last   map[*characteristic.Characteristic]interface{} // value received by the remote-update callback
	calls  map[*characteristic.Characteristic]int
	tlast  map[*characteristic.Characteristic]interface{} // value received by the TYPED remote-update callback
	tcalls map[*characteristic.Characteristic]int
	typed  map[*characteristic.Characteristic]bool // a typed remote-update callback is registered
}

// c09Typed is the Go value the typed API (SetValue / GetValue / OnValueRemoteUpdate) uses for a value of the alphabet.
func c09Typed(ch *characteristic.Characteristic, v interface{}) interface{} {
	if ch.Format == characteristic.FormatTLV8 || ch.Format == characteristic.FormatData {
		if str, ok := v.(string); ok {
			b, _ := base64.StdEncoding.DecodeString(str)
			if b == nil {
				b = []byte{}
			}
			return b
		}
	}
	return v
}

// c09AppSet sets a value the way an application does: through the typed setter of the constructor's type when
// typed is true and there is one, else through UpdateValue.
func c09AppSet(cc *c09Char, v interface{}, typed bool) (usedTyped bool, err error) {
	if typed {
		if ok, err := catalog.TypedSet(cc.Obj, c09Typed(cc.Ch, v)); ok || err != nil {
			return true, err
		}
	}
	cc.Ch.UpdateValue(v)
	return false, nil
}

func (s *c09Sys) Close() {
	if s.k != nil {
		s.k.Close()
	}
	s.w.Stop()
	os.RemoveAll(s.dir)
}

// c09Build assembles accessories from every characteristic constructor (25 per accessory) plus `extra`
// additional switch accessories, starts the real transport and verifies L.
// c09Scheme "high": the application chooses the accessory ids (as it does when it derives them from serial numbers):
// 2, 2^32+2, 3, 2^32+3, 2^40+2, … — ids that differ only above bit 31 / bit 39 next to each other.
var c09Scheme string

func c09AccID(i int) uint64 {
	if c09Scheme != "high" {
		return 0 // assigned by the container
	}
	switch i % 4 {
	case 1:
		return 1<<32 + uint64(i/4+2)
	case 2:
		return 1<<40 + uint64(i/4+2)
	case 3:
		return 1<<63 + uint64(i/4+2)
	}
	return uint64(i/4 + 2)
}

func c09Build(c *fw.Ctx, extra int) (*c09Sys, error) {
	s := &c09Sys{last: map[*characteristic.Characteristic]interface{}{}, calls: map[*characteristic.Characteristic]int{}, tlast: map[*characteristic.Characteristic]interface{}{}, tcalls: map[*characteristic.Characteristic]int{}, typed: map[*characteristic.Characteristic]bool{}}
	s.dir = filepath.Join(c.Scratch, fmt.Sprintf("c09-%d", time.Now().UnixNano()))
	bridge := accessory.NewBridge(accessory.Info{Name: "C09Bridge"})
	var accs []*accessory.Accessory
	var cur *accessory.Accessory
	var svc *service.Service
	n := 0
	for _, ct := range catalog.CharacteristicCtors {
		v, err := ct.Build()
		if err != nil || catalog.Char(v) == nil {
			continue
		}
		if n%25 == 0 {
			cur = accessory.New(accessory.Info{Name: fmt.Sprintf("Chars%d", n/25), ID: c09AccID(n / 25)}, accessory.TypeOther)
			svc = service.New(fmt.Sprintf("F%03d", n/25))
			cur.AddService(svc)
			accs = append(accs, cur)
		}
		n++
		ch := catalog.Char(v)
		svc.AddCharacteristic(ch)
		cc := &c09Char{Name: ct.Name, Obj: v, Ch: ch, Acc: cur}
		s.chars = append(s.chars, cc)
		if !ch.IsReadable() && ch.IsWritable() && s.wo == nil {
			s.wo = cc
		}
	}
	for i := 0; i < extra; i++ {
		accs = append(accs, accessory.NewSwitch(accessory.Info{Name: fmt.Sprintf("Extra%d", i)}).Accessory)
	}
	database, err := dbOpen(s.dir)
	if err != nil {
		return nil, err
	}
	database.SaveEntity(dbEntity(idL))
	w, err := world.Start(world.Options{Dir: s.dir}, bridge.Accessory, accs...)
	if err != nil {
		return nil, err
	}
	s.w = w
	for _, cc := range s.chars {
		ch := cc.Ch
		ch.OnValueUpdateFromConn(func(conn net.Conn, c *characteristic.Characteristic, nv, ov interface{}) {
			s.mu.Lock()
			s.last[ch] = nv
			s.calls[ch]++
			s.mu.Unlock()
		})
		s.typed[ch] = catalog.TypedOnRemoteUpdate(cc.Obj, func(v interface{}) {
			s.mu.Lock()
			s.tlast[ch] = v
			s.tcalls[ch]++
			s.mu.Unlock()
		})
	}
	k, err := refctl.Dial(w.Addr)
	if err != nil {
		s.Close()
		return nil, err
	}
	k.Timeout = 20 * time.Second
	s.k = k
	if _, ec, err := refctl.PairVerify(k, idL, refctl.Seed32("c09"), nil); err != nil || ec != 0 {
		s.Close()
		return nil, fmt.Errorf("verify: %v %d", err, ec)
	}
	return s, nil
}

type c09Val struct {
	Label string
	V     interface{} // Go value handed to UpdateValue / expected after JSON decoding (numbers as float64)
}

// c09Values is the boundary alphabet of a characteristic's format inside its bounds.
func c09Values(ch *characteristic.Characteristic) []c09Val {
	var out []c09Val
	add := func(l string, v interface{}) { out = append(out, c09Val{l, v}) }
	switch ch.Format {
	case characteristic.FormatBool:
		add("true", true)
		add("false", false)
		add("true", true)
	case characteristic.FormatFloat:
		mn, hasMin := num(ch.MinValue)
		mx, hasMax := num(ch.MaxValue)
		st, hasSt := num(ch.StepValue)
		if !hasSt || st == 0 {
			st = 0.5
		}
		if hasMin && hasMax {
			for _, v := range []float64{mn, mn + st, (mn + mx) / 2, mx - st, mx} {
				if v >= mn && v <= mx {
					add(fmt.Sprintf("%g", v), v)
				}
			}
		} else {
			for _, v := range []float64{0, 0.5, -3.25, 1e6, 0.1} {
				add(fmt.Sprintf("%g", v), v)
			}
		}
	case characteristic.FormatUInt8, characteristic.FormatUInt16, characteristic.FormatUInt32, characteristic.FormatUInt64, characteristic.FormatInt32:
		mn, hasMin := num(ch.MinValue)
		mx, hasMax := num(ch.MaxValue)
		st, hasSt := num(ch.StepValue)
		if !hasSt || st == 0 {
			st = 1
		}
		if hasMin && hasMax {
			for _, v := range []float64{mn, mn + st, float64(int((mn + mx) / 2)), mx - st, mx} {
				if v >= mn && v <= mx {
					add(fmt.Sprintf("%g", v), int(v))
				}
			}
		} else {
			top := 200
			if ch.Format != characteristic.FormatUInt8 {
				top = 60000
			}
			for _, v := range []int{0, 1, 7, top} {
				add(fmt.Sprint(v), v)
			}
			if ch.Format == characteristic.FormatInt32 {
				add("-5", -5)
				add("-2^31", -2147483648)
				add("2^31-1", 2147483647)
			}
			if ch.Format == characteristic.FormatUInt32 || ch.Format == characteristic.FormatUInt64 {
				// the upper half of the unsigned 32-bit range
				add("2^31", 2147483648)
				add("2^32-1", 4294967295)
			}
			if ch.Format == characteristic.FormatUInt64 {
				add("2^32", 4294967296)
				add("2^53", 9007199254740992)
			}
			if ch.Format == characteristic.FormatUInt16 {
				add("2^15", 32768)
				add("2^16-1", 65535)
			}
		}
	case characteristic.FormatString:
		add("empty", "")
		add("ascii", "Hello World")
		add("quotes", `He said "hi" \ and 'bye' / \n`)
		add("html", `<b>&amp;</b> <script>alert(1)</script>`)
		add("non-bmp", "smile 😀 and 𝄞 clef, ü, 日本")
		add("control", "tab\there\nnewline sep")
		add("format-verbs", "charging 50% of 100%s %d %v %%!(EXTRA)")
		add("protocol", "HTTP/1.0 is not HTTP/1.1, EVENT/1.0 200 OK\r\nContent-Length: 0\r\n\r\nHTTP/1.0")
		add("1KiB", strings.Repeat("0123456789abcdef", 64))
		add("3000", strings.Repeat("xyz", 1000))
	case characteristic.FormatTLV8, characteristic.FormatData:
		for _, n := range []int{0, 1, 300, 5000} {
			add(fmt.Sprintf("base64-%d", n), base64.StdEncoding.EncodeToString(pat(n, byte(n))))
		}
	}
	return out
}

func c09Same(got interface{}, want interface{}) bool {
	switch w := want.(type) {
	case int:
		g, ok := got.(float64)
		return ok && g == float64(w)
	case float64:
		g, ok := got.(float64)
		return ok && g == w
	default:
		return reflect.DeepEqual(got, want)
	}
}

type c09Entry struct {
	Aid    uint64      `json:"aid"`
	Iid    uint64      `json:"iid"`
	Value  interface{} `json:"value"`
	Status *int        `json:"status"`
	hasVal bool
}

func c09ParseEntries(body []byte) ([]c09Entry, error) {
	var raw struct {
		Characteristics []map[string]json.RawMessage `json:"characteristics"`
	}
	if err := json.Unmarshal(body, &raw); err != nil {
		return nil, err
	}
	var out []c09Entry
	for _, m := range raw.Characteristics {
		var e c09Entry
		if err := json.Unmarshal(m["aid"], &e.Aid); err != nil {
			return nil, fmt.Errorf("entry without aid")
		}
		if err := json.Unmarshal(m["iid"], &e.Iid); err != nil {
			return nil, fmt.Errorf("entry without iid")
		}
		if v, ok := m["value"]; ok {
			e.hasVal = true
			json.Unmarshal(v, &e.Value)
		}
		if st, ok := m["status"]; ok {
			var n int
			if err := json.Unmarshal(st, &n); err != nil {
				return nil, fmt.Errorf("status not an integer")
			}
			e.Status = &n
		}
		out = append(out, e)
	}
	return out, nil
}

type c09Case struct {
	Kind   string `json:"kind"`
	Ctor   string `json:"ctor,omitempty"`
	Value  string `json:"value,omitempty"`
	IDs    string `json:"ids,omitempty"`
	Len    int    `json:"len,omitempty"`
	N      int    `json:"n,omitempty"`
	Scheme string `json:"scheme,omitempty"`
}

// getIDs issues GET /characteristics for a list of (aid,iid) and validates shape: each id once, in order,
// value or non-zero status, multi-status ⇒ every entry has a status.
func c09Get(c *fw.Ctx, s *c09Sys, ids [][2]uint64, cas c09Case, shape string) ([]c09Entry, bool) {
	var parts []string
	for _, id := range ids {
		parts = append(parts, fmt.Sprintf("%d.%d", id[0], id[1]))
	}
	m, _, err := s.k.Do("GET", "/characteristics?id="+strings.Join(parts, ","), "", nil)
	if err != nil {
		c.Report("get-failed/"+shape, "GET /characteristics fails: "+err.Error(), cas)
		return nil, false
	}
	if m.Status != 200 && m.Status != 207 {
		c.Report(fmt.Sprintf("get-status-%d/%s", m.Status, shape), fmt.Sprintf("GET /characteristics?id=%s answered with status %d", strings.Join(parts, ","), m.Status), cas)
		return nil, false
	}
	es, err := c09ParseEntries(m.Body)
	if err != nil {
		c.Report("get-malformed/"+shape, "response body is not the HAP characteristics JSON: "+err.Error(), cas)
		return nil, false
	}
	if len(es) != len(ids) {
		c.Report("get-entry-count/"+shape, fmt.Sprintf("%d ids requested, %d entries answered", len(ids), len(es)), cas)
		return nil, false
	}
	for i, e := range es {
		if e.Aid != ids[i][0] || e.Iid != ids[i][1] {
			c.Report("get-order/"+shape, fmt.Sprintf("entry %d answers %d.%d, requested %d.%d", i, e.Aid, e.Iid, ids[i][0], ids[i][1]), cas)
			return nil, false
		}
		if !e.hasVal && (e.Status == nil || *e.Status == 0) {
			c.Report("get-entry-without-value-or-status/"+shape, fmt.Sprintf("entry %d (%d.%d) carries neither a value nor an error status", i, e.Aid, e.Iid), cas)
			return nil, false
		}
		if m.Status == 207 && e.Status == nil {
			c.Report("multi-status-entry-without-status/"+shape, fmt.Sprintf("multi-status answer: entry %d (%d.%d) has no status", i, e.Aid, e.Iid), cas)
			return nil, false
		}
	}
	return es, true
}

// (E) overlapping responses: controller A stops reading in the middle of a response that exceeds all socket
// buffers (so the server is blocked inside A's response), controller B performs a complete request, then A reads on.
// Flow control forces the interleaving; each controller must receive exactly the value it asked for.
func c09Overlap(c *fw.Ctx) {
	s, err := c09Build(c, 0)
	if err != nil {
		c.Infra("build: " + err.Error())
		return
	}
	defer s.Close()
	var strs []*c09Char
	for _, cc := range s.chars {
		if cc.Ch.Format == characteristic.FormatString && cc.Ch.IsReadable() {
			strs = append(strs, cc)
		}
	}
	if len(strs) < 2 {
		c.Infra("not enough string characteristics")
		return
	}
	// both controllers use a fixed 64 KiB receive buffer: with the sender's ≤4 MiB send buffer a 12 MiB response
	// cannot be absorbed by the kernel, so the server is blocked inside it while the reader pauses
	var ks [2]*refctl.Ctl
	for i := range ks {
		k, err := refctl.DialRcvBuf(s.w.Addr, 64<<10)
		if err != nil {
			c.Infra(err.Error())
			return
		}
		defer k.Close()
		k.Timeout = 60 * time.Second
		if _, ec, err := refctl.PairVerify(k, idL, refctl.Seed32(fmt.Sprintf("c09-ov%d", i)), nil); err != nil || ec != 0 {
			c.Infra("verify failed")
			return
		}
		ks[i] = k
	}
	ka, kb := ks[0], ks[1]
	for _, sz := range []int{5000, 6000, 12 << 20} {
		for _, order := range []string{"A-blocked-B-complete", "B-blocked-A-complete"} {
			c.Eval(1)
			cas := c09Case{Kind: "overlap", Len: sz, IDs: order}
			va, vb := strings.Repeat("A", sz), strings.Repeat("B", sz)
			strs[0].Ch.UpdateValue(va)
			strs[1].Ch.UpdateValue(vb)
			first, second := ka, kb
			fi, si := 0, 1
			if order == "B-blocked-A-complete" {
				first, second = kb, ka
				fi, si = 1, 0
			}
			// first: send the request, read only the status line, then stop reading
			if err := first.Send(refctl.BuildRequest("GET", fmt.Sprintf("/characteristics?id=%d.%d", strs[fi].Acc.ID, strs[fi].Ch.ID), "", nil)); err != nil {
				c.Infra(err.Error())
				return
			}
			if err := first.PeekResponseStart(); err != nil {
				c.Report("overlap-failed/"+order, "no response start: "+err.Error(), cas)
				return
			}
			// second: a complete request while the first response is unfinished
			es, ok := c09Get(c, &c09Sys{k: second}, [][2]uint64{{strs[si].Acc.ID, strs[si].Ch.ID}}, cas, "overlap-inner")
			want2, want1 := vb, va
			if si == 0 {
				want2, want1 = va, vb
			}
			if ok && !c09Same(es[0].Value, want2) {
				c.Report("overlap-differs/inner/"+order, "the controller served during another controller's response received a wrong value", cas)
			}
			m, _, err := first.Await()
			if err != nil || m.Status != 200 {
				c.Report("overlap-failed/outer/"+order, fmt.Sprintf("the interrupted response does not complete: %v", err), cas)
				return
			}
			es1, perr := c09ParseEntries(m.Body)
			if perr != nil || len(es1) != 1 || !c09Same(es1[0].Value, want1) {
				n := 0
				if perr == nil && len(es1) == 1 {
					if str, ok := es1[0].Value.(string); ok {
						n = commonPrefix([]byte(str), []byte(want1))
					}
				}
				c.Report("overlap-differs/outer/"+order, fmt.Sprintf("the controller whose %d-byte response was interleaved with another controller's request received a damaged value (first %d bytes correct)", sz, n), cas)
			}
			c.Class(fmt.Sprintf("overlap:%s:%dKiB", order, sz/1024))
		}
	}
	c09EventDuringResponse(c, s, strs)
}

// (F) values supplied at read time through OnValueGet, and several writes in ONE request.
// c09EventDuringResponse: an EVENT for controller A becomes due while the server is inside A's own long response: B
// writes a characteristic A is subscribed to while A has stopped reading its 12 MiB answer. A's response must arrive
// intact — an EVENT is a message of its own, it cannot sit between the chunks of another message — followed by exactly
// one EVENT with the value. Own connections: a failure leaves them out of step.
func c09EventDuringResponse(c *fw.Ctx, s *c09Sys, strs []*c09Char) {
	var ks [2]*refctl.Ctl
	for i := range ks {
		k, err := refctl.DialRcvBuf(s.w.Addr, 64<<10)
		if err != nil {
			c.Infra(err.Error())
			return
		}
		defer k.Close()
		k.Timeout = 60 * time.Second
		if _, ec, err := refctl.PairVerify(k, idL, refctl.Seed32(fmt.Sprintf("c09-ev%d", i)), nil); err != nil || ec != 0 {
			c.Infra("verify failed")
			return
		}
		ks[i] = k
	}
	ka, kb := ks[0], ks[1]
	const sig = "event-inside-response"
	for _, cc := range s.chars {
		ch := cc.Ch
		if ch.Format != characteristic.FormatBool || !ch.IsWritable() || !ch.IsReadable() || !ch.IsObservable() {
			continue
		}
		c.Eval(1)
		cas := c09Case{Kind: "overlap", Len: 12 << 20, IDs: "A-blocked-B-writes-what-A-subscribed-to"}
		id := fmt.Sprintf(`"aid":%d,"iid":%d`, cc.Acc.ID, ch.ID)
		if m, _, err := ka.Do("PUT", "/characteristics", refctl.CTJSON, []byte(`{"characteristics":[{`+id+`,"ev":true}]}`)); err != nil || m.Status/100 != 2 {
			c.Infra(fmt.Sprintf("subscribe: %v %v", m, err))
			break
		}
		va := strings.Repeat("A", 12<<20)
		strs[0].Ch.UpdateValue(va)
		nv := ch.Value != true
		if err := ka.Send(refctl.BuildRequest("GET", fmt.Sprintf("/characteristics?id=%d.%d", strs[0].Acc.ID, strs[0].Ch.ID), "", nil)); err != nil {
			c.Infra(err.Error())
			break
		}
		if err := ka.PeekResponseStart(); err != nil {
			c.Report(sig, "no response start: "+err.Error(), cas)
			break
		}
		if err := kb.Send(refctl.BuildRequest("PUT", "/characteristics", refctl.CTJSON, []byte(fmt.Sprintf(`{"characteristics":[{%s,"value":%v}]}`, id, nv)))); err != nil {
			c.Infra(err.Error())
			break
		}
		time.Sleep(150 * time.Millisecond) // B's handler is now delivering the EVENT to A (it waits for A's response to finish)
		m, evs, err := ka.Await()
		if err != nil && strings.Contains(err.Error(), "does not authenticate") {
			// not a message inside a message but frames out of order: the writers were not even serialised
			c.Report("frames-undecryptable-when-event-meets-response", "while the server was inside a long response an EVENT for the same connection became due; after that the frames no longer decrypt in the order they arrive: "+err.Error(), cas)
			break
		}
		if err != nil || m.Status != 200 {
			c.Report(sig, fmt.Sprintf("a response during which an EVENT for the same connection became due does not complete — the EVENT message was written between two pieces of the response: %v", err), cas)
			break
		}
		if es, perr := c09ParseEntries(m.Body); perr != nil || len(es) != 1 || !c09Same(es[0].Value, va) {
			c.Report(sig, "the response during which an EVENT for the same connection became due arrived damaged", cas)
			break
		}
		if mb, _, err := kb.Await(); err != nil || mb.Status/100 != 2 {
			c.Report("overlap-failed/event/writer", fmt.Sprintf("the write that caused the EVENT is not answered: %v %v", mb, err), cas)
			break
		}
		_, evs2, err := ka.Do("GET", fmt.Sprintf("/characteristics?id=%d.%d", cc.Acc.ID, ch.ID), "", nil)
		if err != nil {
			c.Report(sig, "the connection is unusable after the response and the EVENT: "+err.Error(), cas)
			break
		}
		evs = append(evs, evs2...)
		if len(evs) != 1 || !bytes.Contains(evs[0].Body, []byte(fmt.Sprintf(`"value":%v`, nv))) {
			c.Report(sig, fmt.Sprintf("%d EVENT messages arrived for one change made while the subscriber's own response was being written", len(evs)), cas)
		}
		ka.Do("PUT", "/characteristics", refctl.CTJSON, []byte(`{"characteristics":[{`+id+`,"ev":false}]}`))
		c.Class("overlap:event-during-own-response")
		break
	}
}

func c09GettersAndBatches(c *fw.Ctx) {
	s, err := c09Build(c, 0)
	if err != nil {
		c.Infra("build: " + err.Error())
		return
	}
	defer s.Close()
	// getters: the value the application returns from its read callback is what the controller reads
	for _, cc := range s.chars {
		ch := cc.Ch
		if !ch.IsReadable() {
			continue
		}
		vals := c09Values(ch)
		for vi, v := range vals {
			c.Eval(1)
			v := v
			ch.OnValueGet(func() interface{} { return v.V })
			cas := c09Case{Kind: "getter", Ctor: cc.Name, Value: v.Label}
			es, ok := c09Get(c, s, [][2]uint64{{cc.Acc.ID, ch.ID}}, cas, "getter")
			if ok && !c09Same(es[0].Value, v.V) {
				c.Report("getter-value-differs/"+ch.Format+"/"+permKey(ch), fmt.Sprintf("%s: the application's read callback returned %v, the controller read %v", cc.Name, string(trunc([]byte(fmt.Sprint(v.V)), 40)), string(trunc([]byte(fmt.Sprint(es[0].Value)), 40))), cas)
				break
			}
			if vi == len(vals)-1 {
				c.Class("getter:" + ch.Format + permKey(ch))
			}
		}
		ch.OnValueGet(nil)
	}
	// batches: k writable characteristics written with k different values in one PUT
	var wr []*c09Char
	for _, cc := range s.chars {
		if cc.Ch.IsWritable() && cc.Ch.IsReadable() && len(c09Values(cc.Ch)) >= 2 {
			wr = append(wr, cc)
		}
	}
	// every PUT list of length ≤3 (thorough ≤4) over: two writable characteristics of one accessory, one of another
	// accessory, an unknown accessory, an unknown instance id — an existing characteristic at most once per list. Every
	// existing target gets exactly the value written to IT, whatever surrounds its entry.
	{
		byAcc := map[uint64][]*c09Char{}
		for _, cc := range wr {
			if cc.Ch.Format == characteristic.FormatBool || cc.Ch.Format == characteristic.FormatUInt8 || cc.Ch.Format == characteristic.FormatInt32 || cc.Ch.Format == characteristic.FormatString {
				byAcc[cc.Acc.ID] = append(byAcc[cc.Acc.ID], cc)
			}
		}
		var a1, a2, b1 *c09Char
		for _, cc := range wr {
			l := byAcc[cc.Acc.ID]
			if a1 == nil && len(l) >= 2 {
				a1, a2 = l[0], l[1]
			} else if a1 != nil && b1 == nil && cc.Acc.ID != a1.Acc.ID && len(l) >= 1 {
				b1 = l[0]
			}
		}
		if a1 != nil && b1 != nil {
			syms := map[string]*c09Char{"a1": a1, "a2": a2, "b1": b1, "ne": nil, "ne-iid": nil}
			order := []string{"a1", "a2", "b1", "ne", "ne-iid"}
			depth := 3
			if c.Thorough() {
				depth = 4
			}
			round := 0
			var rec func(h []string)
			rec = func(h []string) {
				if len(h) > 0 {
					round++
					c.Eval(1)
					cas := c09Case{Kind: "batch", IDs: "put[" + strings.Join(h, ",") + "]"}
					var parts []string
					want := map[*c09Char]interface{}{}
					for i, x := range h {
						cc := syms[x]
						switch {
						case x == "ne":
							parts = append(parts, `{"aid":999,"iid":999,"value":1}`)
						case x == "ne-iid":
							parts = append(parts, fmt.Sprintf(`{"aid":%d,"iid":9999,"value":1}`, a1.Acc.ID))
						default:
							vals := c09Values(cc.Ch)
							v := vals[(round+i)%len(vals)]
							if reflect.DeepEqual(cc.Ch.Value, v.V) {
								v = vals[(round+i+1)%len(vals)]
							}
							jv, _ := json.Marshal(v.V)
							parts = append(parts, fmt.Sprintf(`{"aid":%d,"iid":%d,"value":%s}`, cc.Acc.ID, cc.Ch.ID, jv))
							want[cc] = v.V
						}
					}
					m, _, err := s.k.Do("PUT", "/characteristics", refctl.CTJSON, []byte(`{"characteristics":[`+strings.Join(parts, ",")+`]}`))
					if err != nil || (m.Status/100 != 2) {
						c.Report("put-list-failed", fmt.Sprintf("PUT %s fails: %v %v", cas.IDs, m, err), cas)
					} else {
						for cc, v := range want {
							if !reflect.DeepEqual(cc.Ch.Value, v) {
								c.Report("put-list-write-differs", fmt.Sprintf("PUT %s: %s was written %v but the application sees %v", cas.IDs, cc.Name, string(trunc([]byte(fmt.Sprint(v)), 40)), string(trunc([]byte(fmt.Sprint(cc.Ch.Value)), 40))), cas)
								break
							}
						}
					}
					c.Class(fmt.Sprintf("put-list:%d", len(h)))
				}
				if len(h) == depth {
					return
				}
				for _, x := range order {
					dup := false
					for _, y := range h {
						dup = dup || (y == x && syms[x] != nil)
					}
					if !dup {
						rec(append(append([]string{}, h...), x))
					}
				}
			}
			rec(nil)
		}
	}
	for _, k := range []int{2, 3, 5, 16, len(wr)} {
		for start := 0; start+k <= len(wr) && start < 24; start += 3 {
			c.Eval(1)
			cas := c09Case{Kind: "batch", N: k, Len: start}
			var parts []string
			want := map[*c09Char]interface{}{}
			for i := 0; i < k; i++ {
				cc := wr[start+i]
				vals := c09Values(cc.Ch)
				v := vals[(i+start)%len(vals)]
				for d := 1; d < len(vals) && reflect.DeepEqual(cc.Ch.Value, v.V); d++ { // a write that changes the value (the alphabet holds one value in several spellings)
					v = vals[(i+start+d)%len(vals)]
				}
				jv, _ := json.Marshal(v.V)
				parts = append(parts, fmt.Sprintf(`{"aid":%d,"iid":%d,"value":%s}`, cc.Acc.ID, cc.Ch.ID, jv))
				want[cc] = v.V
			}
			m, _, err := s.k.Do("PUT", "/characteristics", refctl.CTJSON, []byte(`{"characteristics":[`+strings.Join(parts, ",")+`]}`))
			if err != nil || m.Status/100 != 2 {
				c.Report("batch-put-failed", fmt.Sprintf("PUT with %d entries fails: %v %v", k, m, err), cas)
				return
			}
			for cc, v := range want {
				got := cc.Ch.Value
				if !reflect.DeepEqual(got, v) {
					c.Report("batch-write-differs/"+cc.Ch.Format, fmt.Sprintf("PUT with %d entries: %s was written %v but the application sees %v", k, cc.Name, string(trunc([]byte(fmt.Sprint(v)), 40)), string(trunc([]byte(fmt.Sprint(got)), 40))), cas)
					break
				}
				s.mu.Lock()
				last := s.last[cc.Ch]
				s.mu.Unlock()
				if !reflect.DeepEqual(last, v) {
					c.Report("batch-callback-differs/"+cc.Ch.Format, fmt.Sprintf("PUT with %d entries: the remote-update callback of %s received %v instead of %v", k, cc.Name, string(trunc([]byte(fmt.Sprint(last)), 40)), string(trunc([]byte(fmt.Sprint(v)), 40))), cas)
					break
				}
			}
			c.Class(fmt.Sprintf("batch:%d", k))
		}
	}
	// a request after a request: an entry that carries no value (a subscription) at the position at which the previous
	// request carried one writes nothing — neither to its own characteristic nor to the one written before
	for i := 0; i+1 < len(wr) && i < 40; i += 2 {
		a, b := wr[i], wr[i+1]
		va, vb := c09Values(a.Ch), c09Values(b.Ch)
		if len(va) < 2 || len(vb) < 2 || !a.Ch.IsReadable() || !b.Ch.IsReadable() {
			continue
		}
		c.Eval(1)
		cas := c09Case{Kind: "batch", N: 1, Len: i, Value: "value-then-ev-only"}
		w := va[0]
		if reflect.DeepEqual(a.Ch.Value, w.V) {
			w = va[1]
		}
		jv, _ := json.Marshal(w.V)
		if m, _, err := s.k.Do("PUT", "/characteristics", refctl.CTJSON, []byte(fmt.Sprintf(`{"characteristics":[{"aid":%d,"iid":%d,"value":%s}]}`, a.Acc.ID, a.Ch.ID, jv))); err != nil || m.Status/100 != 2 {
			c.Report("put-failed", fmt.Sprintf("PUT fails: %v %v", m, err), cas)
			continue
		}
		keepA, keepB := a.Ch.Value, b.Ch.Value
		s.mu.Lock()
		callsB := s.calls[b.Ch]
		s.mu.Unlock()
		for _, body := range []string{
			fmt.Sprintf(`{"characteristics":[{"aid":%d,"iid":%d,"ev":true}]}`, b.Acc.ID, b.Ch.ID),
			fmt.Sprintf(`{"characteristics":[{"aid":%d,"iid":%d,"ev":false}]}`, b.Acc.ID, b.Ch.ID),
			fmt.Sprintf(`{"characteristics":[{"aid":%d,"iid":%d}]}`, b.Acc.ID, b.Ch.ID),
		} {
			if _, _, err := s.k.Do("PUT", "/characteristics", refctl.CTJSON, []byte(body)); err != nil {
				c.Report("put-failed", fmt.Sprintf("PUT %s fails: %v", body, err), cas)
				break
			}
			s.mu.Lock()
			nb := s.calls[b.Ch]
			s.mu.Unlock()
			if !reflect.DeepEqual(b.Ch.Value, keepB) || nb != callsB {
				c.Report("entry-without-value-wrote/"+b.Ch.Format, fmt.Sprintf("after a PUT that wrote %s, the request %s (no value in it) changed %s from %v to %v (remote-update callbacks: %d)", a.Name, body, b.Name, string(trunc([]byte(fmt.Sprint(keepB)), 30)), string(trunc([]byte(fmt.Sprint(b.Ch.Value)), 30)), nb-callsB), cas)
				break
			}
			if !reflect.DeepEqual(a.Ch.Value, keepA) {
				c.Report("entry-without-value-wrote-elsewhere/"+a.Ch.Format, fmt.Sprintf("the request %s changed %s", body, a.Name), cas)
				break
			}
		}
		c.Class("value-then-ev-only:" + b.Ch.Format)
	}
	// corrections: the application answers a controller's write from inside its remote-update callback by setting
	// another value (e.g. the nearest one the hardware supports). What the application set last is what counts: the
	// getter, a following read and /accessories show the corrected value.
	for _, cc := range s.chars {
		ch := cc.Ch
		vals := c09Values(ch)
		if !ch.IsWritable() || !ch.IsReadable() || len(vals) < 2 {
			continue
		}
		c.Eval(1)
		written, corrected := vals[1], vals[0]
		if reflect.DeepEqual(ch.Value, written.V) {
			ch.UpdateValue(corrected.V)
		}
		cas := c09Case{Kind: "getter", Ctor: cc.Name, Value: "corrected:" + written.Label + "→" + corrected.Label}
		active := true
		ch.OnValueUpdateFromConn(func(_ net.Conn, _ *characteristic.Characteristic, nv, _ interface{}) {
			if active && reflect.DeepEqual(nv, written.V) {
				ch.UpdateValue(corrected.V)
			}
		})
		jv, _ := json.Marshal(written.V)
		m, _, err := s.k.Do("PUT", "/characteristics", refctl.CTJSON, []byte(fmt.Sprintf(`{"characteristics":[{"aid":%d,"iid":%d,"value":%s}]}`, cc.Acc.ID, ch.ID, jv)))
		active = false
		if err != nil || m.Status/100 != 2 {
			c.Report("corrected-write-failed/"+ch.Format, fmt.Sprintf("%s: PUT fails: %v %v", cc.Name, m, err), cas)
			continue
		}
		if !reflect.DeepEqual(ch.Value, corrected.V) {
			c.Report("correction-lost/"+ch.Format, fmt.Sprintf("%s: the application set %v from inside its remote-update callback (the controller had written %v); afterwards the value is %v", cc.Name, string(trunc([]byte(fmt.Sprint(corrected.V)), 30)), string(trunc([]byte(fmt.Sprint(written.V)), 30)), string(trunc([]byte(fmt.Sprint(ch.Value)), 30))), cas)
			continue
		}
		if es, ok := c09Get(c, s, [][2]uint64{{cc.Acc.ID, ch.ID}}, cas, "after-correction"); ok && !c09Same(es[0].Value, corrected.V) {
			c.Report("correction-not-read/"+ch.Format, fmt.Sprintf("%s: the controller reads %v after the application corrected its write to %v", cc.Name, es[0].Value, corrected.V), cas)
		}
		c.Class("correction:" + ch.Format)
	}
}

func c09Run(c *fw.Ctx) {
	{
		interfRun(c, "C09") // statement-level interleavings of operations and handlers on disjoint objects (subprocess)
	}
	switch {
	case c.Shard == 10:
		c09GettersAndBatches(c)
	case c.Shard == 11:
		c09Overlap(c)
	case c.Shard < 10:
		c09Values1(c, c.Shard, 10)
	case c.Shard == 12:
		c09Shapes(c)
	case c.Shard == 13:
		c09Sweep(c, 0)
	case c.Shard == 14:
		c09Sweep(c, 1)
	default:
		c09Databases(c)
	}
}

// (A) per constructor × value: app-set → read three ways; controller-write → getter and callback.
func c09Values1(c *fw.Ctx, part, parts int) {
	c09Scheme = ""
	if part%2 == 1 {
		c09Scheme = "high" // every other part runs on a bridge whose accessory ids were chosen by the application
	}
	defer func() { c09Scheme = "" }()
	s, err := c09Build(c, 0)
	if err != nil {
		c.Infra("build: " + err.Error())
		return
	}
	defer s.Close()
	for ci, cc := range s.chars {
		if ci%parts != part {
			continue
		}
		ch := cc.Ch
		vals := c09Values(ch)
		other := s.chars[(ci+1)%len(s.chars)]
		for vi, v := range vals {
			cas := c09Case{Kind: "value", Ctor: cc.Name, Value: v.Label}
			sig := ch.Format + "/" + v.Label
			if len(v.Label) > 12 && ch.Format != characteristic.FormatString {
				sig = ch.Format + "/boundary"
			}
			if ch.Format != characteristic.FormatString && ch.Format != characteristic.FormatBool && ch.Format != characteristic.FormatTLV8 {
				sig = ch.Format + "/number"
			}
			if ch.IsReadable() {
				c.Eval(1)
				// the application sets the value: through the typed setter of its type and through UpdateValue in turn
				if _, serr := c09AppSet(cc, v.V, vi%2 == 0); serr != nil {
					c.Report("setter-panics/"+sig, cc.Name+": "+serr.Error(), cas)
					continue
				}
				// single id
				es, ok := c09Get(c, s, [][2]uint64{{cc.Acc.ID, ch.ID}}, cas, "single")
				if !ok {
					continue
				}
				if !c09Same(es[0].Value, v.V) {
					c.Report("app-set-read-differs/single/"+sig, fmt.Sprintf("%s: application set %s, controller reads %s", cc.Name, trunc([]byte(fmt.Sprint(v.V)), 60), trunc([]byte(fmt.Sprint(es[0].Value)), 60)), cas)
					continue
				}
				// in a multi-id list
				if other.Ch.IsReadable() && other.Ch.Value != nil {
					es, ok = c09Get(c, s, [][2]uint64{{other.Acc.ID, other.Ch.ID}, {cc.Acc.ID, ch.ID}}, cas, "pair")
					if ok && !c09Same(es[1].Value, v.V) {
						c.Report("app-set-read-differs/list/"+sig, fmt.Sprintf("%s: value differs when read in a list", cc.Name), cas)
					}
				}
				// in /accessories
				m, _, err := s.k.Do("GET", "/accessories", "", nil)
				if err != nil || m.Status != 200 {
					c.Report("accessories-failed/"+sig, fmt.Sprintf("GET /accessories fails after %s := %s: %v", cc.Name, v.Label, err), cas)
					continue
				}
				if got, found := c09FindInDB(m.Body, cc.Acc.ID, ch.ID); !found || !c09Same(got, v.V) {
					c.Report("app-set-read-differs/accessories/"+sig, fmt.Sprintf("%s: value in /accessories differs (found=%v)", cc.Name, found), cas)
				}
				c.Class("read:" + ch.Format)
			}
			if ch.IsWritable() {
				c.Eval(1)
				// the controller writes the NEXT value of the alphabet, so that the write changes what the application set
				v := vals[(vi+1)%len(vals)]
				cas := c09Case{Kind: "value", Ctor: cc.Name, Value: v.Label}
				jv, _ := json.Marshal(v.V)
				if b, ok := v.V.(bool); ok && ci%2 == 1 {
					// controllers also write booleans as the numbers 1 and 0
					jv = []byte("0")
					if b {
						jv = []byte("1")
					}
				}
				s.mu.Lock()
				before, tbefore := s.calls[ch], s.tcalls[ch]
				s.mu.Unlock()
				prev := ch.Value
				// the entry carries the value alone, or — as a controller that writes and registers for events at once —
				// together with "ev", in either member order
				entry := fmt.Sprintf(`{"aid":%d,"iid":%d,"value":%s}`, cc.Acc.ID, ch.ID, jv)
				if ch.IsObservable() {
					switch vi % 4 {
					case 1:
						entry = fmt.Sprintf(`{"aid":%d,"iid":%d,"value":%s,"ev":true}`, cc.Acc.ID, ch.ID, jv)
					case 2:
						entry = fmt.Sprintf(`{"ev":false,"aid":%d,"iid":%d,"value":%s}`, cc.Acc.ID, ch.ID, jv)
					case 3:
						entry = fmt.Sprintf(`{"aid":%d,"ev":true,"value":%s,"iid":%d}`, cc.Acc.ID, jv, ch.ID)
					}
				}
				// members the specification defines for a write and this library does not use are not an error
				switch vi % 5 {
				case 2:
					entry = entry[:len(entry)-1] + `,"remote":false}`
				case 3:
					entry = entry[:len(entry)-1] + `,"authData":"AAEC","r":true}`
				}
				m, _, err := s.k.Do("PUT", "/characteristics", refctl.CTJSON, []byte(`{"characteristics":[`+entry+`]}`))
				if err != nil || m.Status/100 != 2 {
					c.Report("put-failed/"+sig, fmt.Sprintf("%s: PUT of a valid value fails: %v %v", cc.Name, m, err), cas)
					continue
				}
				s.mu.Lock()
				calls, last := s.calls[ch]-before, s.last[ch]
				tcalls, tlast := s.tcalls[ch]-tbefore, s.tlast[ch]
				s.mu.Unlock()
				if ch.IsReadable() {
					got, gerr := catalog.TypedGet(cc.Obj)
					if gerr != nil {
						c.Report("getter-panics/"+sig, cc.Name+": "+gerr.Error(), cas)
						continue
					}
					want := v.V
					if ch.Format == characteristic.FormatTLV8 {
						want, _ = base64.StdEncoding.DecodeString(v.V.(string))
						if len(want.([]byte)) == 0 {
							want = []byte{}
						}
						if g, ok := got.([]byte); ok && len(g) == 0 {
							got = []byte{}
						}
					}
					if !reflect.DeepEqual(got, want) {
						c.Report("controller-write-getter-differs/"+sig, fmt.Sprintf("%s: controller wrote %s, the application's getter returns %v", cc.Name, trunc(jv, 60), trunc([]byte(fmt.Sprint(got)), 60)), cas)
						continue
					}
				}
				if ch.IsReadable() {
					// what the controller wrote is what a controller then reads, by id and in /accessories
					es, ok := c09Get(c, s, [][2]uint64{{cc.Acc.ID, ch.ID}}, cas, "single-after-write")
					if ok && !c09Same(es[0].Value, v.V) {
						c.Report("controller-write-read-differs/single/"+sig, fmt.Sprintf("%s: controller wrote %s, GET /characteristics then returns %v", cc.Name, trunc(jv, 60), trunc([]byte(fmt.Sprint(es[0].Value)), 60)), cas)
						continue
					}
					m, _, err := s.k.Do("GET", "/accessories", "", nil)
					if err != nil || m.Status != 200 {
						c.Report("accessories-failed/"+sig, fmt.Sprintf("GET /accessories fails after a write to %s: %v", cc.Name, err), cas)
						continue
					}
					if got, found := c09FindInDB(m.Body, cc.Acc.ID, ch.ID); !found || !c09Same(got, v.V) {
						c.Report("controller-write-read-differs/accessories/"+sig, fmt.Sprintf("%s: controller wrote %s, /accessories then shows %v", cc.Name, trunc(jv, 60), trunc([]byte(fmt.Sprint(got)), 60)), cas)
						continue
					}
				}
				changed := !reflect.DeepEqual(prev, v.V) || !ch.IsReadable()
				if changed && s.typed[ch] {
					// the typed callback of the constructor's type (func(int), func([]byte), …) receives the same value
					tw := c09Typed(ch, v.V)
					if b, ok := tlast.([]byte); ok && len(b) == 0 {
						tlast = []byte{}
					}
					if tcalls != 1 || !reflect.DeepEqual(tlast, tw) {
						c.Report("typed-remote-callback/"+sig, fmt.Sprintf("%s: a changing controller write of %s invoked the typed remote-update callback %d times with %v", cc.Name, trunc(jv, 40), tcalls, string(trunc([]byte(fmt.Sprint(tlast)), 40))), cas)
						continue
					}
				}
				if changed {
					if calls != 1 || !reflect.DeepEqual(last, v.V) {
						c.Report("remote-callback/"+sig, fmt.Sprintf("%s: a changing controller write of %s invoked the remote-update callback %d times with %v", cc.Name, trunc(jv, 40), calls, string(trunc([]byte(fmt.Sprint(last)), 40))), cas)
						continue
					}
				}
				c.Class("write:" + ch.Format)
			}
		}
	}
	if part == 0 {
		c.Sample(map[string]interface{}{"characteristics": len(s.chars), "example": s.chars[0].Name, "values": len(c09Values(s.chars[0].Ch))})
	}
}

func c09FindInDB(body []byte, aid, iid uint64) (interface{}, bool) {
	var dbj struct {
		Accessories []struct {
			Aid      uint64 `json:"aid"`
			Services []struct {
				Characteristics []struct {
					Iid   uint64      `json:"iid"`
					Value interface{} `json:"value"`
				} `json:"characteristics"`
			} `json:"services"`
		} `json:"accessories"`
	}
	if json.Unmarshal(body, &dbj) != nil {
		return nil, false
	}
	for _, a := range dbj.Accessories {
		if a.Aid != aid {
			continue
		}
		for _, s := range a.Services {
			for _, ch := range s.Characteristics {
				if ch.Iid == iid {
					return ch.Value, true
				}
			}
		}
	}
	return nil, false
}

// (B) id-list shapes.
func c09Shapes(c *fw.Ctx) {
	for _, scheme := range []string{"", "high"} {
		c09Scheme = scheme
		c09Shapes1(c, scheme)
	}
	c09Scheme = ""
}

func c09Shapes1(c *fw.Ctx, scheme string) {
	s, err := c09Build(c, 0)
	if err != nil {
		c.Infra("build: " + err.Error())
		return
	}
	defer s.Close()
	var rd []*c09Char
	for _, cc := range s.chars {
		if cc.Ch.IsReadable() && cc.Ch.Value != nil {
			rd = append(rd, cc)
		}
	}
	e := func(i int) [2]uint64 { return [2]uint64{rd[i].Acc.ID, rd[i].Ch.ID} }
	ne := [2]uint64{999, 999}
	ne2 := [2]uint64{rd[0].Acc.ID, 9999}
	shapes := map[string][][2]uint64{"[50 ids]": nil}
	for i := 0; i < 50; i++ {
		shapes["[50 ids]"] = append(shapes["[50 ids]"], e(i%len(rd)))
	}
	// every list of length ≤3 (thorough ≤4) over: two readable characteristics of one accessory, one of another
	// accessory, a non-existing accessory, a non-existing instance id of an existing accessory, a write-only one
	syms := []string{"a1", "a2", "b1", "ne", "ne-iid"}
	ids := map[string][2]uint64{"a1": e(0), "a2": e(1), "b1": e(30), "ne": ne, "ne-iid": ne2}
	if s.wo != nil {
		syms = append(syms, "wo")
		ids["wo"] = [2]uint64{s.wo.Acc.ID, s.wo.Ch.ID}
	}
	depth := 3
	if c.Thorough() {
		depth = 4
	}
	var rec func(h []string)
	rec = func(h []string) {
		if len(h) > 0 {
			var l [][2]uint64
			for _, x := range h {
				l = append(l, ids[x])
			}
			shapes["["+strings.Join(h, ",")+"]"] = l
		}
		if len(h) == depth {
			return
		}
		for _, x := range syms {
			rec(append(append([]string{}, h...), x))
		}
	}
	rec(nil)
	for name, ids := range shapes {
		c.Eval(1)
		cas := c09Case{Kind: "shape", IDs: name, Scheme: scheme}
		es, ok := c09Get(c, s, ids, cas, "list")
		if !ok {
			continue
		}
		for i, en := range es {
			var hit *c09Char
			for _, cc := range s.chars {
				if cc.Acc.ID == en.Aid && cc.Ch.ID == en.Iid {
					hit = cc
				}
			}
			failed := en.Status != nil && *en.Status != 0
			switch {
			case hit != nil && hit.Ch.IsReadable() && (failed || !en.hasVal || !c09Same(en.Value, normNum(hit.Ch.Value))):
				c.Report("list-entry-readable", fmt.Sprintf("entry %d of %s (scheme %q) names a readable characteristic: it must carry the application's value and no error status, got value present=%v status=%v", i, name, scheme, en.hasVal, c09Status(en.Status)), cas)
			case (hit == nil || !hit.Ch.IsReadable()) && (!failed || en.hasVal):
				c.Report("list-entry-unreadable", fmt.Sprintf("entry %d of %s (scheme %q) names a non-existing or write-only characteristic: it must carry an error status and no value, got value present=%v status=%v", i, name, scheme, en.hasVal, c09Status(en.Status)), cas)
			}
		}
		c.Class(fmt.Sprintf("shape:len=%d", len(ids)))
	}
	c.Sample(map[string]interface{}{"id_lists": len(shapes), "scheme": scheme})
}

func c09Status(p *int) string {
	if p == nil {
		return "absent"
	}
	return fmt.Sprint(*p)
}

func normNum(v interface{}) interface{} {
	if i, ok := v.(int); ok {
		return i
	}
	return v
}

// (C) body-length sweep: one string characteristic padded so that the response body takes every length.
func c09Sweep(c *fw.Ctx, half int) {
	s, err := c09Build(c, 0)
	if err != nil {
		c.Infra("build: " + err.Error())
		return
	}
	defer s.Close()
	var target *c09Char
	for _, cc := range s.chars {
		if cc.Ch.Format == characteristic.FormatString && cc.Ch.IsReadable() {
			target = cc
			break
		}
	}
	max := 4200
	if c.Thorough() {
		max = 9000
	}
	for n := half; n <= max; n += 2 {
		c.Eval(1)
		val := strings.Repeat("s", n)
		if n > 0 {
			val = val[:n-1] + "E"
		}
		target.Ch.UpdateValue(val)
		cas := c09Case{Kind: "sweep", Ctor: target.Name, Len: n}
		es, ok := c09Get(c, s, [][2]uint64{{target.Acc.ID, target.Ch.ID}}, cas, "sweep")
		if !ok {
			continue
		}
		if !c09Same(es[0].Value, val) {
			c.Report(fmt.Sprintf("sweep-differs/len%%2048=%d", (n+60)%2048), fmt.Sprintf("string of length %d does not survive chunking / framing", n), cas)
			continue
		}
		c.Class(fmt.Sprintf("sweep:frames=%d", (n+200)/1024))
	}
	c.Sample(map[string]interface{}{"sweep": target.Name, "max_len": max})
}

// (D) databases of growing size.
func c09Databases(c *fw.Ctx) {
	sizes := []int{0, 1, 9, 49}
	if c.Thorough() {
		sizes = append(sizes, 149)
	}
	for _, n := range sizes {
		c.Eval(1)
		s, err := c09Build(c, n)
		if err != nil {
			c.Infra("build: " + err.Error())
			return
		}
		cas := c09Case{Kind: "database", N: n}
		m, _, err := s.k.Do("GET", "/accessories", "", nil)
		if err != nil || m.Status != 200 {
			c.Report("database-get-failed", fmt.Sprintf("GET /accessories with %d extra accessories fails: %v", n, err), cas)
			s.Close()
			continue
		}
		bad := 0
		for _, cc := range s.chars {
			if !cc.Ch.IsReadable() || cc.Ch.Value == nil {
				continue
			}
			got, found := c09FindInDB(m.Body, cc.Acc.ID, cc.Ch.ID)
			if !found || !c09Same(got, cc.Ch.Value) {
				bad++
			}
		}
		if bad > 0 {
			c.Report("database-values-differ", fmt.Sprintf("%d characteristic values differ in a database with %d extra accessories (%d bytes)", bad, n, len(m.Body)), cas)
		}
		c.Class(fmt.Sprintf("database:%d-accessories:%dKiB", n+8, len(m.Body)/1024))
		s.Close()
	}
}

func init() {
	fw.Register(&fw.Check{
		ID:     "C09",
		Level:  "exploration",
		Rule:   "real transport over TCP with a verified independent controller; accessories assembled from EVERY characteristic constructor found in /repo. (A) every constructor × the boundary alphabet of its format inside its bounds (min, min+step, mid, max−step, max; booleans; strings: empty, ASCII, quotes/backslashes, HTML characters, non-BMP runes, control characters, 1 KiB, 3000 bytes; base64 payloads of 0/1/300/5000 bytes): application-set value read by single id, in an id list and in /accessories; controller-written value compared with the typed getter and the remote-update callback. (B) id-list shapes [e] [ne] [e,ne] [ne,e] [e,e] [e1,e2,e3] [50 ids] [write-only] …: each id answered once, in order, with a value or a non-zero status, multi-status ⇒ every entry has a status. (C) response body length sweep: every string length 0..4200 (quick) / 0..9000 (thorough), walking every residue of the 2048-byte chunker, net/http's 4096-byte writer and the 1024-byte frame. (D) databases of 8, 9, 17, 57 (thorough 157) accessories. (E) overlapping responses of two verified controllers, the interleaving forced by flow control (one stops reading inside a response of 5000 / 6000 bytes / 12 MiB with fixed 64 KiB receive buffers while the other completes a request), both orders. After every controller write the value is read back by id and in /accessories. (F) every readable constructor with an application read callback (OnValueGet) returning each value of its alphabet; PUT requests writing 2, 3, 5, 16 and all writable characteristics with different values at once. distinct_nontrivial = distinct (operation, format / shape / frame count) classes Values are set through the typed setter of the constructor's type and through UpdateValue in turn, and the typed remote-update callback (func(int), func([]byte), …) of every constructor must receive exactly the written value once. Plus, in a subprocess built with a scheduling point before EVERY statement of hc's packages (textual insertion through go build -overlay): every interleaving with at most 1 (thorough 2) preemptions of pairs of operations on disjoint objects — and, where the property is about served requests, of pairs of handlers on two verified connections of one accessory touching different characteristics — each side must observe exactly what it observes when the two run one after the other (module-level mutable state is what makes them differ). Added later: the application corrects a controller's write from inside its remote-update callback (the corrected value is what getter and reads show); booleans are written as true / false and as 1 / 0; PUT entries carry the value alone or together with ev (three member orders) and with the specification's other members (remote, authData, r); every GET id list of length ≤3 (thorough ≤4) over {two readable of one accessory, one of another, unknown accessory, unknown instance id, write-only} with a strict per-entry oracle (value xor error status); every PUT list of length ≤3 (≤4) over known and unknown ids in every position (each existing target gets exactly its value); every other worker and a second pass of the id lists run on a bridge whose accessory ids the application chose (2, 2^32+2, 2^40+2, 2^63+2, 3, …).",
		Shards: func(string) int { return 16 },
		Run:    c09Run,
		Replay: func(c *fw.Ctx, raw json.RawMessage) {
			var cas c09Case
			json.Unmarshal(raw, &cas)
			switch cas.Kind {
			case "shape":
				c09Shapes(c)
			case "sweep":
				c09Sweep(c, cas.Len%2)
			case "database":
				c09Databases(c)
			case "overlap":
				c09Overlap(c)
			case "getter", "batch":
				c09GettersAndBatches(c)
			default:
				c09Values1(c, 0, 2)
				c09Values1(c, 1, 2)
			}
		},
		Budget:      func(string) time.Duration { return 20 * time.Minute },
		Assumptions: []string{"values are compared after JSON decoding (numbers numerically, strings and booleans exactly)", "valid values = inside declared bounds; what happens to invalid values is C12's business"},
	})
}
