package checks

import (
	"bytes"
	"encoding/json"
	"fmt"
	"os"
	"os/signal"
	"path/filepath"
	"sort"
	"strings"
	"syscall"
	"time"

	"github.com/brutella/hc/db"
	"github.com/brutella/hc/util"

	"verif/internal/fw"
	"verif/internal/world"
)

// C18 — storage and pairing database behave like a persistent map.
//
// Explicit-state search: a state is the exact content of the storage directory (nothing else persists, so
// merging states with equal directory content is sound). Every operation of the alphabet is executed in every
// reachable state; a state is re-created by replaying its shortest history through hc's API on a fresh
// directory. Reference model: a Go map.

type c18Op struct {
	Op  string `json:"op"`
	Key string `json:"key,omitempty"`
	Val int    `json:"val,omitempty"` // index into the value table
}

type c18Case struct {
	Layer string  `json:"layer"` // storage | db
	Hist  []c18Op `json:"hist"`
	Dir   string  `json:"dir,omitempty"`   // name of the storage directory when it is a special one
	Fault string  `json:"fault,omitempty"` // write-fault case (c18Faults)
	Vals  string  `json:"vals,omitempty"`  // "shapes": the value table is c18ValShapes
}

// c18DirName is the name of the storage directory of the exploration that is running ("" = an ordinary name). hc names
// the directory after the accessory by default, so any character an accessory name may contain can occur in it.
var c18DirName string

var c18SpecialDirs = []string{"Lamp [Kitchen]", "a*b", "what?", "[a-", "back\\slash", "{x,y}", "per%cent", " lead and trail "}

var c18Vals = [][]byte{[]byte(""), []byte("a"), []byte("abcdef"), bytes.Repeat([]byte("0123456789abcdef"), 256), []byte("abc")}

func c18ValLabel(i int) string {
	l := []string{"empty", "len1", "len6", "len4096", "len3"}
	if i < len(l) && len(c18Vals) == len(l) {
		return l[i]
	}
	return fmt.Sprintf("shape%d", i)
}

// value shapes: arbitrary byte strings — line breaks, blanks, NUL and 0xff at either end, nothing but line breaks
var c18ValShapes = [][]byte{[]byte("abc\n"), []byte("\r\n\n"), []byte("x \x00"), []byte("\nabc"), []byte(" lead"), []byte("trail\t"), []byte("\xff\xfe\xff"), []byte("a\r")}

var c18Names = []string{"a", "", "ü", "with/slash", "a:b", string(pat(100, 200)), "\xff\xfe", "ab\xee", "name.entity", "A", strings.Repeat("n", 124)}

func c18NameLabel(n string) string {
	switch {
	case n == "":
		return "empty-name"
	case len(n) == 100:
		return "100-arbitrary-bytes"
	case n == "\xff\xfe":
		return "bytes-ff-fe"
	case n == "ab\xee":
		return "bytes-ab-ee"
	}
	return n
}

// keys: two plain ones, one that looks like an entity file, and one that is another key plus ".tmp"
// c18ValSameLen: values of one length (a store that recognises "nothing changed" by size and time stamp is wrong for them)
var c18ValSameLen = [][]byte{[]byte("abc"), []byte("xyz"), []byte("a\rb")}

var c18Keys = []string{"k1", "x.entity", "k1.tmp"}

// c18Canon: hc's file storage drops every ':' from a key (its documented way to make a file name); keys that differ
// only in colons are one key. The model follows that, so that keys with colons can be part of the histories.
func c18Canon(k string) string { return strings.ReplaceAll(k, ":", "") }

type c18Model struct {
	kv map[string][]byte
}

func c18StorageOps() []c18Op {
	var ops []c18Op
	for _, k := range c18Keys {
		for v := range c18Vals {
			ops = append(ops, c18Op{Op: "set", Key: k, Val: v})
		}
		ops = append(ops, c18Op{Op: "get", Key: k}, c18Op{Op: "delete", Key: k})
	}
	ops = append(ops, c18Op{Op: "keys", Key: ".entity"}, c18Op{Op: "keys", Key: ""}, c18Op{Op: "keys", Key: "1"}, c18Op{Op: "reopen"})
	return ops
}

func c18DBOps() []c18Op {
	var ops []c18Op
	for i := range c18Names {
		k := fmt.Sprint(i)
		for v := 0; v < 6; v++ { // (5: with a private key, so that 0–4 overwrite it with none) public keys of lengths 32, 0, 64 (overwrite longer / shorter) and two whose base64 text looks like hex
			ops = append(ops, c18Op{Op: "save", Key: k, Val: v})
		}
		// (delete-entity with Val 1: the caller hands over an entity value it got earlier — same name, another key)
		ops = append(ops, c18Op{Op: "entity", Key: k}, c18Op{Op: "delete-entity", Key: k}, c18Op{Op: "delete-entity", Key: k, Val: 1})
	}
	ops = append(ops, c18Op{Op: "entities"}, c18Op{Op: "reopen"})
	return ops
}

func c18Pub(v int) []byte {
	switch v {
	case 0:
		return pat(32, 11)
	case 1:
		return []byte{}
	case 3:
		return []byte{0x69, 0xb7, 0x1d} // its base64 text "abcd" consists of hexadecimal digits only
	case 4:
		return []byte{0x75, 0xe6, 0x9d, 0x6d, 0xe7, 0x9f, 0xd3, 0x5d, 0xb7} // base64 "deadbeef01234" …
	}
	return pat(64, 99)
}

// c18Play replays hist on a fresh directory, checking every step against the model; it returns the canonical
// directory state or "" after a violation.
func c18Play(c *fw.Ctx, layer string, hist []c18Op, dir string) (state string, ok bool) {
	os.RemoveAll(dir)
	st, err := util.NewFileStorage(dir)
	if err != nil {
		c.Infra(err.Error())
		return "", false
	}
	database := db.NewDatabaseWithStorage(st)
	model := map[string][]byte{}
	ents := map[string]db.Entity{}
	cas := c18Case{Layer: layer, Hist: hist, Dir: c18DirName}
	if len(c18Vals) == len(c18ValShapes) {
		cas.Vals = "shapes"
	}
	if len(c18Vals) == len(c18ValSameLen) {
		cas.Vals = "samelen"
	}
	if c18DirName != "" {
		dir = filepath.Join(filepath.Dir(dir), c18DirName)
		os.RemoveAll(dir)
		st, err = util.NewFileStorage(dir)
		if err != nil {
			c.Infra(err.Error())
			return "", false
		}
		database = db.NewDatabaseWithStorage(st)
	}
	fail := func(sig, desc string) (string, bool) {
		if c18DirName != "" {
			sig += "/in-special-directory"
			desc += fmt.Sprintf(" (storage directory %q)", c18DirName)
		}
		c.Report(sig, desc, cas)
		return "", false
	}
	checkAll := func(after string, ost util.Storage, odb db.Database) bool {
		if layer == "storage" {
			handed := map[string][]byte{} // what Get handed out: it belongs to the caller and stays what it was
			for _, k := range c18Keys {
				got, err := ost.Get(k)
				if err == nil {
					handed[k] = got
				}
				want, present := model[c18Canon(k)]
				switch {
				case present && err != nil:
					fail("get-lost/after-"+after, fmt.Sprintf("Get(%q) fails (%v) although the key was set", k, err))
					return false
				case present && !bytes.Equal(got, want):
					what := "other"
					if len(got) > len(want) && bytes.HasPrefix(got, want) {
						what = "new-value-followed-by-tail-of-old"
					} else if len(got) < len(want) {
						what = "truncated"
					}
					fail("get-differs/"+what+"/after-"+after, fmt.Sprintf("Get(%q) returns %d bytes %q…, last value set has %d bytes", k, len(got), trunc(got, 24), len(want)))
					return false
				case !present && err == nil:
					fail("get-ghost/after-"+after, fmt.Sprintf("Get(%q) succeeds with %d bytes although the key is not live", k, len(got)))
					return false
				}
			}
			for k, got := range handed {
				if want, present := model[c18Canon(k)]; present && !bytes.Equal(got, want) {
					fail("get-result-changed-later/after-"+after, fmt.Sprintf("the value Get(%q) returned was right when it was returned and has changed since other keys were read: now %d bytes %q…", k, len(got), trunc(got, 24)))
					return false
				}
			}
			for _, suf := range []string{".entity", "", "1"} {
				got, err := ost.KeysWithSuffix(suf)
				var want []string
				for k := range model {
					if strings.HasSuffix(k, suf) {
						want = append(want, k)
					}
				}
				sort.Strings(got)
				sort.Strings(want)
				if err != nil || strings.Join(got, "|") != strings.Join(want, "|") {
					fail("keys-differ/after-"+after, fmt.Sprintf("KeysWithSuffix(%q) = %v (err %v), live keys %v", suf, got, err, want))
					return false
				}
			}
			return true
		}
		for i, n := range c18Names {
			got, err := odb.EntityWithName(n)
			want, present := ents[n]
			switch {
			case present && err != nil:
				fail("entity-lost/"+c18NameLabel(n)+"/after-"+after, fmt.Sprintf("EntityWithName(name %d) fails: %v", i, err))
				return false
			case present && (got.Name != want.Name || !bytes.Equal(got.PublicKey, want.PublicKey) || !bytes.Equal(got.PrivateKey, want.PrivateKey)):
				fail("entity-differs/"+c18NameLabel(n)+"/after-"+after, fmt.Sprintf("EntityWithName(name %d) returns a different entity than last saved", i))
				return false
			case !present && err == nil:
				fail("entity-ghost/"+c18NameLabel(n)+"/after-"+after, fmt.Sprintf("EntityWithName(name %d) succeeds although not stored", i))
				return false
			}
		}
		es, err := odb.Entities()
		var got, want []string
		for _, e := range es {
			got = append(got, e.Name+"="+string(e.PublicKey)+"/"+string(e.PrivateKey))
		}
		for _, e := range ents {
			want = append(want, e.Name+"="+string(e.PublicKey)+"/"+string(e.PrivateKey))
		}
		sort.Strings(got)
		sort.Strings(want)
		if err != nil || strings.Join(got, "|") != strings.Join(want, "|") {
			fail("entities-differ/after-"+after, fmt.Sprintf("Entities() lists %d entities (err %v), %d are live", len(got), err, len(want)))
			return false
		}
		return true
	}
	for oi, op := range hist {
		c.Transition(1)
		failed := false
		var perr interface{}
		label := op.Op
		perr = guard(func() {
			switch op.Op {
			case "set":
				label = "set-" + c18ValLabel(op.Val)
				if old, ok := model[c18Canon(op.Key)]; ok {
					switch {
					case len(c18Vals[op.Val]) < len(old):
						label += "-over-longer"
					case len(c18Vals[op.Val]) > len(old):
						label += "-over-shorter"
					default:
						label += "-over-equal"
					}
				}
				if err := st.Set(op.Key, c18Vals[op.Val]); err != nil {
					fail("set-error", "Set fails: "+err.Error())
					failed = true
					return
				}
				model[c18Canon(op.Key)] = c18Vals[op.Val]
				if cas.Vals == "samelen" {
					// the environment's clock does not advance between the operations of these histories (a coarse or
					// stepped-back clock): every file written carries the same time stamp
					still := time.Unix(1700000000, 0)
					os.Chtimes(filepath.Join(dir, c18Canon(op.Key)), still, still)
				}
			case "get":
				// a read is an operation of the object under test like any other (it may fill a cache): judged here
				got, err := st.Get(op.Key)
				want, present := model[c18Canon(op.Key)]
				switch {
				case present && (err != nil || !bytes.Equal(got, want)):
					fail("get-differs/as-operation", fmt.Sprintf("Get(%q) as an operation of the history returns %d bytes %q… (err %v), last value set has %d bytes", op.Key, len(got), trunc(got, 24), err, len(want)))
					failed = true
					return
				case !present && err == nil:
					fail("get-ghost/as-operation", fmt.Sprintf("Get(%q) as an operation of the history succeeds with %d bytes although the key is not live", op.Key, len(got)))
					failed = true
					return
				}
			case "delete":
				st.Delete(op.Key)
				delete(model, c18Canon(op.Key))
			case "keys":
				st.KeysWithSuffix(op.Key) // (its result is judged by checkAll at the end of the history; here it only runs)
			case "reopen":
				st, _ = util.NewFileStorage(dir)
				database = db.NewDatabaseWithStorage(st)
			case "save":
				i := 0
				fmt.Sscan(op.Key, &i)
				var priv []byte
				if op.Val == 5 {
					priv = pat(64, 41) // an entity with a private key (what the accessory stores for itself)
				}
				e := db.NewEntity(c18Names[i], c18Pub(op.Val), priv)
				label = fmt.Sprintf("save-pub%d", len(e.PublicKey))
				if err := database.SaveEntity(e); err != nil {
					fail("save-error/"+c18NameLabel(e.Name), "SaveEntity fails: "+err.Error())
					failed = true
					return
				}
				ents[e.Name] = e
			case "entity":
				i := 0
				fmt.Sscan(op.Key, &i)
				got, err := database.EntityWithName(c18Names[i])
				want, present := ents[c18Names[i]]
				if present && (err != nil || !bytes.Equal(got.PublicKey, want.PublicKey) || !bytes.Equal(got.PrivateKey, want.PrivateKey)) || !present && err == nil {
					fail("entity-differs/as-operation/"+c18NameLabel(c18Names[i]), fmt.Sprintf("EntityWithName(name %d) as an operation of the history: stored %v, returned error %v / another entity", i, present, err))
					failed = true
					return
				}
			case "entities":
				database.Entities() // (judged by checkAll at the end of the history; here it only runs)
			case "delete-entity":
				i := 0
				fmt.Sscan(op.Key, &i)
				var stale []byte
				if op.Val == 1 {
					stale = pat(32, 99) // deletion is by name: whatever else the value carries
				}
				database.DeleteEntity(db.NewEntity(c18Names[i], stale, nil))
				delete(ents, c18Names[i])
			}
		})
		if perr != nil {
			return fail("panic/"+op.Op, fmt.Sprintf("%s panics: %v", op.Op, perr))
		}
		if failed {
			return "", false
		}
		// Looking must not change what is looked at: after every operation but the last the state is read through
		// FRESH objects on the same directory (an object that reads the directory lazily would otherwise be primed by
		// the oracle); after the last operation of the history it is read through the objects under test themselves.
		// Every prefix of a history is itself an explored history, so every intermediate state is seen both ways.
		ost, odb := st, database
		if oi < len(hist)-1 {
			if fs, ferr := util.NewFileStorage(dir); ferr == nil {
				ost, odb = fs, db.NewDatabaseWithStorage(fs)
			}
		}
		if !checkAll(label, ost, odb) {
			return "", false
		}
	}
	return strings.Join(world.StoreSnapshot(dir), "\n"), true
}

func trunc(b []byte, n int) []byte {
	if len(b) > n {
		return b[:n]
	}
	return b
}

func c18Explore(c *fw.Ctx, layer string, ops []c18Op, depth int) {
	dir := filepath.Join(c.Scratch, "store-"+layer)
	type node struct{ hist []c18Op }
	init, ok := c18Play(c, layer, nil, dir)
	if !ok {
		return
	}
	seen := map[string]bool{init: true}
	frontier := []node{{nil}}
	c.State(1)
	for d := 0; d < depth && len(frontier) > 0; d++ {
		var next []node
		for _, n := range frontier {
			for _, op := range ops {
				if c.Expired() {
					c.NotExhaustive("deadline")
					return
				}
				h := append(append([]c18Op{}, n.hist...), op)
				c.Eval(1)
				c.Trace(1)
				st, ok := c18Play(c, layer, h, dir)
				if !ok {
					continue
				}
				c.Class(layer + ":" + op.Op)
				if !seen[st] {
					seen[st] = true
					c.State(1)
					next = append(next, node{h})
					if len(seen)%40 == 7 {
						c.Sample(c18Case{Layer: layer, Hist: h})
					}
				}
			}
		}
		frontier = next
		c.Note(fmt.Sprintf("%s: depth %d complete, %d distinct directory states, frontier %d", layer, d+1, len(seen), len(next)))
	}
	if len(frontier) == 0 {
		c.Note(layer + ": fixpoint reached — every reachable directory state × every operation executed")
	}
	os.RemoveAll(dir)
}

// c18Tree replays EVERY history up to the depth without merging states: the merged search above is sound only
// if the storage object keeps no state besides the directory; the un-merged tree does not rely on that.
func c18Tree(c *fw.Ctx, layer string, ops []c18Op, depth, part, parts int) {
	dir := filepath.Join(c.Scratch, "tree-"+layer)
	idx := 0
	var rec func(h []c18Op)
	rec = func(h []c18Op) {
		if len(h) == depth {
			idx++
			if idx%parts == part {
				c.Eval(1)
				c.Trace(1)
				if _, ok := c18Play(c, layer, h, dir); ok {
					c.Class(layer + ":tree")
				}
			}
			return
		}
		for _, op := range ops {
			if c.Expired() {
				c.NotExhaustive("deadline")
				return
			}
			rec(append(append([]c18Op{}, h...), op))
		}
	}
	rec(nil)
	os.RemoveAll(dir)
}

func c18Run(c *fw.Ctx) {
	{
		interfRun(c, "C18") // statement-level interleavings of operations on disjoint objects (subprocess)
	}
	if c.Thorough() {
		c18Keys = []string{"k1", "k2", "x.entity", "k1.tmp"}
	}
	depth := 4
	if c.Thorough() {
		depth = 6
	}
	if c.Shard == 2 || c.NShards < 3 {
		c18Faults(c)
	}
	switch {
	case c.Shard == 0:
		c18Explore(c, "storage", c18StorageOps(), depth)
	case c.Shard == 1 || c.NShards == 1:
		d := 2
		if c.Thorough() {
			d = 3
		}
		c18Explore(c, "db", c18DBOps(), d)
		// two names (one of them empty), the three kinds of key material, every history of length 4 (5)
		var few []c18Op
		for _, op := range c18DBOps() {
			if op.Op == "entities" || op.Op == "reopen" || ((op.Key == "0" || op.Key == "1") && (op.Op != "save" || op.Val == 0 || op.Val == 1 || op.Val == 5)) {
				few = append(few, op)
			}
		}
		c18Explore(c, "db", few, d+2)
		// two keys that differ only in the case of a letter
		saved := c18Keys
		c18Keys = []string{"k1", "K1"}
		c18Explore(c, "storage", c18StorageOps(), depth)
		c18Keys = saved
		// a key with colons next to its colon-free spelling (one key for this storage)
		c18Keys = []string{"3C:22:FB.val", "3C22FB.val"}
		c18Explore(c, "storage", c18StorageOps(), depth-1)
		c18Keys = saved
		// one key, values of every shape (line breaks, blanks, NUL, 0xff at either end)
		savedVals := c18Vals
		c18Keys, c18Vals = []string{"k1"}, c18ValShapes
		c18Explore(c, "storage", c18StorageOps(), 3)
		c18Keys, c18Vals = saved, savedVals
		// one key, three values of ONE length: every history of length 4 (5) without merging (set, get, delete, reopen),
		// so that a value is read, overwritten with another one of the same size at once, and read again
		c18Keys, c18Vals = []string{"k1"}, c18ValSameLen
		{
			var sl []c18Op
			for _, op := range c18StorageOps() {
				if op.Op != "keys" {
					sl = append(sl, op)
				}
			}
			c18Tree(c, "storage", sl, depth, 0, 1)
		}
		c18Keys, c18Vals = saved, savedVals
		// keys that differ only in a character some file systems do not allow in names (this one does)
		c18Keys = []string{"a<b", "ab", "a?b"}
		c18Explore(c, "storage", c18StorageOps(), depth-1)
		c18Keys = saved
		// the same searches (one level shallower) in directories whose names contain characters that mean something to
		// pattern matching, shells or format strings
		for _, dn := range c18SpecialDirs {
			c18DirName = dn
			c18Keys = []string{"k1", "x.entity"}
			c18Explore(c, "storage", c18StorageOps(), depth-1)
			c18Explore(c, "db", c18DBOps(), 1)
			c18Keys = saved
		}
		c18DirName = ""
	default:
		// shards 2..: the un-merged trees (storage depth 3, thorough 4 on a reduced alphabet; database depth 2)
		parts := c.NShards - 2
		var sops []c18Op
		for _, op := range c18StorageOps() {
			if op.Op == "set" && (op.Key == "x.entity" || op.Val == 4) || op.Op == "keys" && op.Key != ".entity" || op.Key == "x.entity" {
				continue // reduced: 2 keys × 4 values, get, delete, one listing, reopen
			}
			sops = append(sops, op)
		}
		td := 3
		if c.Thorough() {
			td = 4
		}
		c18Tree(c, "storage", sops, td, c.Shard-2, parts)
		var dops []c18Op
		for _, op := range c18DBOps() {
			if op.Op == "save" && op.Val >= 3 && op.Val != 5 && op.Key != "0" {
				continue
			}
			if op.Key == "0" || op.Key == "5" || op.Key == "7" || op.Key == "9" || op.Op == "entities" || op.Op == "reopen" {
				dops = append(dops, op)
			}
		}
		c18Tree(c, "db", dops, td, c.Shard-2, parts)
	}
}

func init() {
	fw.Register(&fw.Check{
		ID:     "C18",
		Level:  "model_checking",
		Rule:   "explicit-state breadth-first search over the real file storage and pairing database: alphabet Set(k,v) for 3 keys (thorough 4; one looks like an entity file, one is another key plus .tmp) × 5 values (lengths 0,1,3,6,4096), Get, Delete, KeysWithSuffix × 3 suffixes, reopen; SaveEntity (3 key lengths) / EntityWithName / DeleteEntity / Entities / reopen for 9 entity names (ASCII, empty, non-ASCII, with slash, with colon, 100 arbitrary bytes, invalid UTF-8 ending in 0xfe and in 0xee, a name ending in '.entity'). State = exact directory content (file names and bytes); every operation is executed in every discovered state by replaying the state's shortest history on a fresh directory; after every step all keys, listings and entities are compared with a Go map. Because that merging is sound only if the storage object holds nothing but the path, EVERY history of length 3 (thorough 4) over a reduced alphabet (2 keys × 4 values, get, delete, listing, reopen; 3 entity names) is additionally replayed without merging. distinct_nontrivial = distinct (layer, operation) classes executed Added: the searches repeated in storage directories named 'Lamp [Kitchen]', 'a*b', 'what?', '[a-', 'back\\slash', '{x,y}', 'per%cent', ' lead and trail '; writes cut short by the operating system (RLIMIT_FSIZE) for Set and SaveEntity — success only with the complete value, failure leaves the previous one; a storage BFS over two keys that differ only in letter case; entity names \"A\" (next to \"a\") and a 124-byte name. Plus, in a subprocess built with a scheduling point before EVERY statement of hc's packages (textual insertion through go build -overlay): every interleaving with at most 1 (thorough 2) preemptions of pairs of operations on disjoint objects — and, where the property is about served requests, of pairs of handlers on two verified connections of one accessory touching different characteristics — each side must observe exactly what it observes when the two run one after the other (module-level mutable state is what makes them differ). Also one key with 8 value shapes (line breaks, blanks, NUL, 0xff at either end, nothing but line breaks) to depth 3, and public keys whose base64 text consists of hexadecimal digits only; entities with a private key that later saves replace by none; two names (one empty) to depth 4 (thorough 5) with reopen; what Get returned stays what it was while other keys are read; a key with colons next to its colon-free spelling (the storage drops colons: one key); one key with three values of one length, every history of length 4 (thorough 6) without merging, under a clock that does not advance (every file written gets the same time stamp); DeleteEntity is also called with an entity value that carries another key than the stored one (deletion is by name); reads (Get, EntityWithName, listings) are operations of the object under test inside the histories, not only observations at their end; keys that differ only in '<' or '?'.",
		Shards: func(string) int { return 16 },
		Run:    c18Run,
		Replay: func(c *fw.Ctx, raw json.RawMessage) {
			var cas c18Case
			json.Unmarshal(raw, &cas)
			if cas.Fault != "" {
				c18Faults(c)
				return
			}
			c18DirName = cas.Dir
			savedVals := c18Vals
			if cas.Vals == "shapes" {
				c18Vals = c18ValShapes
			}
			if cas.Vals == "samelen" {
				c18Vals = c18ValSameLen
			}
			c18Play(c, cas.Layer, cas.Hist, filepath.Join(c.Scratch, "replay-store"))
			c18Vals = savedVals
			c18DirName = ""
			c.Eval(1)
			c.State(1)
		},
		Budget:      func(string) time.Duration { return 20 * time.Minute },
		Assumptions: []string{"storage keys stay within the characters hc itself uses plus the colon, which the storage drops by design: keys that differ only in colons are modelled as one key", "state merging on exact directory content is sound because the storage object holds nothing but the path"},
	})
}

// c18Faults: a write that the operating system cuts short (disk full, quota, file size limit — injected with
// RLIMIT_FSIZE, SIGXFSZ ignored, so the write fails with EFBIG after `limit` bytes). A Set / SaveEntity that
// reports success has stored the whole value; one that reports an error has left the previous value; never a
// truncated one, and the listing still shows exactly the live keys.
func c18Faults(c *fw.Ctx) {
	signal.Ignore(syscall.SIGXFSZ)
	defer signal.Reset(syscall.SIGXFSZ)
	var orig syscall.Rlimit
	if err := syscall.Getrlimit(syscall.RLIMIT_FSIZE, &orig); err != nil {
		c.Note("write-fault cases skipped: getrlimit: " + err.Error())
		return
	}
	withLimit := func(limit uint64, f func()) {
		lim := orig
		lim.Cur = limit
		if err := syscall.Setrlimit(syscall.RLIMIT_FSIZE, &lim); err != nil {
			return
		}
		defer syscall.Setrlimit(syscall.RLIMIT_FSIZE, &orig)
		f()
	}
	dir := filepath.Join(c.Scratch, "store-faults")
	olds := map[string][]byte{"absent": nil, "len3": []byte("abc"), "len5000": bytes.Repeat([]byte("0123456789"), 500)}
	news := map[string][]byte{"len10": []byte("ABCDEFGHIJ"), "len5000": bytes.Repeat([]byte("abcdefghij"), 500), "len100k": bytes.Repeat([]byte("x"), 100000)}
	for on, old := range olds {
		for nn, nw := range news {
			for _, limit := range []uint64{0, 1, 9, 4096, 65536} {
				for _, layer := range []string{"storage", "db"} {
					c.Eval(1)
					os.RemoveAll(dir)
					st, err := util.NewFileStorage(dir)
					if err != nil {
						c.Infra(err.Error())
						return
					}
					database := db.NewDatabaseWithStorage(st)
					cas := c18Case{Layer: layer, Fault: fmt.Sprintf("old=%s new=%s limit=%d", on, nn, limit)}
					sig := fmt.Sprintf("%s/old=%s,new=%s", layer, on, nn)
					st.Set("other", []byte("OTHER"))
					key := "k1"
					var serr error
					if layer == "storage" {
						if old != nil {
							st.Set(key, old)
						}
						withLimit(limit, func() { serr = st.Set(key, nw) })
					} else {
						key = "6e616d65.entity"
						if old != nil {
							database.SaveEntity(db.NewEntity("name", old, nil))
						}
						withLimit(limit, func() { serr = database.SaveEntity(db.NewEntity("name", nw, nil)) })
					}
					st2, _ := util.NewFileStorage(dir)
					got, gerr := st2.Get(key)
					prev, _ := func() ([]byte, error) { // what the key held before the faulty write
						os.RemoveAll(dir + ".ref")
						r, _ := util.NewFileStorage(dir + ".ref")
						defer os.RemoveAll(dir + ".ref")
						if old == nil {
							return nil, nil
						}
						if layer == "storage" {
							r.Set(key, old)
						} else {
							db.NewDatabaseWithStorage(r).SaveEntity(db.NewEntity("name", old, nil))
						}
						return r.Get(key)
					}()
					want, _ := func() ([]byte, error) { // what a complete write stores
						os.RemoveAll(dir + ".ref")
						r, _ := util.NewFileStorage(dir + ".ref")
						defer os.RemoveAll(dir + ".ref")
						if layer == "storage" {
							r.Set(key, nw)
						} else {
							db.NewDatabaseWithStorage(r).SaveEntity(db.NewEntity("name", nw, nil))
						}
						return r.Get(key)
					}()
					switch {
					case serr == nil && (gerr != nil || !bytes.Equal(got, want)):
						c.Report("write-fault/success-reported-but-value-incomplete/"+sig, fmt.Sprintf("%s: the write was cut after %d bytes, the operation reported success, and the key now reads %d bytes (a complete write stores %d)", cas.Fault, limit, len(got), len(want)), cas)
					case serr != nil && old == nil && gerr == nil:
						c.Report("write-fault/failed-write-created-key/"+sig, fmt.Sprintf("%s: the operation failed (%v) but the key now exists with %d bytes", cas.Fault, serr, len(got)), cas)
					case serr != nil && old != nil && (gerr != nil || !bytes.Equal(got, prev)):
						c.Report("write-fault/failed-write-changed-value/"+sig, fmt.Sprintf("%s: the operation failed (%v) and the previous value is no longer what the key reads (%d bytes)", cas.Fault, serr, len(got)), cas)
					}
					if o, err := st2.Get("other"); err != nil || string(o) != "OTHER" {
						c.Report("write-fault/other-key-damaged/"+sig, cas.Fault+": another key changed", cas)
					}
					ks, _ := st2.KeysWithSuffix("")
					visible := 0
					for _, k := range ks {
						if !strings.HasPrefix(k, ".") {
							visible++
						}
					}
					wantKeys := 1
					if gerr == nil {
						wantKeys = 2
					}
					if visible != wantKeys {
						c.Report("write-fault/listing/"+sig, fmt.Sprintf("%s: %d keys are listed, %d are live", cas.Fault, visible, wantKeys), cas)
					}
					c.Class(fmt.Sprintf("write-fault:%s:err=%v", layer, serr != nil))
				}
			}
		}
	}
	os.RemoveAll(dir)
}
