package checks

import (
	"encoding/json"
	"fmt"
	"os"
	"path/filepath"
	"strings"
	"sync"
	"sync/atomic"

	"github.com/brutella/hc/accessory"
	"github.com/brutella/hc/characteristic"
	"github.com/brutella/hc/db"
	"github.com/brutella/hc/service"

	"verif/internal/fw"
	"verif/internal/refctl"
	"verif/internal/world"
)

// bed is one system under exploration: real transport + application-side probes.
type bed struct {
	W    *world.World
	Dir  string
	Pin  string
	Code string // XXX-XX-XXX form of the pin

	Bridge *accessory.Bridge
	Switch *accessory.Switch           // aid 2: On (bool, pr pw ev)
	Bulb   *accessory.ColoredLightbulb // aid 3: On, Brightness (int 0..100, pr pw ev)
	Thermo *accessory.Thermometer
	Extra  *accessory.Accessory // aid 5: custom service with one characteristic per permission shape

	WriteOnly *characteristic.Int    // pw only
	ReadOnly  *characteristic.String // pr only (canary value)
	NoEvent   *characteristic.Int    // pr pw (no ev)
	BlobWO    *characteristic.Bytes  // tlv8, pw only, with a typed remote-update callback of the application
	BlobUnset *characteristic.Bytes  // tlv8, pr pw ev, no value yet

	// callback counters
	cbMu      sync.Mutex
	cbRemote  map[string]int
	cbLocal   map[string]int
	identify  int32
	AccID     string
	AccLTPK   []byte
	conns     []*refctl.Ctl
	seededIDs []refctl.Identity
}

type bedOpt struct {
	Pin      string
	Seed     []refctl.Identity // pairings stored before the transport starts
	Snapshot bool
	Dir      string // reuse an existing storage directory (restart)
	Variant  string // "" | "plus-outlet" (structural change) | "values" (changed values only)
}

const canaryName = "CANARY-NAME-7f3a"
const canarySecret = "CANARY-SECRET-91bc"

var bedSeq int64

func formatPin(p string) string { return p[:3] + "-" + p[3:5] + "-" + p[5:] }

func newBed(c *fw.Ctx, o bedOpt) (*bed, error) {
	b := &bed{Pin: o.Pin, cbRemote: map[string]int{}, cbLocal: map[string]int{}}
	if b.Pin == "" {
		b.Pin = "00102003"
	}
	b.Code = formatPin(b.Pin)
	b.Dir = o.Dir
	if b.Dir == "" {
		b.Dir = filepath.Join(c.Scratch, fmt.Sprintf("bed-%d", atomic.AddInt64(&bedSeq, 1)))
		os.RemoveAll(b.Dir)
	}
	if len(o.Seed) > 0 {
		database, err := db.NewDatabase(b.Dir)
		if err != nil {
			return nil, err
		}
		for _, id := range o.Seed {
			if err := database.SaveEntity(db.NewEntity(id.ID, id.Pub, nil)); err != nil {
				return nil, err
			}
		}
		b.seededIDs = o.Seed
	}
	b.Bridge = accessory.NewBridge(accessory.Info{Name: canaryName, SerialNumber: "SN-" + canarySecret, Manufacturer: "Verif", Model: "Bed"})
	b.Switch = accessory.NewSwitch(accessory.Info{Name: "Switch-" + canarySecret})
	b.Bulb = accessory.NewColoredLightbulb(accessory.Info{Name: "Bulb"})
	b.Thermo = accessory.NewTemperatureSensor(accessory.Info{Name: "Thermo"}, 21.5, -10, 60, 0.1)
	b.Extra = accessory.New(accessory.Info{Name: "Extra"}, accessory.TypeOther)
	svc := service.New("F100")
	b.WriteOnly = characteristic.NewInt("F101")
	b.WriteOnly.Format = characteristic.FormatUInt8
	b.WriteOnly.Perms = characteristic.PermsWriteOnly()
	b.ReadOnly = characteristic.NewString("F102")
	b.ReadOnly.Perms = characteristic.PermsReadOnly()
	b.ReadOnly.SetValue("RO-" + canarySecret)
	b.NoEvent = characteristic.NewInt("F103")
	b.NoEvent.Format = characteristic.FormatInt32
	b.NoEvent.Perms = []string{characteristic.PermRead, characteristic.PermWrite}
	b.NoEvent.SetValue(5)
	svc.AddCharacteristic(b.WriteOnly.Characteristic)
	svc.AddCharacteristic(b.ReadOnly.Characteristic)
	svc.AddCharacteristic(b.NoEvent.Characteristic)
	// a readable characteristic that has NO value until the application has its first reading (variant "values")
	unset := characteristic.NewInt("F104")
	unset.Format = characteristic.FormatInt32
	unset.Perms = []string{characteristic.PermRead, characteristic.PermEvents}
	unset.Value = nil
	svc.AddCharacteristic(unset.Characteristic)
	// tlv8 characteristics without a value: a write-only one whose application uses the typed callback, and a
	// readable one that has not been set yet
	b.BlobWO = characteristic.NewBytes("F105")
	b.BlobWO.Perms = characteristic.PermsWriteOnly()
	b.BlobWO.Value = nil
	b.BlobWO.OnValueRemoteUpdate(func([]byte) {})
	b.BlobUnset = characteristic.NewBytes("F106")
	b.BlobUnset.Perms = characteristic.PermsAll()
	b.BlobUnset.Value = nil
	svc.AddCharacteristic(b.BlobWO.Characteristic)
	svc.AddCharacteristic(b.BlobUnset.Characteristic)
	b.Extra.AddService(svc)
	if o.Variant == "values" {
		b.Bulb.Lightbulb.Brightness.SetValue(77)
		b.Switch.Switch.On.SetValue(true)
		// values that are hostile to anything but a real JSON decoder
		b.Switch.Info.Model.SetValue(`Lamp 24" rev A`)
		b.Bulb.Info.Model.SetValue(strings.Repeat("a model name of more than sixty-four bytes ", 4)) // 168 bytes, through the typed setter
		b.Switch.Info.Manufacturer.SetValue(`{"value":1,"iid":99}],"x":[`)
		b.Switch.Info.SerialNumber.SetValue("back\\slash \" and , \"value\":")
		b.Bulb.Info.FirmwareRevision.SetValue("1.0\n\"")
		b.ReadOnly.SetValue(`"`)
		b.Thermo.TempSensor.CurrentTemperature.SetValue(-9.75)
		unset.SetValue(7)
	}
	accs := []*accessory.Accessory{b.Switch.Accessory, b.Bulb.Accessory, b.Thermo.Accessory, b.Extra}
	if o.Variant == "plus-outlet" {
		accs = append(accs, accessory.NewOutlet(accessory.Info{Name: "Outlet"}).Accessory)
	}
	if strings.HasPrefix(o.Variant, "extra-aid:") { // an additional accessory with an explicit id: a different structure per id
		var id uint64
		fmt.Sscanf(o.Variant, "extra-aid:%d", &id)
		accs = append(accs, accessory.NewOutlet(accessory.Info{Name: "Outlet", ID: id}).Accessory)
	}
	if o.Variant == "duplicate-ids" { // a configuration mistake: two accessories ask for the same explicit id
		accs = append(accs, accessory.NewOutlet(accessory.Info{Name: "Outlet A", ID: 77}).Accessory, accessory.NewOutlet(accessory.Info{Name: "Outlet B", ID: 77}).Accessory)
	}
	if strings.HasPrefix(o.Variant, "bridged:") { // a bridge with n more accessories: a large attribute database
		var n int
		fmt.Sscanf(o.Variant, "bridged:%d", &n)
		for i := 0; i < n; i++ {
			accs = append(accs, accessory.NewOutlet(accessory.Info{Name: fmt.Sprintf("Bridged outlet %d", i), SerialNumber: fmt.Sprintf("BR-%04d", i)}).Accessory)
		}
	}
	b.Bridge.OnIdentify(func() { atomic.AddInt32(&b.identify, 1) })
	w, err := world.Start(world.Options{Dir: b.Dir, Pin: b.Pin, Snapshot: o.Snapshot}, b.Bridge.Accessory, accs...)
	if err != nil {
		return nil, err
	}
	b.W = w
	for _, a := range append([]*accessory.Accessory{b.Bridge.Accessory}, accs...) {
		for _, s := range a.Services {
			for _, ch := range s.Characteristics {
				key := fmt.Sprintf("%d.%d", a.ID, ch.ID)
				ch.OnValueUpdateFromConn(func(conn netConn, c *characteristic.Characteristic, n, o interface{}) {
					b.cbMu.Lock()
					b.cbRemote[key]++
					b.cbMu.Unlock()
				})
				ch.OnValueUpdate(func(c *characteristic.Characteristic, n, o interface{}) {
					b.cbMu.Lock()
					b.cbLocal[key]++
					b.cbMu.Unlock()
				})
			}
		}
	}
	// the accessory's own identity, as stored
	uuid, _ := os.ReadFile(filepath.Join(b.Dir, "uuid"))
	b.AccID = string(uuid)
	database, _ := db.NewDatabase(b.Dir)
	if e, err := database.EntityWithName(b.AccID); err == nil {
		b.AccLTPK = e.PublicKey
	}
	return b, nil
}

// Close stops the transport, closes controller connections and removes the storage directory.
func (b *bed) Close() {
	for _, k := range b.conns {
		k.Close()
	}
	b.W.Stop()
	os.RemoveAll(b.Dir)
}

// CloseKeep stops the transport but keeps the directory (restart histories).
func (b *bed) CloseKeep() {
	for _, k := range b.conns {
		k.Close()
	}
	b.W.StopWait()
}

func (b *bed) Dial() (*refctl.Ctl, error) {
	k, err := refctl.Dial(b.W.Addr)
	if err != nil {
		return nil, err
	}
	b.conns = append(b.conns, k)
	return k, nil
}

// AppState is everything the application can observe: values, callback counters, stored entities.
func (b *bed) AppState() string {
	b.cbMu.Lock()
	cr, _ := json.Marshal(b.cbRemote)
	cl, _ := json.Marshal(b.cbLocal)
	b.cbMu.Unlock()
	return fmt.Sprintf("on=%v bulbOn=%v bright=%v wo=%v ro=%v noev=%v identify=%d remote=%s local=%s entities=%s",
		b.Switch.Switch.On.Value, b.Bulb.Lightbulb.On.Value, b.Bulb.Lightbulb.Brightness.Value, b.WriteOnly.Value, b.ReadOnly.Value, b.NoEvent.Value,
		atomic.LoadInt32(&b.identify), cr, cl, strings.Join(world.EntityFiles(b.Dir), ";"))
}

// IDs of the characteristics used by the alphabets.
func (b *bed) SwitchOn() (uint64, uint64) { return b.Switch.Accessory.ID, b.Switch.Switch.On.ID }
func (b *bed) Brightness() (uint64, uint64) {
	return b.Bulb.Accessory.ID, b.Bulb.Lightbulb.Brightness.ID
}

func hasCanary(b []byte) bool {
	s := string(b)
	return strings.Contains(s, canaryName) || strings.Contains(s, canarySecret) || strings.Contains(s, `"iid"`) || strings.Contains(s, `"aid"`) || strings.Contains(s, `"value"`)
}

func dbOpen(dir string) (db.Database, error) { return db.NewDatabase(dir) }

func dbEntity(id refctl.Identity) db.Entity { return db.NewEntity(id.ID, id.Pub, nil) }

// CloseKeepNoWait stops the transport without waiting for the mDNS goodbye and keeps the directory.
func (b *bed) CloseKeepNoWait() {
	for _, k := range b.conns {
		k.Close()
	}
	b.conns = nil
	b.W.Stop()
}
