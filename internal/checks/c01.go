package checks

import (
	"crypto/ed25519"
	"encoding/json"
	"fmt"
	"os"
	"strings"
	"sync/atomic"
	"time"

	"verif/internal/fw"
	"verif/internal/refctl"
	"verif/internal/world"
)

// C01 — protected endpoints serve only pair-verified connections.

var c01XOps = []string{
	"get-accessories", "put-value", "put-ev", "verify-finish-forged", "cipher-probe",
	"get-characteristics", "post-resource", "pairings-add", "pairings-remove-L", "verify-start",
	"verify-finish-zero-key", "setup-start", "setup-verify-wrong-code", "reopen", "take-over-L-port",
	"setup-key-exchange-universal-signature",
}

// composite adversary operations: a fresh pair-verify start, a correctly sealed finish naming a stored
// entity (L, or the accessory itself) with a signature made with the adversary's key, and at once, with no
// plaintext request in between, a request sealed under the keys of that exchange
var c01XComposite = []string{"forged-finish-naming-L-then-ciphertext", "forged-finish-naming-accessory-then-ciphertext"}

func c01Alphabet(thorough bool) []string {
	var a []string
	a = append(a, "L:verify", "L:put-change", "app:set")
	for _, o := range c01XOps {
		a = append(a, "X1:"+o)
	}
	n2 := 5
	if thorough {
		n2 = len(c01XOps)
	}
	for _, o := range c01XOps[:n2] {
		a = append(a, "X2:"+o)
	}
	for _, o := range c01XComposite {
		a = append(a, "X1:"+o)
	}
	a = append(a, "L:subscribe", "L:close", "L:verify-begin", "L:verify-end")
	return a
}

type c01Conn struct {
	k        *refctl.Ctl
	dead     bool
	verified bool
	last     *refctl.Verify
	pending  *refctl.Verify // L: a finish request whose head was sent and whose handler waits for the body
	pendBody []byte
	takeover bool // connected from the address:port another connection used before
}

type c01Run struct {
	c               *fw.Ctx
	b               *bed
	conns           map[string]*c01Conn
	seq             int
	on              bool // model of switch.On
	fail            func(sig, desc string)
	base            string // initial application state
	nRemote, nLocal int
	nIdentify       int
	gate            chan struct{} // released at the end of the history: a blocked identify callback
}

func (r *c01Run) conn(name string) *c01Conn {
	cn := r.conns[name]
	if cn == nil || cn.dead {
		var k *refctl.Ctl
		var err error
		if name == "L" {
			// L connects from a port that can be bound again (for the adversary's take-over-L-port)
			k, err = refctl.DialRebindable(r.b.W.Addr)
			if err == nil {
				r.b.conns = append(r.b.conns, k)
			}
		} else {
			k, err = r.b.Dial()
		}
		if err != nil {
			r.c.Infra(err.Error())
			return nil
		}
		cn = &c01Conn{k: k}
		r.conns[name] = cn
	}
	return cn
}

// refused checks a response to a protected operation on a connection the model holds as unverified.
func (r *c01Run) refused(conn, op string, m *refctl.Msg, evs []*refctl.Msg, err error) bool {
	if len(evs) > 0 {
		r.fail("event-to-unverified/"+op, fmt.Sprintf("connection %s is not verified but received an EVENT message: %s", conn, evs[0].Body))
		return false
	}
	if err != nil {
		return true // dropped / reset: nothing disclosed
	}
	cls := fmt.Sprintf("%s→http-%d", op, m.Status)
	r.c.Class(cls)
	if m.Status/100 == 2 {
		r.fail("served/"+op, fmt.Sprintf("%s on unverified connection %s was served with status %d", op, conn, m.Status))
		return false
	}
	if hasCanary(m.Body) {
		r.fail("disclosed/"+op, fmt.Sprintf("%s on unverified connection %s: the refusal (status %d) discloses attributes or values", op, conn, m.Status))
		return false
	}
	return true
}

func (r *c01Run) step(ev string) bool {
	r.seq++
	parts := strings.SplitN(ev, ":", 2)
	who, op := parts[0], parts[1]
	aid, iid := r.b.SwitchOn()
	if who == "app" {
		r.on = !r.on
		r.nLocal++
		r.b.Switch.Switch.On.SetValue(r.on)
		return r.after(ev)
	}
	cn := r.conn(who)
	if cn == nil {
		return false
	}
	do := func(method, path, ctype string, body []byte) (*refctl.Msg, []*refctl.Msg, error) {
		m, evs, err := cn.k.Do(method, path, ctype, body)
		if err != nil {
			cn.dead = true
		}
		return m, evs, err
	}
	if who == "L" {
		if cn.pending != nil && op != "verify-end" {
			return r.after(ev) // L is in the middle of a request: its other events are not enabled
		}
		switch op {
		case "verify-begin":
			// pair-verify whose finish request is split: the handler runs and waits for the body while later
			// events happen on other connections
			if cn.verified {
				return r.after(ev)
			}
			v := refctl.NewVerify(refctl.Seed32(fmt.Sprintf("Lsplit:%d", r.seq)))
			m, _, err := do("POST", "/pair-verify", refctl.CTPairing, refctl.VerifyM1(v.EphPub))
			if err != nil || m.Status != 200 || v.ParseM2(m.Body, r.b.AccLTPK) != nil {
				r.fail("legit-verify-failed", fmt.Sprintf("the legitimate controller's start request fails: %v %v", m, err))
				return false
			}
			body := v.M3(idL)
			if err := cn.k.BeginRequest("POST", "/pair-verify", refctl.CTPairing, len(body)); err != nil {
				r.fail("legit-verify-failed", "the split finish request is not accepted: "+err.Error())
				return false
			}
			cn.pending, cn.pendBody = v, body
		case "verify-end":
			if cn.pending == nil {
				return r.after(ev)
			}
			m, _, err := cn.k.FinishRequest(cn.pendBody)
			v := cn.pending
			cn.pending = nil
			if err != nil || m.Status != 200 {
				r.fail("legit-verify-failed", fmt.Sprintf("the legitimate controller's (split) finish request fails: %v %v", m, err))
				return false
			}
			if ec, perr := refctl.ParseVerifyM4(m.Body); perr != nil || ec != 0 {
				r.fail("legit-verify-failed", fmt.Sprintf("the legitimate controller's genuine finish is rejected: code %d %v", ec, perr))
				return false
			}
			a2c, c2a := refctl.SessionKeys(v.Shared)
			cn.k.Secure(a2c, c2a)
			cn.verified = true
		case "verify":
			if cn.verified {
				return r.after(ev)
			}
			_, ec, err := refctl.PairVerify(cn.k, idL, refctl.Seed32(fmt.Sprintf("L:%d", r.seq)), r.b.AccLTPK)
			if err != nil || ec != 0 {
				r.fail("legit-verify-failed", fmt.Sprintf("the legitimate controller cannot verify: code %d %v", ec, err))
				return false
			}
			cn.verified = true
		case "put-change", "subscribe":
			if !cn.verified {
				// L before its verify is just another unverified peer
				m, evs, err := do("PUT", "/characteristics", refctl.CTJSON, []byte(fmt.Sprintf(`{"characteristics":[{"aid":%d,"iid":%d,"value":%v}]}`, aid, iid, !r.on)))
				if !r.refused(who, op, m, evs, err) {
					return false
				}
				return r.after(ev)
			}
			body := fmt.Sprintf(`{"characteristics":[{"aid":%d,"iid":%d,"ev":true}]}`, aid, iid)
			if op == "put-change" {
				r.on = !r.on
				r.nRemote++
				body = fmt.Sprintf(`{"characteristics":[{"aid":%d,"iid":%d,"value":%v}]}`, aid, iid, r.on)
			}
			m, _, err := do("PUT", "/characteristics", refctl.CTJSON, []byte(body))
			if err != nil || m.Status != 204 {
				r.fail("legit-request-failed/"+op, fmt.Sprintf("the verified controller's %s fails: %v %v", op, m, err))
				return false
			}
		case "close":
			cn.k.Close()
			cn.dead = true
		}
		return r.after(ev)
	}
	// adversary
	switch op {
	case "reopen":
		cn.k.Close()
		cn.dead = true
		r.conn(who)
	case "take-over-L-port":
		// L's connection is reset; the adversary then connects from exactly the same source address and port
		l := r.conns["L"]
		if l == nil || l.pending != nil {
			return r.after(ev)
		}
		local := l.k.Local
		if !l.dead {
			l.k.Close()
			l.dead = true
		}
		cn.k.Close()
		cn.dead = true
		time.Sleep(3 * time.Millisecond) // let the accessory notice the reset
		for attempt := 0; attempt < 5; attempt++ {
			k, err := refctl.DialFrom(r.b.W.Addr, local)
			if err != nil && attempt == 4 {
				r.c.Note("take-over-L-port: could not connect from " + local + ": " + err.Error())
				if os.Getenv("C01_DEBUG") != "" {
					fmt.Fprintln(os.Stderr, "takeover failed", local, err)
				}
			}
			if err == nil {
				r.b.conns = append(r.b.conns, k)
				r.conns[who] = &c01Conn{k: k, takeover: true}
				break
			}
			time.Sleep(5 * time.Millisecond)
		}
	case "return-from-own-port-while-identify-runs":
		// POST /identify is served to anybody and runs the application's identify callbacks. The adversary sends it on a
		// connection while the application's callback is slow, resets the connection and connects again from the same
		// source address and port; then the callback returns and the accessory closes the OLD connection. Whatever that
		// removes, the new connection has not verified.
		if r.gate != nil {
			return r.after(ev) // once per history
		}
		r.gate = make(chan struct{})
		gate, entered := r.gate, make(chan struct{}, 1)
		first := true
		r.b.Bridge.OnIdentify(func() {
			if first {
				first = false
				entered <- struct{}{}
				<-gate
			}
		})
		// (the connection it does this on comes from a port that can be bound again)
		cn.k.Close()
		cn.dead = true
		rk, rerr := refctl.DialRebindable(r.b.W.Addr)
		if rerr != nil {
			close(gate)
			return r.after(ev)
		}
		r.b.conns = append(r.b.conns, rk)
		cn = &c01Conn{k: rk}
		r.conns[who] = cn
		if err := cn.k.Send(refctl.BuildRequest("POST", "/identify", "", nil)); err != nil {
			cn.dead = true
			close(gate)
			return r.after(ev)
		}
		select {
		case <-entered:
		case <-time.After(3 * time.Second):
			r.c.Note("identify callback was not entered")
			close(gate)
			return r.after(ev)
		}
		// (identify is open to anybody: its counter is taken as observed)
		now := int(atomic.LoadInt32(&r.b.identify))
		r.base = strings.Replace(r.base, fmt.Sprintf("identify=%d ", r.nIdentify), fmt.Sprintf("identify=%d ", now), 1)
		r.nIdentify = now
		local := cn.k.Local
		cn.k.Close()
		cn.dead = true
		for attempt := 0; attempt < 5; attempt++ {
			k, err := refctl.DialFrom(r.b.W.Addr, local)
			if err == nil {
				r.b.conns = append(r.b.conns, k)
				r.conns[who] = &c01Conn{k: k}
				break
			}
			if attempt == 4 {
				r.c.Note("return-from-own-port: could not connect from " + local + ": " + err.Error())
				if os.Getenv("C01_DEBUG") != "" {
					fmt.Fprintln(os.Stderr, "return-from-own-port failed", local, err)
				}
			}
			time.Sleep(5 * time.Millisecond)
		}
		time.Sleep(5 * time.Millisecond) // the new connection is accepted and registered
		close(gate)
		time.Sleep(30 * time.Millisecond) // the old handler has returned and the old connection has been closed
		// at once, before anything else is sent on it: the attribute database and a pairing request on the new connection
		if ncn := r.conns[who]; ncn != nil && !ncn.dead {
			m, evs, err := ncn.k.Do("GET", "/accessories", "", nil)
			if err != nil {
				ncn.dead = true
			} else if !r.refused(who, "get-accessories-after-return", m, evs, err) {
				return false
			}
		}
		if ncn := r.conns[who]; ncn != nil && !ncn.dead {
			path, ctype, body := c01Target("pairings-add", aid, iid, false)
			m, evs, err := ncn.k.Do("POST", path, ctype, body)
			if err != nil {
				ncn.dead = true
			} else if !r.refused(who, "pairings-add-after-return", m, evs, err) {
				return false
			}
		}
	case "return-from-own-port-while-old-handler-runs":
		// the adversary starts a request whose handler waits for the body (Expect: 100-continue), resets that connection
		// and connects again from the same source address and port; the old handler then fails and the accessory closes
		// the OLD connection — whatever it removes with it, the new connection has not verified
		body := refctl.VerifyM1(pat(32, 9))
		if err := cn.k.BeginRequest("POST", "/pair-verify", refctl.CTPairing, len(body)); err != nil {
			cn.dead = true
			return r.after(ev)
		}
		local := cn.k.Local
		cn.k.Close()
		cn.dead = true
		for attempt := 0; attempt < 5; attempt++ {
			k, err := refctl.DialFrom(r.b.W.Addr, local)
			if err == nil {
				r.b.conns = append(r.b.conns, k)
				r.conns[who] = &c01Conn{k: k}
				break
			}
			if attempt == 4 {
				r.c.Note("return-from-own-port: could not connect from " + local + ": " + err.Error())
			}
			time.Sleep(5 * time.Millisecond)
		}
		time.Sleep(30 * time.Millisecond) // the old handler has failed and the old connection has been closed by now
	case "get-accessories":
		m, evs, err := do("GET", "/accessories", "", nil)
		if !r.refused(who, op, m, evs, err) {
			return false
		}
	case "get-characteristics":
		m, evs, err := do("GET", fmt.Sprintf("/characteristics?id=%d.%d,1.2", aid, iid), "", nil)
		if !r.refused(who, op, m, evs, err) {
			return false
		}
	case "put-value":
		m, evs, err := do("PUT", "/characteristics", refctl.CTJSON, []byte(fmt.Sprintf(`{"characteristics":[{"aid":%d,"iid":%d,"value":%v}]}`, aid, iid, !r.on)))
		if !r.refused(who, op, m, evs, err) {
			return false
		}
	case "put-ev":
		m, evs, err := do("PUT", "/characteristics", refctl.CTJSON, []byte(fmt.Sprintf(`{"characteristics":[{"aid":%d,"iid":%d,"ev":true}]}`, aid, iid)))
		if !r.refused(who, op, m, evs, err) {
			return false
		}
	case "post-resource":
		m, evs, err := do("POST", "/resource", refctl.CTJSON, []byte(`{"resource-type":"image","image-width":2,"image-height":2}`))
		if !r.refused(who, op, m, evs, err) {
			return false
		}
	case "pairings-add":
		body := refctl.TLVEncode(refctl.T(refctl.TagState, []byte{1}), refctl.T(refctl.TagMethod, []byte{3}), refctl.T(refctl.TagIdentifier, []byte(idX.ID)), refctl.T(refctl.TagPublicKey, idX.Pub), refctl.T(refctl.TagPermission, []byte{1}))
		m, evs, err := do("POST", "/pairings", refctl.CTPairing, body)
		if !r.refused(who, op, m, evs, err) {
			return false
		}
	case "pairings-remove-L":
		body := refctl.TLVEncode(refctl.T(refctl.TagState, []byte{1}), refctl.T(refctl.TagMethod, []byte{4}), refctl.T(refctl.TagIdentifier, []byte(idL.ID)))
		m, evs, err := do("POST", "/pairings", refctl.CTPairing, body)
		if !r.refused(who, op, m, evs, err) {
			return false
		}
	case "verify-start":
		v := refctl.NewVerify(refctl.Seed32(fmt.Sprintf("%s:%d", who, r.seq)))
		m, _, err := do("POST", "/pair-verify", refctl.CTPairing, refctl.VerifyM1(v.EphPub))
		if err == nil && m.Status == 200 && v.ParseM2(m.Body, nil) == nil {
			cn.last = v
		}
	case "verify-finish-forged", "verify-finish-zero-key":
		v := cn.last
		if v == nil {
			v = refctl.NewVerify(refctl.Seed32("none"))
			v.AccEph, v.Shared = refctl.Seed32("a"), refctl.Seed32("s")
			v.EncKey = refctl.Seed32("k")
		}
		key := v.EncKey
		if op == "verify-finish-zero-key" {
			key = make([]byte, 32)
		}
		do("POST", "/pair-verify", refctl.CTPairing, refctl.VerifyM3Sealed(key, v.M3Sub(idL.ID, idX.Priv)))
	case "forged-finish-naming-L-then-ciphertext", "forged-finish-naming-accessory-then-ciphertext", "finish-naming-accessory-signed-with-zero-seed-key-then-ciphertext", "forged-finish-naming-L-with-own-key-item-then-ciphertext":
		v := refctl.NewVerify(refctl.Seed32(fmt.Sprintf("%s:%d", who, r.seq)))
		m, _, err := do("POST", "/pair-verify", refctl.CTPairing, refctl.VerifyM1(v.EphPub))
		if err != nil || m.Status != 200 || v.ParseM2(m.Body, nil) != nil {
			break
		}
		cn.last = v
		name := idL.ID
		if strings.Contains(op, "accessory") {
			name = v.AccID
		}
		signer := idX.Priv
		if strings.Contains(op, "zero-seed") {
			// a key everybody can compute: the Ed25519 key pair of the all-zero seed (an accessory whose key generation
			// lost its randomness would own exactly this one)
			signer = ed25519.NewKeyFromSeed(make([]byte, 32))
		}
		sub := v.M3Sub(name, signer)
		if strings.Contains(op, "own-key-item") {
			// … and the adversary's public key as an extra item of the signed payload
			mat := append(append(append([]byte{}, v.EphPub...), name...), v.AccEph...)
			sub = refctl.TLVEncode(refctl.T(refctl.TagIdentifier, []byte(name)), refctl.T(refctl.TagPublicKey, idX.Pub), refctl.T(refctl.TagSignature, ed25519.Sign(idX.Priv, mat)))
		}
		do("POST", "/pair-verify", refctl.CTPairing, refctl.VerifyM3Sealed(v.EncKey, sub))
		a2c, c2a := refctl.SessionKeys(v.Shared)
		pr := cn.k.ProbeEncrypted(a2c, c2a, refctl.BuildRequest("GET", "/accessories", "", nil))
		cn.dead = true
		if pr.Decrypted != nil {
			r.fail("served-ciphertext-after-forged-finish", fmt.Sprintf("connection %s finished pair-verify with a signature that is not %s's and was then answered under the keys of that exchange (status %d)", who, name, pr.Decrypted.Status))
			return false
		}
		if pr.Plain != nil && (pr.Plain.Status/100 == 2 || hasCanary(pr.Plain.Body)) {
			r.fail("served/cipher-probe", "ciphertext probe answered with a successful plaintext response")
			return false
		}
	case "setup-start":
		do("POST", "/pair-setup", refctl.CTPairing, refctl.SetupM1())
	case "setup-verify-wrong-code":
		cl := refctl.NewSRPClient(refctl.Seed32("c01-a"))
		do("POST", "/pair-setup", refctl.CTPairing, refctl.TLVEncode(refctl.T(refctl.TagState, []byte{3}), refctl.T(refctl.TagPublicKey, cl.A), refctl.T(refctl.TagProof, pat(64, 1))))
	default:
		// "any:<METHOD>:<target>": a protected request with an arbitrary HTTP method (the handlers are registered for
		// a path, not for a method)
		parts := strings.SplitN(op, ":", 3)
		if len(parts) != 3 || parts[0] != "any" {
			r.c.Infra("unknown symbol " + ev)
			return false
		}
		path, ctype, body := c01Target(parts[2], aid, iid, !r.on)
		m, evs, err := do(parts[1], path, ctype, body)
		if !r.refused(who, op, m, evs, err) {
			return false
		}
	case "setup-key-exchange-universal-signature":
		// a key exchange sealed under the all-zero key, presenting the neutral group element as long-term key and the
		// signature that key accepts for every message
		do("POST", "/pair-setup", refctl.CTPairing, refctl.M5Sealed(make([]byte, 32), refctl.UniversalM5Sub(idX.ID)))
	case "cipher-probe":
		shared := refctl.Seed32("guess")
		if cn.last != nil {
			shared = cn.last.Shared
		}
		a2c, c2a := refctl.SessionKeys(shared)
		pr := cn.k.ProbeEncrypted(a2c, c2a, refctl.BuildRequest("GET", "/accessories", "", nil))
		cn.dead = true
		if pr.Decrypted != nil {
			r.fail("served-ciphertext-under-own-keys", fmt.Sprintf("connection %s never verified but a request sealed under keys it derived itself was answered (status %d)", who, pr.Decrypted.Status))
			return false
		}
		if pr.Plain != nil && (pr.Plain.Status/100 == 2 || hasCanary(pr.Plain.Body)) {
			r.fail("served/cipher-probe", "ciphertext probe answered with a successful plaintext response")
			return false
		}
	}
	return r.after(ev)
}

// after: nothing the adversary did changed the application-visible state, and no EVENT reaches an
// unverified connection (barrier request on every live adversary connection).
func (r *c01Run) after(ev string) bool {
	for _, name := range []string{"X1", "X2"} {
		cn := r.conns[name]
		if cn == nil || cn.dead {
			continue
		}
		m, evs, err := cn.k.Do("GET", "/characteristics?id=1.2", "", nil)
		if err != nil {
			cn.dead = true
			continue
		}
		if !r.refused(name, "barrier", m, evs, nil) {
			return false
		}
	}
	if os.Getenv("C01_DEBUG") != "" {
		for n, cn := range r.conns {
			fmt.Fprintln(os.Stderr, "after", ev, n, "dead", cn.dead, "takeover", cn.takeover, "local", cn.k.Local)
		}
	}
	got := r.b.AppState()
	if want := r.expected(); got != want {
		what := "state"
		if strings.SplitN(got, " ", 2)[0] != strings.SplitN(want, " ", 2)[0] {
			what = "value"
		} else if got[strings.Index(got, " entities="):] != want[strings.Index(want, " entities="):] {
			what = "pairings"
		} else if got[strings.Index(got, " remote="):] != want[strings.Index(want, " remote="):] {
			what = "callbacks"
		}
		r.fail(what+"-changed/after-"+strings.SplitN(ev, ":", 2)[1], "after "+ev+" the application-visible state is\n  "+got+"\nbut the model says\n  "+want)
		return false
	}
	return true
}

// expected renders the model in the format of bed.AppState: only the switch value and the callback counters
// of the switch characteristic ever change, and only through L's verified writes and the application.
func (r *c01Run) expected() string {
	aid, iid := r.b.SwitchOn()
	key := fmt.Sprintf("%d.%d", aid, iid)
	cnt := func(n int) string {
		if n == 0 {
			return "{}"
		}
		return fmt.Sprintf(`{"%s":%d}`, key, n)
	}
	s := r.base
	s = "on=" + fmt.Sprint(r.on) + s[strings.Index(s, " "):]
	a, b := strings.Index(s, " remote="), strings.Index(s, " entities=")
	return s[:a] + " remote=" + cnt(r.nRemote) + " local=" + cnt(r.nLocal) + s[b:]
}

type c01Case struct {
	Hist []string `json:"hist"`
}

func c01Exec(c *fw.Ctx, hist []string) bool {
	c.Eval(1)
	c.State(1)
	c.Trace(1)
	c.Transition(len(hist))
	world.ResetCapture()
	b, err := newBed(c, bedOpt{Seed: []refctl.Identity{idL}, Snapshot: true})
	if err != nil {
		c.Infra("bed: " + err.Error())
		return false
	}
	defer b.Close()
	r := &c01Run{c: c, b: b, conns: map[string]*c01Conn{}}
	r.base = b.AppState()
	failed := false
	r.fail = func(sig, desc string) {
		failed = true
		c.Report(sig, desc+" — history "+strings.Join(hist, ", "), c01Case{Hist: hist})
	}
	for _, ev := range hist {
		if !r.step(ev) {
			break
		}
	}
	if !failed {
		r.finalProbes()
	}
	return !failed
}

// finalProbes: at the end of every history the legitimate controller, if verified, is still served; every
// live adversary connection still answers (and refuses) in plaintext and does not serve ciphertext under
// keys it derived itself — verification carries over to nobody.
func (r *c01Run) finalProbes() {
	if l := r.conns["L"]; l != nil && !l.dead && l.verified && l.pending == nil {
		m, _, err := l.k.Do("GET", "/accessories", "", nil)
		if err != nil || m.Status != 200 {
			r.fail("legit-request-failed/final", fmt.Sprintf("the verified legitimate controller is no longer served: %v", err))
			return
		}
	}
	for _, name := range []string{"X1", "X2"} {
		cn := r.conns[name]
		if cn == nil || cn.dead {
			continue
		}
		m, evs, err := cn.k.Do("GET", "/accessories", "", nil)
		if err != nil && cn.takeover {
			continue // a connection racing with the tear-down of its predecessor may be dropped; only being SERVED counts
		}
		if err != nil {
			r.fail("unverified-connection-left-plaintext", fmt.Sprintf("adversary connection %s, never verified, no longer answers plaintext requests (%v): its session was switched", name, err))
			return
		}
		if !r.refused(name, "final-get", m, evs, nil) {
			return
		}
		shared := refctl.Seed32("guess")
		if cn.last != nil {
			shared = cn.last.Shared
		}
		a2c, c2a := refctl.SessionKeys(shared)
		pr := cn.k.ProbeEncrypted(a2c, c2a, refctl.BuildRequest("GET", "/accessories", "", nil))
		cn.dead = true
		if pr.Decrypted != nil {
			r.fail("served-ciphertext-under-own-keys", fmt.Sprintf("connection %s never verified but a request sealed under keys it derived itself was answered (status %d)", name, pr.Decrypted.Status))
			return
		}
	}
}

var c01Methods = []string{"GET", "PUT", "POST", "DELETE", "PATCH", "OPTIONS", "TRACE", "get", "FOO"}
var c01Targets = []string{"accessories", "characteristics-read", "characteristics-write", "characteristics-subscribe", "pairings-add", "pairings-remove-L", "resource"}

func c01Target(name string, aid, iid uint64, v bool) (path, ctype string, body []byte) {
	switch name {
	case "accessories":
		return "/accessories", "", nil
	case "characteristics-read":
		return fmt.Sprintf("/characteristics?id=%d.%d,1.2", aid, iid), "", nil
	case "characteristics-write":
		return "/characteristics", refctl.CTJSON, []byte(fmt.Sprintf(`{"characteristics":[{"aid":%d,"iid":%d,"value":%v}]}`, aid, iid, v))
	case "characteristics-subscribe":
		return "/characteristics", refctl.CTJSON, []byte(fmt.Sprintf(`{"characteristics":[{"aid":%d,"iid":%d,"ev":true}]}`, aid, iid))
	case "pairings-add":
		return "/pairings", refctl.CTPairing, refctl.TLVEncode(refctl.T(refctl.TagState, []byte{1}), refctl.T(refctl.TagMethod, []byte{3}), refctl.T(refctl.TagIdentifier, []byte(idX.ID)), refctl.T(refctl.TagPublicKey, idX.Pub), refctl.T(refctl.TagPermission, []byte{1}))
	case "pairings-remove-L":
		return "/pairings", refctl.CTPairing, refctl.TLVEncode(refctl.T(refctl.TagState, []byte{1}), refctl.T(refctl.TagMethod, []byte{4}), refctl.T(refctl.TagIdentifier, []byte(idL.ID)))
	}
	return "/resource", refctl.CTJSON, []byte(`{"resource-type":"image","image-width":2,"image-height":2}`)
}

// c01LeftOver: what the accessory still owes a verified controller does not reach whoever connects next. L subscribes
// to the bulb; the application lets the bulb follow the switch; L writes the switch with "Connection: close" — the
// EVENT for the bulb becomes due while L's own request is being answered and the connection goes away right after
// the response. Connections opened afterwards by somebody who has not verified get refusals and nothing else.
func c01LeftOver(c *fw.Ctx) {
	c.Eval(1)
	cas := c01Case{Hist: []string{"left-over-notification"}}
	b, err := newBed(c, bedOpt{Seed: []refctl.Identity{idL}, Snapshot: true})
	if err != nil {
		c.Infra("bed: " + err.Error())
		return
	}
	defer b.Close()
	b.Switch.Switch.On.OnValueRemoteUpdate(func(v bool) { b.Bulb.Lightbulb.On.SetValue(v) })
	l, err := b.Dial()
	if err != nil {
		c.Infra(err.Error())
		return
	}
	if _, ec, err := refctl.PairVerify(l, idL, refctl.Seed32("c01-leftover"), b.AccLTPK); err != nil || ec != 0 {
		c.Infra(fmt.Sprintf("verify: %v %d", err, ec))
		return
	}
	aid, iid := b.SwitchOn()
	baid, biid := b.Bulb.Accessory.ID, b.Bulb.Lightbulb.On.ID
	if m, _, err := l.Do("PUT", "/characteristics", refctl.CTJSON, []byte(fmt.Sprintf(`{"characteristics":[{"aid":%d,"iid":%d,"ev":true}]}`, baid, biid))); err != nil || m.Status/100 != 2 {
		c.Infra(fmt.Sprintf("subscribe: %v %v", m, err))
		return
	}
	body := fmt.Sprintf(`{"characteristics":[{"aid":%d,"iid":%d,"value":true}]}`, aid, iid)
	req := fmt.Sprintf("PUT /characteristics HTTP/1.1\r\nHost: accessory.local\r\nConnection: close\r\nContent-Type: %s\r\nContent-Length: %d\r\n\r\n%s", refctl.CTJSON, len(body), body)
	if err := l.Send([]byte(req)); err != nil {
		c.Infra(err.Error())
		return
	}
	l.Await()
	time.Sleep(20 * time.Millisecond)
	l.Close()
	for i := 0; i < 4; i++ {
		x, err := b.Dial()
		if err != nil {
			c.Infra(err.Error())
			return
		}
		x.Timeout = 2 * time.Second
		for j := 0; j < 2; j++ {
			m, evs, err := x.Do("GET", "/accessories", "", nil)
			if err != nil {
				break
			}
			if len(evs) > 0 || m.Status/100 == 2 || hasCanary(m.Body) {
				c.Report("left-over-reaches-next-connection", fmt.Sprintf("connection %d opened after a subscribed controller had gone received %d EVENT message(s) (status of its own request: %d): %q", i, len(evs), m.Status, trunc(append([]byte{}, firstBody(evs)...), 80)), cas)
				return
			}
		}
		// anything that arrives unasked within a moment
		x.C.SetReadDeadline(time.Now().Add(60 * time.Millisecond))
		if m, err := x.ReadMsg(); err == nil {
			c.Report("left-over-reaches-next-connection", fmt.Sprintf("connection %d opened after a subscribed controller had gone received an unasked message: %q", i, trunc(m.Body, 80)), cas)
			return
		}
		x.Close()
	}
	c.Class("left-over-notification")
}

func firstBody(evs []*refctl.Msg) []byte {
	if len(evs) == 0 {
		return nil
	}
	return evs[0].Body
}

func c01Run1(c *fw.Ctx) {
	if c.Shard == 3%c.NShards {
		c01LeftOver(c)
	}
	// every protected target × every HTTP method (9, including ones HAP does not use, a lower-case and an unknown
	// one), from the initial state and after L has verified and subscribed, followed by a change made by the application
	// fixed short histories around two more adversary operations
	for i, h := range [][]string{
		{"X1:return-from-own-port-while-old-handler-runs", "X1:get-accessories", "X1:pairings-add"},
		{"X1:return-from-own-port-while-identify-runs", "X1:get-accessories", "X1:pairings-add"},
		{"L:verify", "L:subscribe", "X1:return-from-own-port-while-identify-runs", "app:set", "X1:get-accessories", "X1:put-value", "X1:pairings-remove-L"},
		{"L:verify", "L:subscribe", "X1:return-from-own-port-while-old-handler-runs", "app:set", "X1:get-accessories", "X1:put-value"},
		{"X1:get-accessories", "X1:return-from-own-port-while-old-handler-runs", "X1:get-characteristics"},
		{"X1:finish-naming-accessory-signed-with-zero-seed-key-then-ciphertext"},
		{"X1:forged-finish-naming-L-with-own-key-item-then-ciphertext"},
		{"L:verify", "L:subscribe", "X1:forged-finish-naming-L-with-own-key-item-then-ciphertext", "app:set"},
		{"L:verify", "X1:finish-naming-accessory-signed-with-zero-seed-key-then-ciphertext", "app:set"},
	} {
		if i%c.NShards == c.Shard {
			c01Exec(c, h)
		}
	}
	n := 0
	for _, t := range c01Targets {
		for _, m := range c01Methods {
			n++
			if n%c.NShards != c.Shard {
				continue
			}
			sym := "X1:any:" + m + ":" + t
			c01Exec(c, []string{sym, "app:set"})
			c01Exec(c, []string{"L:verify", "L:subscribe", sym, "app:set", "X1:" + "any:" + m + ":accessories"})
		}
	}
	{
		interfRun(c, "C01") // statement-level interleavings of handlers / connection users (subprocess)
	}
	// quick: 29 symbols to depth 3. thorough: the same 29 symbols to depth 4, and the full alphabet (the second
	// adversary connection with every operation, 39 symbols) to depth 3.
	alpha := c01Alphabet(false)
	depth := 3
	if c.Thorough() {
		depth = 4
		full := c01Alphabet(true)
		exploreTree(c, len(full), 3, func(h []int) bool {
			if len(h) < 3 {
				return false
			}
			var hist []string
			for _, s := range h {
				hist = append(hist, full[s])
			}
			c01Exec(c, hist)
			return false
		})
	}
	if c.Shard == 0 {
		c.Extra("depth_bound_completed", int64(depth))
		c.Extra("alphabet_size", int64(len(alpha)))
	}
	sampled := 0
	exploreTree(c, len(alpha), depth, func(h []int) bool {
		if len(h) < depth {
			return false // the oracle runs after every event: prefixes are judged inside their extensions
		}
		var hist []string
		for _, s := range h {
			hist = append(hist, alpha[s])
		}
		if sampled < 2 {
			c.Sample(hist)
			sampled++
		}
		c01Exec(c, hist)
		return false
	})
	// the same alphabet from non-initial states (one level shallower)
	for _, pre := range c01Prefixes {
		pre := pre
		exploreTree(c, len(alpha), depth-1, func(h []int) bool {
			if len(h) < depth-1 {
				return false
			}
			hist := append([]string{}, pre...)
			for _, s := range h {
				hist = append(hist, alpha[s])
			}
			c01Exec(c, hist)
			return false
		})
	}
}

// non-initial states: L verified and subscribed (with an adversary connection already open / not yet open)
var c01Prefixes = [][]string{
	{"L:verify", "L:subscribe"},
	{"X1:get-characteristics", "X2:verify-start", "L:verify", "L:subscribe", "L:put-change"},
}

func init() {
	fw.Register(&fw.Check{
		ID:    "C01",
		Level: "model_checking",
		Rule:  "every history of length 3 (quick) / 4 (thorough) over 30 symbols, in thorough also every history of length 3 over 41 symbols (second adversary connection with every operation), and every history of length 2 / 3 from two non-initial states (L verified and subscribed; the same with adversary connections already open and a value changed): two adversary connections X1, X2 (plaintext GET /accessories, GET /characteristics, PUT value, PUT ev, POST /resource, POST /pairings add / remove, pair-verify start, forged and zero-key finish, pair-setup start, wrong-code verify and a key exchange under the all-zero key with the neutral group element as long-term key, a request sealed under keys derived from its own exchange, a fresh exchange finished with a correctly sealed message naming L or the accessory itself under the adversary's signature and at once followed by ciphertext under that exchange's keys, reopen, reconnect from exactly the source address and port the legitimate controller used; and every protected target — attribute database, characteristic read / write / subscribe, pairing add / remove, resource — with each of 9 HTTP methods including DELETE, PATCH, OPTIONS, TRACE, a lower-case and an unknown one; fixed histories in which the adversary resets a connection whose handler is still running and returns from the same source port, and in which it finishes pair-verify under the accessory's own name with the Ed25519 key of the all-zero seed, or under L's name with its own public key as an extra item of the signed payload; and one where an EVENT owed to a subscribed controller whose connection closes right after its response must not reach the connections opened next), a legitimate controller L (verify, changing write, subscribe, close, and a pair-verify whose finish request is split with Expect: 100-continue so that its handler overlaps with the events that follow) and the application (set value), against the real transport (with /resource registered) over TCP, fresh system per history. After EVERY event: each protected operation on a connection the model holds as unverified is refused (status not 2xx, body discloses no attribute, value or canary — checked as plaintext and after decryption under every key the adversary holds), no EVENT precedes a barrier request on any adversary connection, characteristic values / every application callback counter / stored pairings are exactly what the model says; at the end of every history L (if verified) must still be served and every live adversary connection must still answer in plaintext, refuse, and not serve ciphertext under its own exchange keys. states = histories executed (each judges all its prefixes) Plus, in a subprocess built with a scheduling point before EVERY statement of hc's packages (textual insertion through go build -overlay): every interleaving with at most 1 (thorough 2) preemptions of pairs of handlers / users of connections on one accessory (a verified and a newly accepted unverified connection; two writers, a writer and the reader of one encrypted connection, writers on two connections) — each side must observe exactly what it observes when the two run one after the other.",
		Run:   c01Run1,
		Replay: func(c *fw.Ctx, raw json.RawMessage) {
			var cas c01Case
			json.Unmarshal(raw, &cas)
			if len(cas.Hist) == 1 && cas.Hist[0] == "left-over-notification" {
				c01LeftOver(c)
				return
			}
			c01Exec(c, cas.Hist)
		},
		Budget: func(t string) time.Duration {
			if t == "thorough" {
				return 25 * time.Minute
			}
			return 4 * time.Minute
		},
		Assumptions: []string{"the adversary's key knowledge is what it can derive from its own X25519 exchanges and guesses; it does not hold L's long-term key or the setup code", "/identify is served to anybody by design and is not part of the protected set"},
	})
}
