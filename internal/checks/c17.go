package checks

import (
	"bytes"
	"encoding/binary"
	"encoding/json"
	"fmt"
	"math"
	"reflect"
	"strconv"
	"strings"
	"sync"
	"time"

	"github.com/brutella/hc/rtp"
	"github.com/brutella/hc/tlv8"

	"verif/internal/fw"
	"verif/internal/refctl"
)

// C17 — struct TLV8 marshalling round-trips and matches the wire encoding.

// ---- synthetic structs covering every field kind -------------------------------------------------

type c17Elem struct {
	Id   uint8  `tlv8:"1"`
	Name string `tlv8:"2"`
}
type c17Nested struct {
	A uint16 `tlv8:"1"`
	B []byte `tlv8:"2"`
	C bool   `tlv8:"3"`
}
type C17AllKinds struct {
	U8  uint8     `tlv8:"1"`
	U16 uint16    `tlv8:"2"`
	U32 uint32    `tlv8:"3"`
	U64 uint64    `tlv8:"4"`
	I16 int16     `tlv8:"5"`
	I32 int32     `tlv8:"6"`
	I64 int64     `tlv8:"7"`
	F32 float32   `tlv8:"8"`
	B   bool      `tlv8:"9"`
	S   string    `tlv8:"10"`
	Bs  []byte    `tlv8:"11"`
	N   c17Nested `tlv8:"12"`
	L   []c17Elem `tlv8:"13"`
}
type C17Inline struct {
	Head  uint8     `tlv8:"9"`
	Items []c17Elem `tlv8:"-"`
}
type c17Big struct {
	Blob []byte `tlv8:"1"`
	K    uint8  `tlv8:"2"`
}

// tags over the whole byte range: 0x7f / 0x80 (signed-byte boundary), 0xfe and 0xff (0 is the list separator)
type c17HighElem struct {
	X uint8  `tlv8:"129"`
	Y string `tlv8:"250"`
}
type C17HighTags struct {
	A uint8         `tlv8:"126"`
	B uint16        `tlv8:"127"`
	C uint8         `tlv8:"128"`
	D string        `tlv8:"200"`
	E []byte        `tlv8:"254"`
	F uint32        `tlv8:"255"`
	L []c17HighElem `tlv8:"131"`
}

// tag 0 is an ordinary tag for a field (only a 0-tagged item of length 0 separates list elements)
type C17TagZero struct {
	Z []byte `tlv8:"0"`
	K uint8  `tlv8:"1"`
}
type C17TagZeroString struct {
	K uint8  `tlv8:"1"`
	S string `tlv8:"0"`
}

// an inline list whose elements begin with a field that is not encoded when empty
type c17NameFirst struct {
	Name string `tlv8:"1"`
	Id   uint8  `tlv8:"2"`
}
type C17InlineNameFirst struct {
	Head  uint8          `tlv8:"9"`
	Items []c17NameFirst `tlv8:"-"`
}
type C17BigList struct {
	L []c17Big `tlv8:"5"`
	T uint8    `tlv8:"6"`
}

// ---- reference encoder -------------------------------------------------------------------------------

func c17Frag(tag byte, v []byte) []byte {
	if len(v) == 0 {
		return nil // an empty value is left out (a "tag 00" item would be equivalent for any decoder)
	}
	return refctl.TLVEncode(refctl.Item{Tag: tag, Val: v})
}

func c17RefEncode(v reflect.Value) []byte {
	if v.Kind() == reflect.Ptr {
		v = v.Elem()
	}
	var out []byte
	t := v.Type()
	for i := 0; i < t.NumField(); i++ {
		tg, ok := t.Field(i).Tag.Lookup("tlv8")
		if !ok {
			continue
		}
		f := v.Field(i)
		if tg == "-" {
			for k := 0; k < f.Len(); k++ {
				if k > 0 {
					out = append(out, 0, 0)
				}
				out = append(out, c17RefEncode(f.Index(k))...)
			}
			continue
		}
		n, _ := strconv.Atoi(strings.Split(tg, ",")[0])
		tag := byte(n)
		le := func(width int, u uint64) []byte {
			b := make([]byte, 8)
			binary.LittleEndian.PutUint64(b, u)
			return b[:width]
		}
		switch f.Kind() {
		case reflect.Uint8:
			out = append(out, tag, 1, byte(f.Uint()))
		case reflect.Bool:
			b := byte(0)
			if f.Bool() {
				b = 1
			}
			out = append(out, tag, 1, b)
		case reflect.Uint16:
			out = append(out, c17Frag(tag, le(2, f.Uint()))...)
		case reflect.Uint32:
			out = append(out, c17Frag(tag, le(4, f.Uint()))...)
		case reflect.Uint64:
			out = append(out, c17Frag(tag, le(8, f.Uint()))...)
		case reflect.Int16:
			out = append(out, c17Frag(tag, le(2, uint64(f.Int())))...)
		case reflect.Int32:
			out = append(out, c17Frag(tag, le(4, uint64(f.Int())))...)
		case reflect.Int64:
			out = append(out, c17Frag(tag, le(8, uint64(f.Int())))...)
		case reflect.Float32:
			out = append(out, c17Frag(tag, le(4, uint64(math.Float32bits(float32(f.Float())))))...)
		case reflect.String:
			out = append(out, c17Frag(tag, []byte(f.String()))...)
		case reflect.Struct, reflect.Ptr:
			out = append(out, c17Frag(tag, c17RefEncode(f))...)
		case reflect.Slice:
			if f.Type().Elem().Kind() == reflect.Uint8 {
				out = append(out, c17Frag(tag, f.Bytes())...)
				continue
			}
			for k := 0; k < f.Len(); k++ {
				if k > 0 {
					out = append(out, 0, 0)
				}
				out = append(out, c17Frag(tag, c17RefEncode(f.Index(k)))...)
			}
		}
	}
	return out
}

// ---- value generation -----------------------------------------------------------------------------------

type c17Alt struct {
	Label string
	V     reflect.Value
}

type c17Leaf struct {
	Path []int // field / element indices
	Ctx  string
	Kind string
	Alts []c17Alt
}

func c17AltsFor(t reflect.Type) []c17Alt {
	mk := func(label string, v interface{}) c17Alt {
		return c17Alt{label, reflect.ValueOf(v).Convert(t)}
	}
	switch t.Kind() {
	case reflect.Uint8:
		return []c17Alt{mk("0", uint8(0)), mk("1", uint8(1)), mk("max", uint8(255))}
	case reflect.Bool:
		return []c17Alt{mk("false", false), mk("true", true)}
	case reflect.Uint16:
		return []c17Alt{mk("0", uint16(0)), mk("1", uint16(1)), mk("255", uint16(255)), mk("256", uint16(256)), mk("max", uint16(65535))}
	case reflect.Uint32:
		return []c17Alt{mk("0", uint32(0)), mk("1", uint32(1)), mk("65535", uint32(65535)), mk("65536", uint32(65536)), mk("max", uint32(math.MaxUint32))}
	case reflect.Uint64:
		return []c17Alt{mk("0", uint64(0)), mk("1", uint64(1)), mk("2^32-1", uint64(math.MaxUint32)), mk("2^32", uint64(1)<<32), mk("max", uint64(math.MaxUint64))}
	case reflect.Int16:
		return []c17Alt{mk("0", int16(0)), mk("1", int16(1)), mk("-1", int16(-1)), mk("min", int16(math.MinInt16)), mk("max", int16(math.MaxInt16)), mk("200", int16(200))}
	case reflect.Int32:
		return []c17Alt{mk("0", int32(0)), mk("1", int32(1)), mk("-1", int32(-1)), mk("min", int32(math.MinInt32)), mk("max", int32(math.MaxInt32)), mk("65536", int32(65536)), mk("200", int32(200))}
	case reflect.Int64:
		return []c17Alt{mk("0", int64(0)), mk("1", int64(1)), mk("-1", int64(-1)), mk("2^32", int64(1)<<32), mk("min", int64(math.MinInt64)), mk("max", int64(math.MaxInt64)), mk("70000", int64(70000))}
	case reflect.Float32:
		return []c17Alt{mk("0", float32(0)), mk("1.5", float32(1.5)), mk("-2.25", float32(-2.25)), mk("max", float32(math.MaxFloat32)), mk("tiny", float32(math.SmallestNonzeroFloat32))}
	case reflect.String:
		return []c17Alt{mk("empty", ""), mk("a", "a"), mk("len255", strings.Repeat("x", 255)), mk("len256", strings.Repeat("y", 256)), mk("len600", strings.Repeat("z", 600)), mk("utf8", "héllo✓"),
			// multi-byte characters lying across the 255-byte fragment boundary: fragments are cut by bytes, not by characters
			mk("2-byte-rune-across-255", strings.Repeat("x", 254)+"é-tail"), mk("3-byte-rune-across-255", strings.Repeat("x", 253)+"✓-tail"),
			// a Go string is a byte string: bytes that are not valid UTF-8 travel unchanged
			mk("invalid-utf8", "caf\xe9 \xff\xfe \xed\xa0\x80")}
	case reflect.Slice:
		if t.Elem().Kind() == reflect.Uint8 {
			return []c17Alt{mk("nil", []byte(nil)), mk("one-zero", []byte{0}), mk("len255", pat(255, 3)), mk("len256", pat(256, 4)), mk("len600", pat(600, 5)), mk("zeros16", make([]byte, 16))}
		}
	}
	return nil
}

// c17Base fills v with typical non-zero values (slices of structs get two distinct elements).
func c17Base(v reflect.Value, seed *int) {
	*seed++
	s := *seed
	switch v.Kind() {
	case reflect.Uint8, reflect.Uint16, reflect.Uint32, reflect.Uint64:
		v.SetUint(uint64(2 + s%100))
	case reflect.Int16, reflect.Int32, reflect.Int64:
		v.SetInt(int64(3 + s%100))
	case reflect.Float32:
		v.SetFloat(float64(float32(0.5 + float64(s%7))))
	case reflect.Bool:
		v.SetBool(true)
	case reflect.String:
		v.SetString(fmt.Sprintf("s%d", s))
	case reflect.Struct:
		for i := 0; i < v.NumField(); i++ {
			if _, ok := v.Type().Field(i).Tag.Lookup("tlv8"); ok {
				c17Base(v.Field(i), seed)
			}
		}
	case reflect.Slice:
		if v.Type().Elem().Kind() == reflect.Uint8 {
			v.SetBytes([]byte{byte(s), byte(s + 1), byte(s + 2)})
			return
		}
		sl := reflect.MakeSlice(v.Type(), 2, 2)
		c17Base(sl.Index(0), seed)
		c17Base(sl.Index(1), seed)
		v.Set(sl)
	}
}

func c17Leaves(v reflect.Value, path []int, ctx string, out *[]c17Leaf) {
	switch v.Kind() {
	case reflect.Struct:
		for i := 0; i < v.NumField(); i++ {
			tg, ok := v.Type().Field(i).Tag.Lookup("tlv8")
			if !ok {
				continue
			}
			f := v.Field(i)
			p := append(append([]int{}, path...), i)
			if f.Kind() == reflect.Slice && f.Type().Elem().Kind() != reflect.Uint8 {
				lctx := "list"
				if tg == "-" {
					lctx = "inline"
				}
				// list length alternatives
				var alts []c17Alt
				for _, n := range []int{0, 1, 3} {
					sl := reflect.MakeSlice(f.Type(), n, n)
					for k := 0; k < n; k++ {
						sl.Index(k).Set(c17Copy(f.Index(k % f.Len())))
					}
					alts = append(alts, c17Alt{fmt.Sprintf("len%d", n), sl})
				}
				*out = append(*out, c17Leaf{Path: p, Ctx: ctx, Kind: lctx, Alts: alts})
				for k := 0; k < f.Len(); k++ {
					c17Leaves(f.Index(k), append(append([]int{}, p...), k), lctx+"-element", out)
				}
				continue
			}
			c17Leaves(f, p, ctx, out)
		}
	default:
		if alts := c17AltsFor(v.Type()); alts != nil {
			k := v.Kind().String()
			if v.Kind() == reflect.Slice {
				k = "bytes"
			}
			*out = append(*out, c17Leaf{Path: path, Ctx: ctx, Kind: k, Alts: alts})
		}
	}
}

func c17Copy(v reflect.Value) reflect.Value {
	n := reflect.New(v.Type()).Elem()
	switch v.Kind() {
	case reflect.Struct:
		for i := 0; i < v.NumField(); i++ {
			if n.Field(i).CanSet() {
				n.Field(i).Set(c17Copy(v.Field(i)))
			}
		}
	case reflect.Slice:
		if v.IsNil() {
			return n
		}
		s := reflect.MakeSlice(v.Type(), v.Len(), v.Len())
		for i := 0; i < v.Len(); i++ {
			s.Index(i).Set(c17Copy(v.Index(i)))
		}
		n.Set(s)
	default:
		n.Set(v)
	}
	return n
}

func c17At(v reflect.Value, path []int) reflect.Value {
	for _, i := range path {
		if v.Kind() == reflect.Slice {
			v = v.Index(i)
		} else {
			v = v.Field(i)
		}
	}
	return v
}

// c17Equal compares ignoring nil-vs-empty.
func c17Equal(a, b reflect.Value) bool {
	switch a.Kind() {
	case reflect.Struct:
		for i := 0; i < a.NumField(); i++ {
			if _, ok := a.Type().Field(i).Tag.Lookup("tlv8"); !ok {
				continue
			}
			if !c17Equal(a.Field(i), b.Field(i)) {
				return false
			}
		}
		return true
	case reflect.Slice:
		if a.Len() != b.Len() {
			return false
		}
		for i := 0; i < a.Len(); i++ {
			if !c17Equal(a.Index(i), b.Index(i)) {
				return false
			}
		}
		return true
	case reflect.Float32, reflect.Float64:
		return math.Float64bits(a.Float()) == math.Float64bits(b.Float())
	default:
		return reflect.DeepEqual(a.Interface(), b.Interface())
	}
}

// Two struct types with the same name (declared in two functions, as two packages called alike would do) and different
// tags, both used as elements of inline lists in one process.
// c17SameShape: the same number of elements in every list of structs.
func c17SameShape(a, b reflect.Value) bool {
	switch a.Kind() {
	case reflect.Struct:
		for i := 0; i < a.NumField(); i++ {
			if !c17SameShape(a.Field(i), b.Field(i)) {
				return false
			}
		}
	case reflect.Slice:
		if a.Type().Elem().Kind() == reflect.Uint8 {
			return true
		}
		if a.Len() != b.Len() {
			return false
		}
		for i := 0; i < a.Len(); i++ {
			if !c17SameShape(a.Index(i), b.Index(i)) {
				return false
			}
		}
	}
	return true
}

func c17LocalA() reflect.Type {
	type Elem struct {
		X uint8 `tlv8:"1"`
	}
	type Wrap struct {
		Head  uint8  `tlv8:"9"`
		Items []Elem `tlv8:"-"`
	}
	return reflect.TypeOf(Wrap{})
}

func c17LocalB() reflect.Type {
	type Elem struct {
		Y uint8  `tlv8:"7"`
		Z uint16 `tlv8:"8"`
	}
	type Wrap struct {
		Head  uint8  `tlv8:"9"`
		Items []Elem `tlv8:"-"`
	}
	return reflect.TypeOf(Wrap{})
}

type c17Target struct {
	Name string
	Type reflect.Type
}

func c17Targets() []c17Target {
	return []c17Target{
		{"AllKinds", reflect.TypeOf(C17AllKinds{})},
		{"Inline", reflect.TypeOf(C17Inline{})},
		{"BigList", reflect.TypeOf(C17BigList{})},
		{"HighTags", reflect.TypeOf(C17HighTags{})},
		{"TagZero", reflect.TypeOf(C17TagZero{})},
		{"TagZeroString", reflect.TypeOf(C17TagZeroString{})},
		{"InlineNameFirst", reflect.TypeOf(C17InlineNameFirst{})},
		{"LocalInlineA", c17LocalA()},
		{"LocalInlineB", c17LocalB()},
		{"rtp.SetupEndpoints", reflect.TypeOf(rtp.SetupEndpoints{})},
		{"rtp.SetupEndpointsResponse", reflect.TypeOf(rtp.SetupEndpointsResponse{})},
		{"rtp.StreamConfiguration", reflect.TypeOf(rtp.StreamConfiguration{})},
		{"rtp.VideoStreamConfiguration", reflect.TypeOf(rtp.VideoStreamConfiguration{})},
		{"rtp.AudioStreamConfiguration", reflect.TypeOf(rtp.AudioStreamConfiguration{})},
		{"rtp.Configuration", reflect.TypeOf(rtp.Configuration{})},
		{"rtp.StreamingStatus", reflect.TypeOf(rtp.StreamingStatus{})},
	}
}

type c17Dev struct {
	Leaf int `json:"leaf"`
	Alt  int `json:"alt"`
}
type c17Case struct {
	Kind   string   `json:"kind"` // roundtrip | decode
	Target string   `json:"target"`
	Devs   []c17Dev `json:"devs,omitempty"`
	Labels []string `json:"labels,omitempty"`
	Input  []byte   `json:"input,omitempty"`
	Sub    string   `json:"sub,omitempty"`
}

func c17BaseValue(t reflect.Type) reflect.Value {
	v := reflect.New(t).Elem()
	seed := 0
	c17Base(v, &seed)
	if t == reflect.TypeOf(C17BigList{}) { // list elements longer than one fragment
		l := v.Field(0)
		l.Index(0).Field(0).SetBytes(pat(300, 1))
		l.Index(1).Field(0).SetBytes(pat(300, 2))
	}
	return v
}

// c17Roundtrip returns the failing symptom ("" = ok).
func c17Roundtrip(c *fw.Ctx, tg c17Target, devs []c17Dev, report bool) string {
	c.Eval(1)
	v := c17BaseValue(tg.Type)
	var leaves []c17Leaf
	c17Leaves(v, nil, "plain", &leaves)
	var labels []string
	sigDev := ""
	for _, d := range devs {
		lf := leaves[d.Leaf]
		c17At(v, lf.Path).Set(c17Copy(lf.Alts[d.Alt].V))
		labels = append(labels, fmt.Sprintf("%v=%s", lf.Path, lf.Alts[d.Alt].Label))
		sigDev += fmt.Sprintf("%s:%s=%s+", lf.Ctx, lf.Kind, lf.Alts[d.Alt].Label)
	}
	if sigDev == "" {
		sigDev = tg.Name + ":base"
	}
	cas := c17Case{Kind: "roundtrip", Target: tg.Name, Devs: devs, Labels: labels}
	c.Breadcrumb("roundtrip-fatal/"+sigDev, tg.Name+" "+strings.Join(labels, " ")+": Marshal / Unmarshal neither returns nor panics: it takes the process down", cas)
	// every call into the library runs under a liveness guard: code that does not return (and may go on allocating)
	// is reported and ends this worker
	timed := func(f func()) interface{} {
		done := make(chan interface{}, 1)
		go func() { done <- guard(f) }()
		select {
		case p := <-done:
			return p
		case <-time.After(30 * time.Second):
			c.Report("roundtrip-hang/"+sigDev, tg.Name+" "+strings.Join(labels, " ")+": Marshal / Unmarshal does not return within 30 s", cas)
			c.Abort()
			return "hang"
		}
	}
	fail := func(sym, desc string) string {
		if report {
			// report the 1-minimal failing subset of deviations, so that the signature names the cause
			for i := range devs {
				if len(devs) < 2 {
					break
				}
				sub := append(append([]c17Dev{}, devs[:i]...), devs[i+1:]...)
				if c17Roundtrip(c, tg, sub, false) != "" {
					c.Eval(-1)
					return c17Roundtrip(c, tg, sub, true)
				}
				c.Eval(-1)
			}
			c.Report(sym+"/"+sigDev, tg.Name+" "+strings.Join(labels, " ")+": "+desc, cas)
		}
		return sym
	}
	var enc []byte
	var err error
	if p := timed(func() { enc, err = tlv8.Marshal(v.Interface()) }); p != nil {
		return fail("marshal-panic", fmt.Sprintf("Marshal panics: %v", p))
	}
	if err != nil {
		return fail("marshal-error", "Marshal fails: "+err.Error())
	}
	want := c17RefEncode(v)
	// the returned bytes belong to the caller: a later Marshal of another value must not change them
	encCopy := append([]byte{}, enc...)
	if p := timed(func() {
		other := c17BaseValue(tg.Type)
		tlv8.Marshal(other.Interface())
		tlv8.Marshal(C17AllKinds{S: strings.Repeat("Z", 700)})
	}); p == nil && !bytes.Equal(enc, encCopy) {
		return fail("marshal-result-overwritten", "the bytes returned by Marshal changed when Marshal was called again for another value")
	}
	if !bytes.Equal(enc, want) {
		return fail("wire-differs", fmt.Sprintf("encoded bytes differ from the little-endian TLV8 reference (got %d bytes, reference %d)", len(enc), len(want)))
	}
	back := reflect.New(tg.Type)
	if p := timed(func() { err = tlv8.Unmarshal(enc, back.Interface()) }); p != nil {
		return fail("unmarshal-panic", fmt.Sprintf("Unmarshal of Marshal's output panics: %v", p))
	}
	if err != nil {
		return fail("unmarshal-error", "Unmarshal of Marshal's output fails: "+err.Error())
	}
	if !c17Equal(v, back.Elem()) {
		if !c17SameShape(v, back.Elem()) {
			return fail("roundtrip-list-length-differs", "Unmarshal(Marshal(v)) has lists of other lengths than v: elements were lost or invented")
		}
		return fail("roundtrip-differs", "Unmarshal(Marshal(v)) != v")
	}
	// the input belongs to the caller: Unmarshal must not modify it, and decoding it again gives the same value
	if !bytes.Equal(enc, want) {
		return fail("unmarshal-modifies-input", "Unmarshal changed the bytes it was given")
	}
	again := reflect.New(tg.Type)
	if p := timed(func() { err = tlv8.Unmarshal(enc, again.Interface()) }); p != nil || err != nil || !c17Equal(v, again.Elem()) {
		return fail("second-unmarshal-differs", fmt.Sprintf("decoding the same bytes a second time fails or gives another value (%v %v)", p, err))
	}
	c.Class("roundtrip:" + tg.Name)
	return ""
}

type c17AfterError struct{ msg string }

type c17Ref struct {
	val reflect.Value
	enc []byte
}

var (
	c17Refs  = map[string]*c17Ref{}
	c17RefMu sync.Mutex
)

// c17Reference returns the base value of a target type with its encoding, if that round-trips in this process
// before anything else was decoded (checked once, at first use).
func c17Reference(tg c17Target) (*c17Ref, bool) {
	c17RefMu.Lock()
	defer c17RefMu.Unlock()
	if r, ok := c17Refs[tg.Name]; ok {
		return r, r != nil
	}
	v := c17BaseValue(tg.Type)
	enc, err := tlv8.Marshal(v.Interface())
	back := reflect.New(tg.Type)
	if err != nil || tlv8.Unmarshal(enc, back.Interface()) != nil || !c17Equal(v, back.Elem()) {
		c17Refs[tg.Name] = nil
		return nil, false
	}
	c17Refs[tg.Name] = &c17Ref{val: v, enc: enc}
	return c17Refs[tg.Name], true
}

func c17Decode(c *fw.Ctx, tg c17Target, in []byte, sub string) {
	c.Eval(1)
	cas := c17Case{Kind: "decode", Target: tg.Name, Input: in, Sub: sub}
	c.Breadcrumb("decode-fatal/"+tg.Name+"/"+sub, fmt.Sprintf("Unmarshal of %d bytes into %s neither returns nor panics: it takes the process down", len(in), tg.Name), cas)
	done := make(chan interface{}, 1)
	go func() {
		var err error
		p := guard(func() { err = tlv8.Unmarshal(in, reflect.New(tg.Type).Interface()) })
		if p != nil {
			done <- p
			return
		}
		if err != nil {
			// a rejected input must leave nothing behind: the next, well-formed message decodes as it does in a fresh
			// process (the reference message of this type, whose round trip was verified at start-up)
			if ref, ok := c17Reference(tg); ok {
				back := reflect.New(tg.Type)
				var e2 error
				if p2 := guard(func() { e2 = tlv8.Unmarshal(ref.enc, back.Interface()) }); p2 != nil || e2 != nil || !c17Equal(ref.val, back.Elem()) {
					done <- c17AfterError{fmt.Sprintf("after this rejected input the well-formed reference message of %s no longer decodes to its value (panic %v, error %v)", tg.Name, p2, e2)}
					return
				}
			}
		}
		done <- nil
	}()
	select {
	case p := <-done:
		if ae, ok := p.(c17AfterError); ok {
			c.Report("decode-after-rejected-input/"+tg.Name, ae.msg, cas)
			return
		}
		if p != nil {
			msg := fmt.Sprint(p)
			site := "other"
			switch {
			case strings.Contains(msg, "index out of range"):
				site = "index-out-of-range"
			case strings.Contains(msg, "slice bounds"):
				site = "slice-bounds"
			case strings.Contains(msg, "reflect"):
				site = "reflect"
			}
			c.Report("decode-panic/"+site+"/"+tg.Name+"/"+sub, fmt.Sprintf("Unmarshal into %s panics: %v", tg.Name, p), cas)
			return
		}
		c.Class("decode:" + tg.Name + ":" + sub)
	case <-time.After(10 * time.Second):
		// liveness guard: re-run alone before believing it
		again := make(chan bool, 1)
		go func() {
			guard(func() { tlv8.Unmarshal(in, reflect.New(tg.Type).Interface()) })
			again <- true
		}()
		select {
		case <-again:
		case <-time.After(20 * time.Second):
			c.Report("decode-hang/"+tg.Name+"/"+sub, "Unmarshal does not return", cas)
		}
	}
}

// c17Layout: which field of which RTP message type travels under which tag. The reference encoder reads the tags from
// the struct definitions, so it follows a field that is moved to another tag; a peer does not. The table is the layout
// of the pinned tree — the one HomeKit controllers interoperate with (HAP "Setup Endpoints", "Selected / Supported RTP
// Stream Configuration", "Streaming Status"). A field, a tag or a type that is not in it is reported.
var c17Layout = map[string]map[string]string{
	"Addr":                     {"IPVersion": "1", "IPAddr": "2", "VideoRtpPort": "3", "AudioRtpPort": "4"},
	"AudioCodecConfiguration":  {"Type": "1", "Parameters": "2"},
	"AudioCodecParameters":     {"Channels": "1", "Bitrate": "2", "Samplerate": "3"},
	"AudioParameters":          {"CodecType": "1", "CodecParams": "2", "RTP": "3", "ComfortNoise": "4"},
	"AudioStreamConfiguration": {"Codecs": "1", "ComfortNoise": "2"},
	"Configuration":            {"Suites": "-"},
	"CryptoSuite":              {"Type": "1", "MasterKey": "2", "MasterSalt": "3"},
	"RTPParams":                {"PayloadType": "1", "Ssrc": "2", "Bitrate": "3", "Interval": "4", "ComfortNoisePayloadType": "5", "MTU": "6"},
	"SessionControlCommand":    {"Identifier": "1", "Type": "2"},
	"SetupEndpoints":           {"SessionId": "1", "ControllerAddr": "3", "Video": "4", "Audio": "5"},
	"SetupEndpointsResponse":   {"SessionId": "1", "Status": "2", "AccessoryAddr": "3", "Video": "4", "Audio": "5", "SsrcVideo": "6", "SsrcAudio": "7"},
	"StreamConfiguration":      {"Command": "1", "Video": "2", "Audio": "3"},
	"StreamingStatus":          {"Status": "1"},
	"SupportedCryptoSuite":     {"Type": "2"},
	"VideoCodecAttributes":     {"Width": "1", "Height": "2", "Framerate": "3"},
	"VideoCodecConfiguration":  {"Type": "1", "Parameters": "2", "Attributes": "3"},
	"VideoCodecLevel":          {"Level": "2"},
	"VideoCodecPacketization":  {"Mode": "3"},
	"VideoCodecParameters":     {"Profiles": "-", "Levels": "-", "Packetizations": "-"},
	"VideoCodecProfile":        {"Id": "1"},
	"VideoParameters":          {"CodecType": "1", "CodecParams": "2", "Attributes": "3", "RTP": "4"},
	"VideoStreamConfiguration": {"Codecs": "1"},
}

func c17CheckLayout(c *fw.Ctx) {
	seen := map[string]bool{}
	var walk func(t reflect.Type)
	walk = func(t reflect.Type) {
		for t.Kind() == reflect.Ptr || t.Kind() == reflect.Slice {
			t = t.Elem()
		}
		if t.Kind() != reflect.Struct || seen[t.Name()] || t.PkgPath() != "github.com/brutella/hc/rtp" {
			return
		}
		seen[t.Name()] = true
		c.Eval(1)
		want, known := c17Layout[t.Name()]
		got := map[string]string{}
		for i := 0; i < t.NumField(); i++ {
			f := t.Field(i)
			if tag, ok := f.Tag.Lookup("tlv8"); ok {
				got[f.Name] = tag
			}
			walk(f.Type)
		}
		cas := c17Case{Kind: "layout", Target: t.Name()}
		if !known {
			c.Report("wire-layout/unknown-type", "rtp."+t.Name()+" is part of an RTP message but not of the known wire layout", cas)
			return
		}
		for name, tag := range want {
			if got[name] != tag {
				c.Report("wire-layout/"+t.Name()+"."+name, fmt.Sprintf("rtp.%s.%s travels under tag %q, a peer expects it under tag %q", t.Name(), name, got[name], tag), cas)
			}
		}
		for name, tag := range got {
			if _, ok := want[name]; !ok {
				c.Report("wire-layout/"+t.Name()+"."+name, fmt.Sprintf("rtp.%s has a field %s under tag %q that the known wire layout does not have", t.Name(), name, tag), cas)
			}
		}
	}
	for _, tg := range c17Targets() {
		walk(tg.Type)
	}
	c.Class("wire-layout")
}

func c17Run(c *fw.Ctx) {
	if c.Shard == 0 {
		c17CheckLayout(c)
	}
	{
		interfRun(c, "C17") // statement-level interleavings of operations on disjoint objects (subprocess)
	}
	targets := c17Targets()
	idx := 0
	maxDev := 2
	if c.Thorough() {
		maxDev = 3
	}
	for _, tg := range targets {
		v := c17BaseValue(tg.Type)
		var leaves []c17Leaf
		c17Leaves(v, nil, "plain", &leaves)
		if c.Mine(idx) {
			c17Roundtrip(c, tg, nil, true)
		}
		idx++
		// single deviations
		failing := map[c17Dev]bool{}
		var singles []c17Dev
		for li, lf := range leaves {
			for ai := range lf.Alts {
				singles = append(singles, c17Dev{li, ai})
			}
		}
		for _, d := range singles { // every shard evaluates the singles (cheap) to know which ones fail alone
			rep := c.Mine(idx)
			idx++
			if c17Roundtrip(c, tg, []c17Dev{d}, rep) != "" {
				failing[d] = true
			}
			if !rep {
				c.Eval(-1)
			}
		}
		if c.Shard == 0 {
			c.Sample(map[string]interface{}{"target": tg.Name, "leaves": len(leaves), "single_deviations": len(singles)})
		}
		// pairs (and triples) of deviations on distinct leaves; reported only when no member fails alone
		var rec func(start int, cur []c17Dev)
		rec = func(start int, cur []c17Dev) {
			if len(cur) >= 2 {
				idx++
				if c.Mine(idx) {
					c17Roundtrip(c, tg, cur, true)
				}
			}
			if len(cur) == maxDev {
				return
			}
			for i := start; i < len(singles); i++ {
				d := singles[i]
				if failing[d] {
					continue
				}
				if len(cur) > 0 && cur[len(cur)-1].Leaf == d.Leaf {
					continue
				}
				conflict := false
				for _, o := range cur { // a list-length deviation replaces the elements another deviation points into
					conflict = conflict || c17Prefix(leaves[o.Leaf].Path, leaves[d.Leaf].Path) || c17Prefix(leaves[d.Leaf].Path, leaves[o.Leaf].Path)
				}
				if conflict {
					continue
				}
				if len(cur) >= 2 && len(leaves) > 12 && !c17Near(leaves, cur, d) {
					continue // triples only among leaves of the same struct (big types), to bound the space
				}
				rec(i+1, append(append([]c17Dev{}, cur...), d))
			}
		}
		rec(0, nil)
		// decoder inputs
		for b0 := 0; b0 < 256; b0++ {
			idx++
			if !c.Mine(idx) {
				continue
			}
			c17Decode(c, tg, []byte{byte(b0)}, "len1")
			for b1 := 0; b1 < 256; b1++ {
				c17Decode(c, tg, []byte{byte(b0), byte(b1)}, "len2")
			}
		}
		idx++
		if c.Mine(idx) {
			c17Decode(c, tg, nil, "len0")
			valid := c17RefEncode(v)
			for i := 0; i <= len(valid); i++ {
				c17Decode(c, tg, valid[:i], "prefix")
			}
			for i := 0; i < len(valid); i++ {
				for _, sub := range []byte{0, 1, 2, 3, 4, 8, 255, valid[i] ^ 1} {
					e := append([]byte{}, valid...)
					e[i] = sub
					c17Decode(c, tg, e, "edit")
				}
			}
			// every tag of the type with every length 0..9 of 0x01 bytes, alone and twice
			for tag := 0; tag < 16; tag++ {
				for n := 0; n <= 9; n++ {
					item := append([]byte{byte(tag), byte(n)}, bytes.Repeat([]byte{1}, n)...)
					c17Decode(c, tg, item, "item")
					c17Decode(c, tg, append(append(append([]byte{}, item...), 0, 0), item...), "item-twice")
				}
			}
		}
	}
}

func c17Prefix(a, b []int) bool {
	if len(a) > len(b) {
		return false
	}
	for i := range a {
		if a[i] != b[i] {
			return false
		}
	}
	return true
}

func c17Near(leaves []c17Leaf, cur []c17Dev, d c17Dev) bool {
	pa := leaves[cur[0].Leaf].Path
	pb := leaves[d.Leaf].Path
	return len(pa) > 0 && len(pb) > 0 && pa[0] == pb[0]
}

func c17Replay(c *fw.Ctx, raw json.RawMessage) {
	var cas c17Case
	json.Unmarshal(raw, &cas)
	if cas.Kind == "layout" {
		c17CheckLayout(c)
		return
	}
	for _, tg := range c17Targets() {
		if tg.Name != cas.Target {
			continue
		}
		if cas.Kind == "decode" {
			c17Decode(c, tg, cas.Input, cas.Sub)
		} else {
			c17Roundtrip(c, tg, cas.Devs, true)
		}
	}
}

func init() {
	fw.Register(&fw.Check{
		ID:          "C17",
		Level:       "exploration",
		Rule:        "for every RTP message type of the library (setup endpoints, its response, selected and supported stream configurations, supported RTP configuration, streaming status) and three synthetic structs covering every field kind (8/16/32/64-bit ints, float32, bool, string, bytes, nested struct, tagged list, inline list, list elements longer than one fragment; fields tagged 0 holding byte strings and strings of up to 600 bytes; an inline list whose elements begin with a string; strings with 2- and 3-byte characters lying across the 255-byte fragment boundary, strings with bytes that are not valid UTF-8): a base value, then every field (reflection-enumerated leaf) moved through its boundary alphabet with 1 and all pairs of 2 simultaneous deviations (thorough: triples); bytes compared with an independent reflective little-endian TLV8 encoder, then Unmarshal(Marshal(v)) compared with v; the tag under which each field of each RTP message type travels is compared with the known wire layout (a reflective reference encoder follows a field that moves to another tag, a peer does not); ownership: the bytes returned by Marshal must survive later Marshal calls, Unmarshal must not modify its input and decoding the same bytes twice must agree. Decoder inputs per type: all byte strings of length ≤2, every prefix and 8 substitutions per byte of a valid encoding, every tag 0..15 with value lengths 0..9. distinct_nontrivial = distinct (target type, case kind) classes A fourth synthetic struct uses tags 126, 127, 128, 129, 131, 200, 250, 254, 255. Plus, in a subprocess built with a scheduling point before EVERY statement of hc's packages (textual insertion through go build -overlay): every interleaving with at most 1 (thorough 2) preemptions of pairs of operations on disjoint objects — and, where the property is about served requests, of pairs of handlers on two verified connections of one accessory touching different characteristics — each side must observe exactly what it observes when the two run one after the other (module-level mutable state is what makes them differ).",
		Run:         c17Run,
		Replay:      c17Replay,
		Budget:      func(string) time.Duration { return 20 * time.Minute },
		Assumptions: []string{"an empty value may be encoded as no item (hc) or a zero-length item; both decode to empty", "nil and empty slices / strings are identified", "a pair/triple of deviations is reported only when none of its members fails alone (minimal counterexamples)"},
	})
}
