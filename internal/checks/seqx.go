package checks

import (
	"verif/internal/fw"
)

// exploreTree visits every sequence of length 1..depth over symbols 0..nsym-1 (DFS, shortest first per
// branch); run is called once per node with the whole history (a node is reached by replaying its path on a
// fresh system, because live systems do not clone). prune(prefix) == true cuts the subtree below prefix.
// Work is sharded on the first two symbols.
func exploreTree(c *fw.Ctx, nsym, depth int, run func(h []int) (prune bool)) {
	var rec func(h []int)
	rec = func(h []int) {
		if c.Expired() {
			c.NotExhaustive("internal deadline reached during the tree exploration")
			return
		}
		if len(h) > 0 {
			// sharding: a node belongs to the shard of its first two symbols; depth-1 nodes to shard of (s0)
			key := h[0]
			if len(h) > 1 {
				key = h[0]*nsym + h[1] + nsym
			}
			if c.Mine(key) {
				if run(h) {
					return
				}
			} else if len(h) >= 2 {
				return
			}
		}
		if len(h) == depth {
			return
		}
		for s := 0; s < nsym; s++ {
			rec(append(append([]int{}, h...), s))
		}
	}
	rec(nil)
}
