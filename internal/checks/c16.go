package checks

import (
	"bytes"
	"encoding/json"
	"fmt"
	"io"
	"strings"
	"time"

	"github.com/brutella/hc/util"

	"verif/internal/fw"
	"verif/internal/refctl"
)

// C16 — TLV8 containers round-trip and fragment correctly.

type c16Case struct {
	Kind       string `json:"kind"` // "sets" | "parse"
	Tags       []int  `json:"tags,omitempty"`
	Lens       []int  `json:"lens,omitempty"`
	Input      []byte `json:"input,omitempty"`
	Sub        string `json:"sub,omitempty"`
	Interleave bool   `json:"interleave,omitempty"` // lookups between the sets; the caller reuses and wipes its value buffer
}

func pat(n int, seed byte) []byte {
	b := make([]byte, n)
	for i := range b {
		b[i] = seed + byte(i*7) + byte(i>>8)
	}
	return b
}

func lenClass(n int) string {
	switch {
	case n == 0:
		return "0"
	case n < 255:
		return "1..254"
	case n == 255:
		return "255"
	case n%255 == 0:
		return "k*255"
	default:
		return ">255"
	}
}

func guard(f func()) (p interface{}) {
	defer func() { p = recover() }()
	f()
	return nil
}

// c16Sets: perform Set operations on hc's container, compare bytes and parse-back against the reference.
func c16Sets(c *fw.Ctx, cas c16Case) {
	c.Eval(1)
	var exp []refctl.Item
	perTag := map[byte][]byte{}
	cls := ""
	var out []byte
	var back util.Container
	var perr error
	if p := guard(func() {
		cont := util.NewTLV8Container()
		scratch := make([]byte, 0, 70000)
		for i, t := range cas.Tags {
			v := pat(cas.Lens[i], byte(t*31+i))
			if cas.Interleave {
				// the caller builds every value in ONE scratch buffer which it reuses and wipes after the call, and it
				// looks values up between the sets
				scratch = append(scratch[:0], v...)
				cont.SetBytes(byte(t), scratch)
				for k := range scratch {
					scratch[k] = 0xEE
				}
				if len(v) > 0 {
					exp = append(exp, refctl.Item{Tag: byte(t), Val: v})
				}
				perTag[byte(t)] = append(perTag[byte(t)], v...)
				cls += lenClass(cas.Lens[i]) + ","
				for tt, want := range perTag {
					if !bytes.Equal(cont.GetBytes(tt), want) {
						c.Report("sets/get-between-sets/"+cls, fmt.Sprintf("GetBytes(%d) between two sets differs from what was set so far", tt), cas)
					}
				}
				continue
			}
			cont.SetBytes(byte(t), v)
			if len(v) > 0 {
				exp = append(exp, refctl.Item{Tag: byte(t), Val: v})
			}
			perTag[byte(t)] = append(perTag[byte(t)], v...)
			cls += lenClass(cas.Lens[i]) + ","
		}
		// serialising is a pure read: the first buffer is consumed (as a caller that copies it to a socket does),
		// partly and then fully, and a second serialisation gives the same bytes
		first := cont.BytesBuffer()
		firstBytes := append([]byte{}, first.Bytes()...)
		first.Next(len(firstBytes) / 2)
		mid := append([]byte{}, cont.BytesBuffer().Bytes()...)
		io.Copy(io.Discard, first)
		out = append([]byte{}, cont.BytesBuffer().Bytes()...)
		if !bytes.Equal(firstBytes, out) || !bytes.Equal(mid, out) {
			c.Report("sets/serialise-twice-differs/"+cls, fmt.Sprintf("serialising the same container again after the first buffer was consumed gives %d / %d bytes instead of %d", len(mid), len(out), len(firstBytes)), cas)
			out = firstBytes
		}
		for t, v := range perTag {
			if !bytes.Equal(cont.GetBytes(t), v) {
				c.Report("sets/get-before-serialise/"+cls, fmt.Sprintf("GetBytes(%d) on the container differs from what was set", t), cas)
			}
		}
		back, perr = util.NewTLV8ContainerFromReader(bytes.NewReader(out))
	}); p != nil {
		c.Report("sets/panic/"+cls, fmt.Sprintf("panic: %v", p), cas)
		return
	}
	c.Class("sets:" + cls)
	want := refctl.TLVEncode(exp...)
	if !bytes.Equal(out, want) {
		c.Report("sets/wire-bytes/"+cls, "serialised bytes differ from the reference TLV8 encoding (fragments of ≤255 bytes, consecutive)", cas)
		return
	}
	// a standard parser reassembles each value
	items, err := refctl.TLVParse(out)
	if err != nil {
		c.Report("sets/ref-parse/"+cls, "reference parser rejects hc's encoding: "+err.Error(), cas)
		return
	}
	raw, _ := refctl.TLVParseRaw(out)
	for _, it := range raw {
		if len(it.Val) > 255 {
			c.Report("sets/fragment-size/"+cls, "fragment longer than 255", cas)
		}
	}
	_ = items
	if perr != nil {
		c.Report("sets/parse-back-error/"+cls, "hc parser rejects its own encoding: "+perr.Error(), cas)
		return
	}
	for t, v := range perTag {
		if p := guard(func() {
			if !bytes.Equal(back.GetBytes(t), v) {
				c.Report("sets/parse-back-value/"+cls, fmt.Sprintf("tag %d: value after serialise+parse differs from what was set", t), cas)
			}
			if len(v) > 0 && back.GetByte(t) != v[0] {
				c.Report("sets/parse-back-byte/"+cls, fmt.Sprintf("tag %d: GetByte differs", t), cas)
			}
			if back.GetString(t) != string(v) {
				c.Report("sets/parse-back-string/"+cls, fmt.Sprintf("tag %d: GetString differs", t), cas)
			}
		}); p != nil {
			c.Report("sets/panic-get/"+cls, fmt.Sprintf("panic: %v", p), cas)
		}
	}
}

// c16Parse: feed arbitrary bytes to hc's parser; error exactly when the reference reports truncation.
func c16Parse(c *fw.Ctx, in []byte, kind string) {
	c.Eval(1)
	cas := c16Case{Kind: "parse", Input: in, Sub: kind}
	ref, rerr := refctl.TLVConcat(in)
	var cont util.Container
	var err error
	if p := guard(func() { cont, err = util.NewTLV8ContainerFromReader(bytes.NewReader(in)) }); p != nil {
		c.Report("parse/panic/"+kind, fmt.Sprintf("parser panics: %v", p), cas)
		return
	}
	if (err != nil) != (rerr != nil) {
		if err != nil {
			c.Report("parse/spurious-error/"+kind, "parser rejects well-formed TLV8: "+err.Error(), cas)
		} else {
			c.Report("parse/accepts-truncated/"+kind, "parser accepts truncated TLV8", cas)
		}
		return
	}
	if err != nil {
		c.Class("parse:error")
		return
	}
	c.Class(fmt.Sprintf("parse:ok:%d-tags", len(ref)))
	if p := guard(func() {
		// every tag 0..255 must yield exactly the reference (absent tags yield nothing)
		for t := 0; t < 256; t++ {
			got := cont.GetBytes(byte(t))
			if !bytes.Equal(got, ref[byte(t)]) {
				c.Report("parse/value/"+kind, fmt.Sprintf("tag %d: parsed value is not the bytes at the corresponding input positions", t), cas)
				return
			}
			// the other getters agree with it (and do not panic on zero-length items, which a peer may send)
			var first byte
			if len(ref[byte(t)]) > 0 {
				first = ref[byte(t)][0]
			}
			if b := cont.GetByte(byte(t)); b != first {
				c.Report("parse/get-byte/"+kind, fmt.Sprintf("tag %d: GetByte returns %d, the value starts with %d", t, b, first), cas)
				return
			}
			if str := cont.GetString(byte(t)); str != string(ref[byte(t)]) {
				c.Report("parse/get-string/"+kind, fmt.Sprintf("tag %d: GetString differs from the value", t), cas)
				return
			}
		}
		if !bytes.Equal(cont.BytesBuffer().Bytes(), in) {
			c.Report("parse/reserialise/"+kind, "re-serialising a parsed container does not reproduce the input", cas)
		}
	}); p != nil {
		c.Report("parse/panic-get/"+kind, fmt.Sprintf("panic: %v", p), cas)
	}
}

// c16Setters: the other setters. SetByte for every byte value on tags 0, 1, 6, 255; SetString for strings with
// multi-byte characters, bytes that are not valid UTF-8, a NUL, 255 / 256 / 600 bytes. The container serialises to
// exactly tag, length, the bytes; GetByte / GetString / GetBytes give them back, before and after a parse.
func c16Setters(c *fw.Ctx, only string) {
	for _, t := range []byte{0, 1, 6, 255} {
		for b := 0; b < 256; b++ {
			cas := c16Case{Kind: "setters", Sub: fmt.Sprintf("byte:%d:%d", t, b)}
			if only != "" && only != cas.Sub {
				continue
			}
			c.Eval(1)
			cont := util.NewTLV8Container()
			cont.SetByte(t, byte(b))
			wire := cont.BytesBuffer().Bytes()
			cls := "low"
			if b >= 0x80 {
				cls = "high"
			}
			switch {
			case !bytes.Equal(wire, []byte{t, 1, byte(b)}):
				c.Report("setters/set-byte-wire/"+cls, fmt.Sprintf("SetByte(%d, 0x%02x) serialises to % x, expected % x", t, b, trunc(wire, 8), []byte{t, 1, byte(b)}), cas)
			case cont.GetByte(t) != byte(b):
				c.Report("setters/get-byte/"+cls, fmt.Sprintf("SetByte(%d, 0x%02x): GetByte returns 0x%02x", t, b, cont.GetByte(t)), cas)
			default:
				back, err := util.NewTLV8ContainerFromReader(bytes.NewReader(wire))
				if err != nil || back.GetByte(t) != byte(b) || !bytes.Equal(back.GetBytes(t), []byte{byte(b)}) {
					c.Report("setters/parse-back-byte/"+cls, fmt.Sprintf("SetByte(%d, 0x%02x) does not come back after a parse (%v)", t, b, err), cas)
				}
			}
			c.Class("setters:byte:" + cls)
		}
	}
	strs := map[string]string{"ascii": "hello", "utf8": "héllo ✓ 😀", "invalid-utf8": "a\xff\xfe\x80b", "nul": "a\x00b", "high-bytes": string(pat(40, 0x80)),
		"len255": strings.Repeat("é", 127) + "x", "len256": strings.Repeat("é", 128), "len600": strings.Repeat("✓", 200)}
	for name, str := range strs {
		cas := c16Case{Kind: "setters", Sub: "string:" + name}
		if only != "" && only != cas.Sub {
			continue
		}
		c.Eval(1)
		cont := util.NewTLV8Container()
		cont.SetString(9, str)
		wire := cont.BytesBuffer().Bytes()
		want := refctl.TLVEncode(refctl.T(9, []byte(str)))
		switch {
		case !bytes.Equal(wire, want):
			c.Report("setters/set-string-wire/"+name, fmt.Sprintf("SetString(%q…) serialises to %d bytes that differ from the reference encoding (%d bytes)", trunc([]byte(str), 12), len(wire), len(want)), cas)
		case cont.GetString(9) != str:
			c.Report("setters/get-string/"+name, "GetString differs from what was set", cas)
		default:
			back, err := util.NewTLV8ContainerFromReader(bytes.NewReader(wire))
			if err != nil || back.GetString(9) != str || !bytes.Equal(back.GetBytes(9), []byte(str)) {
				c.Report("setters/parse-back-string/"+name, fmt.Sprintf("the string does not come back after a parse (%v)", err), cas)
			}
		}
		c.Class("setters:string:" + name)
	}
}

func c16Run(c *fw.Ctx) {
	{
		interfRun(c, "C16") // statement-level interleavings of operations on disjoint objects (subprocess)
	}
	if c.Shard == 1%c.NShards {
		c16Setters(c, "")
	}
	if c.Shard == 2%c.NShards {
		// containers with many items (14, 20, 40) whose tags are not in ascending order, one of them a long value
		for _, n := range []int{14, 20, 40} {
			for _, long := range []int{0, 300, 700} {
				var tags, lens []int
				for i := 0; i < n; i++ {
					tags = append(tags, []int{9, 3, 200, 3, 1, 9, 77}[i%7])
					lens = append(lens, 1+i%5)
				}
				if long > 0 {
					tags[n/2], lens[n/2] = 5, long
					tags = append(tags, 2, 5)
					lens = append(lens, 4, 3)
				}
				c16Sets(c, c16Case{Kind: "sets", Tags: tags, Lens: lens})
			}
		}
	}
	// (a) every tag × every length
	var tags []int
	for t := 0; t < 256; t++ {
		tags = append(tags, t)
	}
	first := true
	for ti, t := range tags {
		if !c.Mine(ti) {
			continue
		}
		for n := 0; n <= 1024; n++ {
			cas := c16Case{Kind: "sets", Tags: []int{t}, Lens: []int{n}}
			if first && n == 300 {
				c.Sample(cas)
				first = false
			}
			c16Sets(c, cas)
		}
		for _, n := range []int{1275, 1276, 4096, 65535, 65536} { // deterministic list of "longer ones"
			c16Sets(c, c16Case{Kind: "sets", Tags: []int{t}, Lens: []int{n}})
		}
	}
	// (b) all set sequences of length ≤ d over {A,B} × boundary lengths
	lens := []int{0, 1, 254, 255, 256, 510, 511}
	d := 3
	if c.Thorough() {
		d = 4
	}
	type opt struct{ tag, n int }
	var opts []opt
	for _, t := range []int{6, 3} {
		for _, n := range lens {
			opts = append(opts, opt{t, n})
		}
	}
	idx := 0
	var rec func(seq []opt)
	rec = func(seq []opt) {
		if len(seq) > 0 {
			idx++
			if c.Mine(idx) {
				cas := c16Case{Kind: "sets"}
				for _, o := range seq {
					cas.Tags = append(cas.Tags, o.tag)
					cas.Lens = append(cas.Lens, o.n)
				}
				if idx == 1000 {
					c.Sample(cas)
				}
				c16Sets(c, cas)
				cas.Interleave = true
				c16Sets(c, cas)
			}
		}
		if len(seq) == d {
			return
		}
		for _, o := range opts {
			rec(append(seq, o))
		}
	}
	rec(nil)
	// (c) parser inputs: all byte strings up to length L
	L := 2
	if c.Thorough() {
		L = 3
	}
	if c.Mine(0) {
		c16Parse(c, nil, "len0")
	}
	for b0 := 0; b0 < 256; b0++ {
		if !c.Mine(b0) {
			continue
		}
		c16Parse(c, []byte{byte(b0)}, "len1")
		for b1 := 0; b1 < 256; b1++ {
			c16Parse(c, []byte{byte(b0), byte(b1)}, "len2")
			if L >= 3 {
				for b2 := 0; b2 < 256; b2++ {
					c16Parse(c, []byte{byte(b0), byte(b1), byte(b2)}, "len3")
				}
			}
		}
	}
	// every prefix and every single-byte edit (4 substitutes) of valid encodings
	valids := [][]byte{
		refctl.TLVEncode(refctl.T(6, []byte{1}), refctl.T(3, pat(32, 9))),
		refctl.TLVEncode(refctl.T(6, []byte{3}), refctl.T(3, pat(384, 1)), refctl.T(4, pat(64, 2))),
		refctl.TLVEncode(refctl.T(1, pat(255, 5)), refctl.T(1, pat(3, 6)), refctl.T(0, nil), refctl.T(255, pat(510, 7))),
	}
	for vi, v := range valids {
		if !c.Mine(vi) {
			continue
		}
		c.Sample(c16Case{Kind: "parse", Input: v[:8]})
		for i := 0; i <= len(v); i++ {
			c16Parse(c, v[:i], "prefix")
		}
		// the same bytes through a reader that delivers one byte per Read
		if cont, err := util.NewTLV8ContainerFromReader(&oneByteReader{append([]byte{}, v...)}); err != nil {
			c.Report("parse/short-reads/error", "a valid encoding delivered one byte per Read is rejected: "+err.Error(), c16Case{Kind: "parse", Input: v, Sub: "one-byte-reader"})
		} else {
			ref, _ := refctl.TLVConcat(v)
			for t := 0; t < 256; t++ {
				if !bytes.Equal(cont.GetBytes(byte(t)), ref[byte(t)]) {
					c.Report("parse/short-reads/value", fmt.Sprintf("tag %d differs when the input is delivered one byte per Read", t), c16Case{Kind: "parse", Input: v, Sub: "one-byte-reader"})
					break
				}
			}
		}
		c.Eval(1)
		for i := 0; i < len(v); i++ {
			for _, sub := range []byte{0, 1, 254, 255, v[i] ^ 0x80} {
				e := append([]byte{}, v...)
				e[i] = sub
				c16Parse(c, e, "edit")
			}
		}
		for i := 0; i < len(v); i++ { // single-byte deletion / insertion
			c16Parse(c, append(append([]byte{}, v[:i]...), v[i+1:]...), "delete")
			c16Parse(c, append(append(append([]byte{}, v[:i]...), 0xFF), v[i:]...), "insert")
		}
	}
}

func init() {
	fw.Register(&fw.Check{
		ID:    "C16",
		Level: "exploration",
		Rule: "exhaustive enumeration (serialising is repeated after the first buffer was consumed partly and fully: same bytes): (a) all tags 0..255 × all value lengths 0..1024 (+5 fixed longer lengths) set on hc's container, wire bytes compared with an independent TLV8 encoder and parsed back; " +
			"(a2) SetByte for all 256 byte values on tags 0, 1, 6, 255 and SetString for strings with multi-byte characters, invalid UTF-8, NUL, 255 / 256 / 600 bytes: exact wire bytes, getters before and after a parse; " +
			"(a3) containers of 14, 20, 40 items with tags in no particular order and a long value in the middle; " +
			"(b) all Set sequences of length ≤3 (quick) / ≤4 (thorough) over 2 tags × lengths {0,1,254,255,256,510,511}, each also with a lookup of every tag between the sets and with the caller reusing and wiping ONE value buffer after every Set; (c) all byte strings of length ≤2 (quick) / ≤3 (thorough) and every prefix / single-byte edit / deletion / insertion of 3 valid encodings as parser input. " +
			"distinct_nontrivial = distinct (operation kind, length-class tuple) and parser outcome classes observed Plus, in a subprocess built with a scheduling point before EVERY statement of hc's packages (textual insertion through go build -overlay): every interleaving with at most 1 (thorough 2) preemptions of pairs of operations on disjoint objects — and, where the property is about served requests, of pairs of handlers on two verified connections of one accessory touching different characteristics — each side must observe exactly what it observes when the two run one after the other (module-level mutable state is what makes them differ).",
		Run:    c16Run,
		Budget: func(string) time.Duration { return 20 * time.Minute },
		Replay: func(c *fw.Ctx, raw json.RawMessage) {
			var cas c16Case
			json.Unmarshal(raw, &cas)
			if cas.Kind == "setters" {
				c16Setters(c, cas.Sub)
			} else if cas.Kind == "parse" {
				c16Parse(c, cas.Input, cas.Sub)
			} else {
				c16Sets(c, cas)
			}
		},
		Assumptions: []string{"the reference TLV8 codec in internal/refctl (60 lines, no hc import) is the specification", "value contents are a position/tag dependent pattern, not all 256^n contents"},
	})
}
