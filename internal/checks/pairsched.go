package checks

import (
	"bytes"
	"encoding/json"
	"fmt"
	"os"
	"os/exec"
	"path/filepath"
	"strings"
	"time"

	"verif/internal/fw"
)

// Interleavings of the pairing handlers of several connections (internal/psched, compiled into the scheduler binary
// with the build overlay): run as a subprocess of the C02 and C03 checks, its report becomes part of their evidence.

type pschedCase struct {
	Kind     string `json:"kind"`
	Scenario string `json:"scenario"`
	Schedule []int  `json:"schedule"`
	Bound    int    `json:"bound"`
}

type pschedReport struct {
	Scenarios []struct {
		Name       string   `json:"name"`
		Bound      int      `json:"bound"`
		Schedules  int      `json:"schedules"`
		Points     int      `json:"points"`
		Outcomes   []string `json:"outcomes"`
		Exhaustive bool     `json:"exhaustive"`
		Note       string   `json:"note"`
	} `json:"scenarios"`
	Violations []struct {
		Sig  string     `json:"sig"`
		Desc string     `json:"desc"`
		Case pschedCase `json:"case"`
	} `json:"violations"`
	Infra string `json:"infra"`
}

func pschedBinary() string {
	exe, _ := os.Executable()
	return filepath.Join(filepath.Dir(exe), "vsched-pair")
}

// pschedParts is the number of worker shards that run a part of the scenarios.
const pschedParts = 3

// pschedRun runs part `part` of the pairing-schedule scenarios of a property and files the results under the check.
func pschedRun(c *fw.Ctx, prop string, part int) {
	tier := "quick"
	if c.Thorough() {
		tier = "thorough"
	}
	if part >= pschedParts {
		// the same scenarios with a scheduling point before every statement of hc's packages (the binary built with
		// the yield overlay), one preemption — run by other worker shards than the log-statement exploration
		yb := interfBinary()
		if !fileExists(yb) {
			c.Note("pairing-handler interleavings at statement level skipped: " + yb + " not built")
			return
		}
		cmd := exec.Command(yb, "pairsched", tier, fmt.Sprint(part-pschedParts), fmt.Sprint(pschedParts), c.Scratch, prop)
		cmd.Env = append(os.Environ(), "PSCHED_STATEMENTS=1")
		if out, err, ok := runSub(c, "pairing-handler interleavings at statement level", cmd); ok {
			pschedFile(c, out, err)
		}
		return
	}
	bin := pschedBinary()
	if _, err := os.Stat(bin); err != nil {
		c.Note("pairing-handler interleavings skipped: " + bin + " not built")
		return
	}
	if out, err, ok := runSub(c, "pairing-handler interleavings", exec.Command(bin, "pairsched", tier, fmt.Sprint(part), fmt.Sprint(pschedParts), c.Scratch, prop)); ok {
		pschedFile(c, out, err)
	}
}

// subTimeout: the explorer subprocesses end by themselves (150 s / 3 min quick, 15 min thorough); the parent kills
// one that does not — e.g. because changed code under test blocks in a way the scheduler does not model — and files
// the part as not explored instead of waiting for ever.
func subTimeout(c *fw.Ctx) time.Duration {
	if c.Thorough() {
		return 18 * time.Minute
	}
	return 5 * time.Minute
}

// runSub runs an explorer subprocess with a hard time limit. ok=false: it was killed (reported as not exhaustive).
func runSub(c *fw.Ctx, what string, cmd *exec.Cmd) (out []byte, err error, ok bool) {
	var buf bytes.Buffer
	cmd.Stdout, cmd.Stderr = &buf, &buf
	if err := cmd.Start(); err != nil {
		return nil, err, true
	}
	done := make(chan error, 1)
	go func() { done <- cmd.Wait() }()
	select {
	case err = <-done:
		return buf.Bytes(), err, true
	case <-time.After(subTimeout(c)):
		cmd.Process.Kill()
		<-done
		c.NotExhaustive(what + ": the explorer subprocess did not end within its time limit and was stopped (code under test blocks outside the modelled primitives?)")
		return buf.Bytes(), nil, false
	}
}

func fileExists(p string) bool { _, err := os.Stat(p); return err == nil }

func pschedReplay(c *fw.Ctx, cas pschedCase) {
	j, _ := json.Marshal(cas)
	bin := pschedBinary()
	if strings.Contains(cas.Scenario, "[statement-level scheduling points]") {
		bin = interfBinary()
	}
	out, err := exec.Command(bin, "pairsched-replay", c.Scratch, string(j)).CombinedOutput()
	pschedFile(c, out, err)
}

func pschedFile(c *fw.Ctx, out []byte, err error) {
	var rep pschedReport
	found := false
	for _, l := range strings.Split(string(out), "\n") {
		if strings.HasPrefix(l, "PSCHED-REPORT ") {
			found = json.Unmarshal([]byte(strings.TrimPrefix(l, "PSCHED-REPORT ")), &rep) == nil
		}
	}
	if !found {
		tail := string(out)
		if len(tail) > 600 {
			tail = tail[len(tail)-600:]
		}
		c.Infra(fmt.Sprintf("pairing-handler interleavings: no report (%v): %s", err, tail))
		return
	}
	if rep.Infra != "" {
		c.Infra("pairing-handler interleavings: " + rep.Infra)
		return
	}
	for _, s := range rep.Scenarios {
		c.Eval(s.Schedules)
		c.State(s.Schedules)
		c.Trace(s.Schedules)
		c.Transition(s.Points)
		for _, o := range s.Outcomes {
			c.Class("schedule:" + s.Name[:24] + ":" + o)
		}
		c.Extra("handler_schedules", int64(s.Schedules))
		c.Note(fmt.Sprintf("pairing-handler interleavings, scenario %q: %d schedules with preemption bound %d, %d scheduling points, %d distinct outcomes", s.Name, s.Schedules, s.Bound, s.Points, len(s.Outcomes)))
		if !s.Exhaustive {
			c.NotExhaustive("pairing-handler interleavings, scenario " + s.Name + ": " + s.Note)
		}
		if s.Schedules > 0 {
			c.Sample(map[string]interface{}{"scenario": s.Name, "preemption_bound": s.Bound, "schedules": s.Schedules})
		}
	}
	for _, v := range rep.Violations {
		c.Report(v.Sig, v.Desc, v.Case)
	}
}

// ---- non-interference of operations on disjoint objects (internal/interf, statement-level scheduling points) ------

type interfCase struct {
	Kind     string `json:"kind"`
	A        string `json:"a"`
	B        string `json:"b"`
	Schedule []int  `json:"schedule"`
	Bound    int    `json:"bound"`
}

type interfReport struct {
	Pairs []struct {
		A, B       string
		Bound      int
		Schedules  int
		Points     int
		CapHits    int
		Exhaustive bool
	} `json:"pairs"`
	Violations []struct {
		Sig  string     `json:"sig"`
		Desc string     `json:"desc"`
		Case interfCase `json:"case"`
	} `json:"violations"`
	Infra string `json:"infra"`
	Cap   int    `json:"cap"`
}

func interfBinary() string {
	exe, _ := os.Executable()
	return filepath.Join(filepath.Dir(exe), "vsched-yield")
}

// interfParts worker shards run one part of the pairs each.
const interfParts = 4

// interfRun explores the interleavings of the operation pairs that belong to a property: the last interfParts
// worker shards run one part each (a single-shard run does all).
func interfRun(c *fw.Ctx, prop string) {
	part, parts := c.NShards-1-c.Shard, interfParts
	if c.NShards < interfParts {
		part, parts = 0, 1
		if c.Shard != c.NShards-1 {
			return
		}
	} else if part >= interfParts {
		return
	}
	bin := interfBinary()
	if _, err := os.Stat(bin); err != nil {
		c.Note("statement-level interleavings of operations on disjoint objects skipped: " + bin + " not built")
		return
	}
	tier := "quick"
	if c.Thorough() {
		tier = "thorough"
	}
	if out, err, ok := runSub(c, "statement-level interleavings", exec.Command(bin, "interf", tier, fmt.Sprint(part), fmt.Sprint(parts), c.Scratch, prop)); ok {
		interfFile(c, out, err)
	}
}

func interfReplay(c *fw.Ctx, cas interfCase) {
	j, _ := json.Marshal(cas)
	out, err := exec.Command(interfBinary(), "interf-replay", c.Scratch, string(j)).CombinedOutput()
	interfFile(c, out, err)
}

func interfFile(c *fw.Ctx, out []byte, err error) {
	var rep interfReport
	found := false
	for _, l := range strings.Split(string(out), "\n") {
		if strings.HasPrefix(l, "INTERF-REPORT ") {
			found = json.Unmarshal([]byte(strings.TrimPrefix(l, "INTERF-REPORT ")), &rep) == nil
		}
	}
	if !found {
		tail := string(out)
		if len(tail) > 600 {
			tail = tail[len(tail)-600:]
		}
		c.Infra(fmt.Sprintf("interleavings of operations on disjoint objects: no report (%v): %s", err, tail))
		return
	}
	if rep.Infra != "" {
		c.Infra("interleavings of operations on disjoint objects: " + rep.Infra)
		return
	}
	total := 0
	for _, p := range rep.Pairs {
		c.Eval(p.Schedules)
		c.State(p.Schedules)
		c.Trace(p.Schedules)
		c.Transition(p.Points)
		total += p.Schedules
		c.Class("interleaved:" + strings.SplitN(p.A, ":", 2)[0] + "|" + strings.SplitN(p.B, ":", 2)[0])
		if !p.Exhaustive {
			c.NotExhaustive("interleavings of " + p.A + " ‖ " + p.B + ": deadline or un-modelled blocking")
		}
		if p.CapHits > 0 {
			c.Note(fmt.Sprintf("interleavings of %s ‖ %s: in %d schedules a thread passed the cap of %d preemption points; later points of that thread were not preemption candidates", p.A, p.B, p.CapHits, rep.Cap))
		}
	}
	if len(rep.Pairs) > 0 {
		p := rep.Pairs[0]
		c.Sample(map[string]interface{}{"interleaved_pair": []string{p.A, p.B}, "preemption_bound": p.Bound, "schedules": p.Schedules, "scheduling_points": p.Points})
		c.Extra("statement_level_schedules", int64(total))
		c.Note(fmt.Sprintf("statement-level interleavings of %d pairs of operations on disjoint objects: %d schedules, preemption bound %d; every result compared with the operation's result when run alone", len(rep.Pairs), total, p.Bound))
	}
	for _, v := range rep.Violations {
		c.Report(v.Sig, v.Desc, v.Case)
	}
}
