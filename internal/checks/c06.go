package checks

import (
	"bufio"
	"bytes"
	"encoding/json"
	"fmt"
	"io"
	"testing/iotest"
	"time"

	hccrypto "github.com/brutella/hc/crypto"

	"verif/internal/fw"
	"verif/internal/refctl"
)

// C06 — secure framing round-trips every payload in the specified wire format.

type c06Case struct {
	Secret int    `json:"secret"`
	Lens   []int  `json:"lens"`           // message lengths, sent in order on one session
	Fill   string `json:"fill"`           // pattern | zero | ff
	Reader string `json:"reader"`         // how the source io.Reader delivers the payload
	Dir    string `json:"dir"`            // a2c (accessory encrypts) | c2a (controller-side session encrypts)
	Start  uint64 `json:"start"`          // frame counters preset to this value through reflection (0 = untouched)
	Pipe   bool   `json:"pipe,omitempty"` // the frames of all messages sit in one reader, Decrypt is called until it is drained
	// Deferred: all messages are encrypted first and the returned readers are read afterwards; then all are decrypted
	// and the returned readers read afterwards (a caller that queues what it got)
	Deferred bool `json:"deferred,omitempty"`
}

var c06Secrets = [][32]byte{
	{},
	{0xff, 0xff, 0xff, 0xff, 0xff, 0xff, 0xff, 0xff, 0xff, 0xff, 0xff, 0xff, 0xff, 0xff, 0xff, 0xff, 0xff, 0xff, 0xff, 0xff, 0xff, 0xff, 0xff, 0xff, 0xff, 0xff, 0xff, 0xff, 0xff, 0xff, 0xff, 0xff},
	{1, 2, 3, 4, 5, 6, 7, 8, 9, 10, 11, 12, 13, 14, 15, 16, 17, 18, 19, 20, 21, 22, 23, 24, 25, 26, 27, 28, 29, 30, 31, 32},
}

func fill(n int, kind string, seed byte) []byte {
	switch kind {
	case "zero":
		return make([]byte, n)
	case "ff":
		return bytes.Repeat([]byte{0xff}, n)
	}
	return pat(n, seed)
}

// source readers
type oneByteReader struct{ b []byte }

func (r *oneByteReader) Read(p []byte) (int, error) {
	if len(r.b) == 0 {
		return 0, io.EOF
	}
	if len(p) == 0 {
		return 0, nil
	}
	p[0] = r.b[0]
	r.b = r.b[1:]
	return 1, nil
}

type halvesReader struct {
	b    []byte
	half int
}

func (r *halvesReader) Read(p []byte) (int, error) {
	if len(r.b) == 0 {
		return 0, io.EOF
	}
	n := r.half
	if n > len(r.b) {
		n = len(r.b)
	}
	if n > len(p) {
		n = len(p)
	}
	copy(p, r.b[:n])
	r.b = r.b[n:]
	return n, nil
}

type eofWithDataReader struct{ b []byte }

func (r *eofWithDataReader) Read(p []byte) (int, error) {
	n := copy(p, r.b)
	r.b = r.b[n:]
	if len(r.b) == 0 {
		return n, io.EOF
	}
	return n, nil
}

type zeroInterleavedReader struct {
	b    []byte
	flip bool
}

func (r *zeroInterleavedReader) Read(p []byte) (int, error) {
	r.flip = !r.flip
	if r.flip && len(r.b) > 0 {
		return 0, nil // permitted by io.Reader: "nothing happened"
	}
	if len(r.b) == 0 {
		return 0, io.EOF
	}
	n := copy(p, r.b)
	r.b = r.b[n:]
	return n, nil
}

var c06Readers = []string{"buffer", "onebyte", "halves", "eof-with-data", "zero-interleaved", "chunk-1000", "reused-buffer", "bytes-reader", "bufio-reader"}

func mkReader(kind string, b []byte) io.Reader {
	b = append([]byte{}, b...)
	switch kind {
	case "onebyte":
		return &oneByteReader{b}
	case "halves":
		h := (len(b) + 1) / 2
		if h == 0 {
			h = 1
		}
		return &halvesReader{b, h}
	case "chunk-1000":
		return &halvesReader{b, 1000}
	case "eof-with-data":
		return &eofWithDataReader{b}
	case "zero-interleaved":
		return &zeroInterleavedReader{b: b}
	case "bytes-reader":
		return bytes.NewReader(b)
	case "bufio-reader":
		return bufio.NewReaderSize(bytes.NewReader(b), 16)
	}
	return bytes.NewBuffer(b)
}

func c06Exec(c *fw.Ctx, cas c06Case) {
	c.Eval(1)
	secret := c06Secrets[cas.Secret]
	a2c, c2a := refctl.SessionKeys(secret[:])
	sig := func(what string) string {
		lc := ""
		for _, n := range cas.Lens {
			switch {
			case n == 0:
				lc += "0,"
			case n < 1024:
				lc += "<1024,"
			case n%1024 == 0:
				lc += "k*1024,"
			default:
				lc += ">1024,"
			}
		}
		return fmt.Sprintf("%s/%s/%s/lens=%s", what, cas.Dir, cas.Reader, lc)
	}
	var enc, dec hccrypto.Cryptographer
	var err error
	key := a2c
	if cas.Dir == "a2c" {
		enc, err = hccrypto.NewSecureSessionFromSharedKey(secret)
		if err == nil {
			dec, err = hccrypto.NewSecureClientSessionFromSharedKey(secret)
		}
	} else {
		key = c2a
		enc, err = hccrypto.NewSecureClientSessionFromSharedKey(secret)
		if err == nil {
			dec, err = hccrypto.NewSecureSessionFromSharedKey(secret)
		}
	}
	if err != nil {
		c.Report(sig("session-error"), "session constructor failed: "+err.Error(), cas)
		return
	}
	var ctr, ctr2 uint64
	if cas.Start != 0 {
		if !setCounters(enc, cas.Start, cas.Start) || !setCounters(dec, cas.Start, cas.Start) {
			c.Note("preset frame counters skipped: " + errNoCounters.Error())
			c.Eval(-1)
			return
		}
		ctr = cas.Start
	}
	var reused bytes.Buffer // "reused-buffer": the writer keeps ONE buffer for the session, writes each message into it and hands it to Encrypt
	for i, n := range cas.Lens {
		msg := fill(n, cas.Fill, byte(17*i+3))
		var ct []byte
		if p := guard(func() {
			src := mkReader(cas.Reader, msg)
			if cas.Reader == "reused-buffer" {
				reused.Write(msg)
				src = &reused
			}
			r, e := enc.Encrypt(src)
			if e != nil {
				err = e
				return
			}
			ct, err = io.ReadAll(r)
		}); p != nil {
			c.Report(sig("encrypt-panic"), fmt.Sprintf("Encrypt panics: %v", p), cas)
			return
		}
		if err != nil {
			c.Report(sig("encrypt-error"), "Encrypt failed: "+err.Error(), cas)
			return
		}
		want := refctl.Frames(key, &ctr, msg)
		if !bytes.Equal(ct, want) {
			what := "wire"
			if len(ct) < len(want) {
				what = "wire-short"
			}
			c.Report(sig(what), fmt.Sprintf("message %d (len %d): ciphertext differs from the specified framing (got %d bytes, reference %d bytes)", i, n, len(ct), len(want)), cas)
			return
		}
		// hc's opposite end decrypts hc's bytes
		var pt []byte
		if p := guard(func() {
			r, e := dec.Decrypt(bytes.NewReader(ct))
			if e != nil {
				err = e
				return
			}
			pt, err = io.ReadAll(r)
		}); p != nil {
			c.Report(sig("decrypt-panic"), fmt.Sprintf("Decrypt panics: %v", p), cas)
			return
		}
		if err != nil {
			c.Report(sig("decrypt-error"), "opposite end cannot decrypt: "+err.Error(), cas)
			return
		}
		if !bytes.Equal(pt, msg) {
			c.Report(sig("roundtrip"), fmt.Sprintf("message %d: decrypted bytes differ from the payload", i), cas)
			return
		}
		// and the reference's ciphertext for the same message decrypts under a fresh hc session at the same counter
		_ = ctr2
	}
	c.Class(fmt.Sprintf("%s/%s/frames=%d", cas.Dir, cas.Reader, ctr))
}

// c06Deferred: what Encrypt and Decrypt return belongs to the caller — it stays what it is while the session goes on.
func c06Deferred(c *fw.Ctx, cas c06Case) {
	c.Eval(1)
	secret := c06Secrets[cas.Secret]
	a2c, _ := refctl.SessionKeys(secret[:])
	enc, err := hccrypto.NewSecureSessionFromSharedKey(secret)
	if err != nil {
		c.Infra(err.Error())
		return
	}
	dec, _ := hccrypto.NewSecureClientSessionFromSharedKey(secret)
	sig := fmt.Sprintf("deferred/messages=%d", len(cas.Lens))
	var msgs [][]byte
	var encReaders []io.Reader
	if p := guard(func() {
		for i, n := range cas.Lens {
			msg := fill(n, cas.Fill, byte(17*i+3))
			msgs = append(msgs, msg)
			r, e := enc.Encrypt(bytes.NewReader(msg))
			if e != nil {
				err = e
				return
			}
			encReaders = append(encReaders, r)
		}
	}); p != nil || err != nil {
		c.Report(sig+"/encrypt-fails", fmt.Sprintf("Encrypt fails: %v %v", p, err), cas)
		return
	}
	var ctr uint64
	var cts [][]byte
	for i, r := range encReaders {
		ct, _ := io.ReadAll(r)
		cts = append(cts, ct)
		if want := refctl.Frames(a2c, &ctr, msgs[i]); !bytes.Equal(ct, want) {
			c.Report(sig+"/encrypted-result-changed", fmt.Sprintf("the reader Encrypt returned for message %d of %v, read after the later messages were encrypted, yields %d bytes that are not the frames of that message (%d bytes)", i, cas.Lens, len(ct), len(want)), cas)
			return
		}
	}
	var decReaders []io.Reader
	if p := guard(func() {
		for _, ct := range cts {
			r, e := dec.Decrypt(bytes.NewReader(ct))
			if e != nil {
				err = e
				return
			}
			decReaders = append(decReaders, r)
		}
	}); p != nil || err != nil {
		c.Report(sig+"/decrypt-fails", fmt.Sprintf("Decrypt fails: %v %v", p, err), cas)
		return
	}
	for i, r := range decReaders {
		pt, _ := io.ReadAll(r)
		if !bytes.Equal(pt, msgs[i]) {
			c.Report(sig+"/decrypted-result-changed", fmt.Sprintf("the reader Decrypt returned for message %d of %v, read after the later messages were decrypted, yields %d bytes that are not that message (%d bytes)", i, cas.Lens, len(pt), len(msgs[i])), cas)
			return
		}
	}
	c.Class(sig)
}

// c06RefToHC: ciphertext produced by the reference decrypts under hc (both directions), message sequence.
func c06RefToHC(c *fw.Ctx, cas c06Case) {
	c.Eval(1)
	secret := c06Secrets[cas.Secret]
	a2c, c2a := refctl.SessionKeys(secret[:])
	var dec hccrypto.Cryptographer
	key := c2a
	if cas.Dir == "c2a" {
		dec, _ = hccrypto.NewSecureSessionFromSharedKey(secret)
	} else {
		key = a2c
		dec, _ = hccrypto.NewSecureClientSessionFromSharedKey(secret)
	}
	var ctr uint64
	if cas.Start != 0 {
		if !setCounters(dec, cas.Start, cas.Start) {
			c.Eval(-1)
			return
		}
		ctr = cas.Start
	}
	for i, n := range cas.Lens {
		msg := fill(n, cas.Fill, byte(17*i+3))
		ct := refctl.Frames(key, &ctr, msg)
		var pt []byte
		var err error
		if p := guard(func() {
			r, e := dec.Decrypt(bytes.NewReader(ct))
			if e != nil {
				err = e
				return
			}
			pt, err = io.ReadAll(r)
		}); p != nil {
			c.Report("ref-to-hc/panic/"+cas.Dir, fmt.Sprintf("Decrypt panics: %v", p), cas)
			return
		}
		if err != nil || !bytes.Equal(pt, msg) {
			c.Report("ref-to-hc/"+cas.Dir, fmt.Sprintf("message %d (len %d): hc does not decrypt the reference framing: %v", i, n, err), cas)
			return
		}
	}
	c.Class(fmt.Sprintf("ref-to-hc/%s/frames=%d", cas.Dir, ctr))
}

// c06Pipe: the frames of several messages sit in ONE source reader (a peer that pipelines its messages) and the
// receiving end calls Decrypt repeatedly on it until it is drained: the concatenation of what comes out is the
// concatenation of what went in; nothing is skipped and nothing is read ahead and dropped.
func c06Pipe(c *fw.Ctx, cas c06Case) {
	c.Eval(1)
	secret := c06Secrets[cas.Secret]
	a2c, _ := refctl.SessionKeys(secret[:])
	for _, producer := range []string{"hc", "reference"} {
		dec, err := hccrypto.NewSecureClientSessionFromSharedKey(secret)
		if err != nil {
			c.Report("pipe/session-error", err.Error(), cas)
			return
		}
		enc, _ := hccrypto.NewSecureSessionFromSharedKey(secret)
		var wire, plain []byte
		var ctr uint64
		for i, n := range cas.Lens {
			msg := fill(n, cas.Fill, byte(17*i+3))
			plain = append(plain, msg...)
			if producer == "reference" {
				wire = append(wire, refctl.Frames(a2c, &ctr, msg)...)
				continue
			}
			r, err := enc.Encrypt(bytes.NewReader(msg))
			if err != nil {
				c.Report("pipe/encrypt-error", err.Error(), cas)
				return
			}
			ct, _ := io.ReadAll(r)
			wire = append(wire, ct...)
		}
		src := bytes.NewReader(wire)
		var rd io.Reader = src
		if cas.Reader == "onebyte" {
			rd = iotest.OneByteReader(src)
		}
		var got []byte
		calls := 0
		for src.Len() > 0 && calls < 3*len(cas.Lens)+len(wire)/1024+4 {
			calls++
			var pt []byte
			if p := guard(func() {
				r, e := dec.Decrypt(rd)
				if e != nil {
					err = e
					return
				}
				pt, err = io.ReadAll(r)
			}); p != nil {
				c.Report("pipe/decrypt-panic/"+producer, fmt.Sprintf("Decrypt panics: %v", p), cas)
				return
			}
			if err != nil {
				c.Report("pipe/decrypt-error/"+producer+"/"+cas.Reader, fmt.Sprintf("Decrypt call %d on a reader holding the frames of %d messages %v fails after %d of %d bytes: %v", calls, len(cas.Lens), cas.Lens, len(got), len(plain), err), cas)
				return
			}
			got = append(got, pt...)
		}
		if !bytes.Equal(got, plain) {
			c.Report("pipe/differs/"+producer+"/"+cas.Reader, fmt.Sprintf("%d Decrypt calls drained a reader holding the frames of messages %v: %d bytes came out, %d went in (first difference at %d)", calls, cas.Lens, len(got), len(plain), firstDiff(got, plain)), cas)
			return
		}
	}
	c.Class(fmt.Sprintf("pipe/%s/messages=%d", cas.Reader, len(cas.Lens)))
}

func firstDiff(a, b []byte) int {
	for i := 0; i < len(a) && i < len(b); i++ {
		if a[i] != b[i] {
			return i
		}
	}
	if len(a) < len(b) {
		return len(a)
	}
	return len(b)
}

func c06Run(c *fw.Ctx) {
	{
		interfRun(c, "C06") // statement-level interleavings of operations on disjoint objects (subprocess)
	}
	idx := 0
	do := func(cas c06Case, ref bool) {
		idx++
		if !c.Mine(idx) {
			return
		}
		if idx%5000 == 1 {
			c.Sample(cas)
		}
		if cas.Deferred {
			c06Deferred(c, cas)
		} else if cas.Pipe {
			c06Pipe(c, cas)
		} else if ref {
			c06RefToHC(c, cas)
		} else {
			c06Exec(c, cas)
		}
	}
	maxLen := 4097
	big := []int{8191, 8192, 8193, 65535, 65536, 65537}
	// every length, every reader, pattern fill, secret 2; both directions
	for n := 0; n <= maxLen; n++ {
		for _, rd := range c06Readers {
			if !c.Thorough() && rd == "onebyte" && n > 1100 && n%97 != 0 {
				continue // quick: one-byte reader for all lengths up to 1100, then every 97th
			}
			do(c06Case{Secret: 2, Lens: []int{n}, Fill: "pattern", Reader: rd, Dir: "a2c"}, false)
		}
		do(c06Case{Secret: 2, Lens: []int{n}, Fill: "pattern", Reader: "buffer", Dir: "c2a"}, false)
		do(c06Case{Secret: 2, Lens: []int{n}, Fill: "pattern", Dir: "c2a"}, true)
		do(c06Case{Secret: 2, Lens: []int{n}, Fill: "pattern", Dir: "a2c"}, true)
		if c.Thorough() || n%64 < 3 || (n >= 1020 && n <= 1030) {
			for s := 0; s < 3; s++ {
				for _, f := range []string{"zero", "ff"} {
					do(c06Case{Secret: s, Lens: []int{n}, Fill: f, Reader: "buffer", Dir: "a2c"}, false)
				}
			}
		}
	}
	for _, n := range big {
		for _, rd := range c06Readers {
			do(c06Case{Secret: 1, Lens: []int{n}, Fill: "pattern", Reader: rd, Dir: "a2c"}, false)
		}
		do(c06Case{Secret: 1, Lens: []int{n}, Fill: "pattern", Dir: "c2a"}, true)
	}
	// sequences of 2..3 messages on one session (counter continuity)
	seqLens := []int{0, 1, 1023, 1024, 1025, 2048, 2049}
	for _, a := range seqLens {
		for _, b := range seqLens {
			for _, rd := range []string{"buffer", "halves", "reused-buffer", "bytes-reader", "bufio-reader"} {
				do(c06Case{Secret: 0, Lens: []int{a, b}, Fill: "pattern", Reader: rd, Dir: "a2c"}, false)
			}
			do(c06Case{Secret: 0, Lens: []int{a, b}, Fill: "pattern", Dir: "c2a"}, true)
			for _, d := range seqLens {
				do(c06Case{Secret: 0, Lens: []int{a, b, d}, Fill: "pattern", Reader: "buffer", Dir: "a2c"}, false)
				do(c06Case{Secret: 0, Lens: []int{a, b, d}, Fill: "pattern", Reader: "buffer", Dir: "c2a"}, false)
				do(c06Case{Secret: 0, Lens: []int{a, b, d}, Fill: "pattern", Reader: "reused-buffer", Dir: "c2a"}, false)
				do(c06Case{Secret: 0, Lens: []int{a, b, d}, Fill: "pattern", Dir: "c2a"}, true)
			}
		}
	}
	// results consumed later: every sequence of 2 and 3 messages over 5 lengths
	defLens := []int{0, 1, 700, 1024, 1500}
	for _, a := range defLens {
		for _, b := range defLens {
			do(c06Case{Secret: 2, Lens: []int{a, b}, Fill: "pattern", Reader: "buffer", Dir: "a2c", Deferred: true}, false)
			for _, d := range defLens {
				do(c06Case{Secret: 2, Lens: []int{a, b, d}, Fill: "pattern", Reader: "buffer", Dir: "a2c", Deferred: true}, false)
			}
		}
	}
	// pipelined messages: all frames in one reader
	pipeLens := []int{1, 5, 1023, 1024, 1025, 2048}
	for _, a := range pipeLens {
		for _, b := range pipeLens {
			for _, rd := range []string{"buffer", "onebyte"} {
				do(c06Case{Secret: 2, Lens: []int{a, b}, Fill: "pattern", Reader: rd, Dir: "a2c", Pipe: true}, false)
				for _, d := range pipeLens {
					do(c06Case{Secret: 2, Lens: []int{a, b, d}, Fill: "pattern", Reader: rd, Dir: "a2c", Pipe: true}, false)
				}
			}
		}
	}
	// counters near and beyond 2^32 and 2^63 (preset through reflection): wire format and round trip
	for _, st := range []uint64{1<<32 - 2, 1 << 32, 1<<32 + 1, 1 << 40, 1<<63 - 1, 1 << 63, 1<<64 - 5} {
		for _, dir := range []string{"a2c", "c2a"} {
			do(c06Case{Secret: 1, Lens: []int{1, 1025, 7}, Fill: "pattern", Reader: "buffer", Dir: dir, Start: st}, false)
			do(c06Case{Secret: 1, Lens: []int{1, 1025, 7}, Fill: "pattern", Dir: dir, Start: st}, true)
		}
	}
	// long-running counter: 300 one-byte messages then boundary lengths
	long := make([]int, 300)
	for i := range long {
		long[i] = 1
	}
	do(c06Case{Secret: 1, Lens: append(long, 1024, 1025), Fill: "pattern", Reader: "buffer", Dir: "a2c"}, false)
	do(c06Case{Secret: 1, Lens: append(long, 1024, 1025), Fill: "pattern", Dir: "c2a"}, true)
}

func init() {
	fw.Register(&fw.Check{
		ID:     "C06",
		Level:  "exploration",
		Rule:   "exhaustive enumeration of payload lengths 0..4097 (plus 8191,8192,8193,65535,65536,65537) × 9 source readers (a fresh bytes.Buffer, one byte per Read, halves, 1000-byte chunks, data together with EOF, zero-length reads interleaved, ONE bytes.Buffer kept for the session and refilled per message, bytes.Reader, bufio.Reader) × directions, contents {pattern, zero, 0xFF} × 3 secrets on a length grid, all message sequences of length 2–3 over 7 boundary lengths, a 302-message counter run; every sequence of 2–3 messages over 5 lengths whose Encrypt / Decrypt results are read only after the later messages went through the session (what the calls return belongs to the caller); every sequence of 2–3 messages over 6 lengths with all frames in ONE reader (pipelined peer), drained by repeated Decrypt calls, from a buffer and one byte per Read, produced by hc and by the reference; frame counters preset (reflection) to 2^32−2, 2^32, 2^32+1, 2^40, 2^63−1, 2^63, 2^64−5; each executed on hc's real sessions and compared byte-for-byte with the reference framing, then decrypted by hc's opposite end, and reference ciphertext decrypted by hc. distinct_nontrivial = distinct (direction, reader, frame count) classes Plus, in a subprocess built with a scheduling point before EVERY statement of hc's packages (textual insertion through go build -overlay): every interleaving with at most 1 (thorough 2) preemptions of pairs of operations on disjoint objects — and, where the property is about served requests, of pairs of handlers on two verified connections of one accessory touching different characteristics — each side must observe exactly what it observes when the two run one after the other (module-level mutable state is what makes them differ).",
		Run:    c06Run,
		Budget: func(string) time.Duration { return 20 * time.Minute },
		Replay: func(c *fw.Ctx, raw json.RawMessage) {
			var cas c06Case
			json.Unmarshal(raw, &cas)
			if cas.Deferred {
				c06Deferred(c, cas)
			} else if cas.Reader == "" {
				c06RefToHC(c, cas)
			} else {
				c06Exec(c, cas)
			}
		},
		Assumptions: []string{"reference framing = internal/refctl/crypto.go (x/crypto AEAD, hand-written HKDF)", "contents other than the three fills are not enumerated; lengths above 4097 are a fixed list"},
	})
}
