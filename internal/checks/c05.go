package checks

import (
	"bytes"
	"encoding/json"
	"fmt"
	"io"
	"net"
	"reflect"
	"strings"
	"time"
	"unsafe"

	hccrypto "github.com/brutella/hc/crypto"
	"github.com/brutella/hc/hap"

	"verif/internal/fw"
	"verif/internal/refctl"
)

// C05 — any alteration of the encrypted stream is detected.
//
// The sender is the reference framing (independent of hc); the receiver is hc's real session. A fault is a
// function stream → stream'. The receiver's Decrypt is called on one reader over stream' until it errors or
// the reader is exhausted.

type c05Fault struct {
	Kind string `json:"kind"`
	A    int    `json:"a,omitempty"`
	B    int    `json:"b,omitempty"`
	Perm []int  `json:"perm,omitempty"`
}

type c05Case struct {
	Secret int        `json:"secret"`
	Dir    string     `json:"dir"`            // receiver: "acc" (accessory-side session receives c2a) | "ctl"
	Prior  int        `json:"prior"`          // messages exchanged before (advances both counters)
	Start  uint64     `json:"start"`          // frame counters of both directions preset to this value (0 = untouched)
	Lens   []int      `json:"lens"`           // message lengths of the stream under attack
	Faults []c05Fault `json:"faults"`         // applied in order
	Busy   bool       `json:"busy,omitempty"` // the receiving side also SENDS (Encrypt) between the reads that deliver the stream
	// connection level only: Peer selects the shape of the remote address (0 IPv4, 1 IPv6, 2 link-local IPv6 with a
	// zone); Neigh adds an adversary connection from the same host and another port on the same accessory:
	// "after" = opened after the attacked connection got its keys; "diverted" = opened before, and the frames the
	// adversary removed from the attacked stream are sent to the accessory on it while the attacked stream is arriving
	Peer  int    `json:"peer,omitempty"`
	Neigh string `json:"neigh,omitempty"`
	// Entry "decrypted-read": the caller reads through the connection's exported DecryptedRead instead of Read
	Entry string `json:"entry,omitempty"`
	// Deferred: the caller keeps the readers Decrypt returns and reads them only after the last Decrypt call (which may
	// be the one that rejects the altered frame); Small: the connection's caller reads with net/http's buffer policy
	// (1 byte, then 4096)
	Deferred bool `json:"deferred,omitempty"`
	Small    bool `json:"small,omitempty"`
}

var c05Peers = [][2]string{{"10.0.0.2:50001", "10.0.0.2:50002"}, {"[2001:db8::1]:50001", "[2001:db8::1]:50002"}, {"[fe80::1%eth0]:50001", "[fe80::1%eth0]:50002"}}

type c05Frame struct {
	start, end int
	pt         []byte
}

type c05Setup struct {
	stream  []byte
	frames  []c05Frame
	reflect []byte // the receiver's own outgoing frames for the same plaintexts (opposite direction keys)
	other   []byte // same plaintexts under another shared secret
	old     []byte // other plaintexts of the same lengths sealed under the same key 2^32 counters earlier
	recv    hccrypto.Cryptographer
	first   uint64 // the counter under which frame 0 of the stream was sealed
	dir     string
	zero    bool // the session's shared secret is itself the all-zero one (then its keys are not "somebody else's")
}

func c05Build(cas c05Case) (*c05Setup, error) {
	secret := c06Secrets[cas.Secret]
	a2c, c2a := refctl.SessionKeys(secret[:])
	oth := c06Secrets[(cas.Secret+1)%3]
	oa2c, oc2a := refctl.SessionKeys(oth[:])
	s := &c05Setup{}
	var err error
	key, rkey, okey := c2a, a2c, oc2a
	if cas.Dir == "acc" {
		s.recv, err = hccrypto.NewSecureSessionFromSharedKey(secret)
	} else {
		key, rkey, okey = a2c, c2a, oa2c
		s.recv, err = hccrypto.NewSecureClientSessionFromSharedKey(secret)
	}
	if err != nil {
		return nil, err
	}
	var ctr, rctr, octr uint64
	if cas.Start != 0 {
		if !setCounters(s.recv, cas.Start, cas.Start) {
			return nil, errNoCounters
		}
		ctr, rctr, octr = cas.Start, cas.Start, cas.Start
	}
	oldctr := ctr - (1 << 32)
	for i := 0; i < cas.Prior; i++ {
		m := []byte{byte(i)}
		ct := refctl.Frames(key, &ctr, m)
		r, err := s.recv.Decrypt(bytes.NewReader(ct))
		if err != nil {
			return nil, fmt.Errorf("prior message %d: %v", i, err)
		}
		io.ReadAll(r)
		if _, err := s.recv.Encrypt(bytes.NewReader(m)); err != nil {
			return nil, err
		}
		refctl.Frames(rkey, &rctr, m)
		refctl.Frames(okey, &octr, m)
	}
	s.first, s.dir, s.zero = ctr, cas.Dir, secret == [32]byte{}
	for i, n := range cas.Lens {
		msg := pat(n, byte(29*i+5))
		base := len(s.stream)
		s.stream = append(s.stream, refctl.Frames(key, &ctr, msg)...)
		off := 0
		for _, sp := range refctl.FrameSpans(n) {
			k := sp[1] - sp[0] - 18
			s.frames = append(s.frames, c05Frame{base + sp[0], base + sp[1], msg[off : off+k]})
			off += k
		}
		s.reflect = append(s.reflect, refctl.Frames(rkey, &rctr, msg)...)
		s.other = append(s.other, refctl.Frames(okey, &octr, msg)...)
		s.old = append(s.old, refctl.Frames(key, &oldctr, pat(n, byte(31*i+77)))...)
	}
	return s, nil
}

func (s *c05Setup) frameBytes(src []byte, i int) []byte {
	return src[s.frames[i].start:s.frames[i].end]
}

// apply returns the altered stream.
func (s *c05Setup) apply(in []byte, f c05Fault, pristine bool) []byte {
	out := append([]byte{}, in...)
	nf := len(s.frames)
	join := func(order []int, src func(i int) []byte) []byte {
		var o []byte
		for _, i := range order {
			o = append(o, src(i)...)
		}
		return o
	}
	own := func(i int) []byte { return s.frameBytes(s.stream, i) }
	seq := func() []int {
		o := make([]int, nf)
		for i := range o {
			o[i] = i
		}
		return o
	}
	switch f.Kind {
	case "flip":
		if f.A/8 < len(out) {
			out[f.A/8] ^= 1 << uint(f.A%8)
		}
	case "truncate":
		if f.A < len(out) {
			out = out[:f.A]
		}
	case "delete":
		o := seq()
		o = append(o[:f.A], o[f.A+1:]...)
		out = join(o, own)
	case "dup": // insert a copy of frame A before position B (B==nf: at the end)
		o := seq()
		o = append(o[:f.B], append([]int{f.A}, o[f.B:]...)...)
		out = join(o, own)
	case "perm":
		out = join(f.Perm, own)
	case "reflect": // replace frame A by the receiver's own outgoing frame A
		out = join(seq(), func(i int) []byte {
			if i == f.A {
				return s.frameBytes(s.reflect, i)
			}
			return own(i)
		})
	case "reflect-all":
		out = append([]byte{}, s.reflect...)
	case "cross-session": // replace frame A by the same frame sealed under another shared secret
		out = join(seq(), func(i int) []byte {
			if i == f.A {
				return s.frameBytes(s.other, i)
			}
			return own(i)
		})
	case "replay-2^32-earlier": // replace frame A by a frame the same sender sealed 2^32 frames earlier (other plaintext)
		out = join(seq(), func(i int) []byte {
			if i == f.A {
				return s.frameBytes(s.old, i)
			}
			return own(i)
		})
	case "forged-empty-frame": // frame A replaced by a frame of length 0 with an arbitrary 16-byte tag
		out = join(seq(), func(i int) []byte {
			if i == f.A {
				return append([]byte{0, 0}, pat(16, byte(f.B))...)
			}
			return own(i)
		})
	case "forged-empty-frame-inserted": // such a frame inserted before frame A (A == nf: appended)
		for i := 0; i <= nf; i++ {
			if i == f.A {
				tmp := append([]byte{0, 0}, pat(16, byte(f.B))...)
				if i == 0 {
					out = append(tmp, in...)
				} else if i == nf {
					out = append(append([]byte{}, in...), tmp...)
				} else {
					out = append(append(append([]byte{}, in[:s.frames[i].start]...), tmp...), in[s.frames[i].start:]...)
				}
			}
		}
	case "forged-frame": // frame A replaced by a same-length frame of arbitrary bytes (valid length field)
		out = join(seq(), func(i int) []byte {
			if i == f.A {
				fr := append([]byte{}, own(i)...)
				for k := 2; k < len(fr); k++ {
					fr[k] = byte(k*13 + f.B)
				}
				return fr
			}
			return own(i)
		})
	case "forged-then-well-known-key":
		// frame A is replaced by arbitrary bytes (it is rejected); what follows is sealed by the adversary under a key
		// everybody knows — all zero bytes (B < 2), or the session keys of the all-zero shared secret (B ≥ 2) — with
		// the counter the receiver expects next if the rejected frame did not count (B even) or did (B odd)
		out = nil
		for i := 0; i < f.A; i++ {
			out = append(out, own(i)...)
		}
		fr := append([]byte{}, own(f.A)...)
		for k := 2; k < len(fr); k++ {
			fr[k] = byte(k*13 + 7)
		}
		out = append(out, fr...)
		key := make([]byte, 32)
		if f.B >= 2 && !s.zero {
			a2c, c2a := refctl.SessionKeys(make([]byte, 32))
			key = c2a
			if s.dir != "acc" {
				key = a2c
			}
		}
		ctr := s.first + uint64(f.A) + uint64(f.B%2)
		out = append(out, refctl.Frames(key, &ctr, []byte("PUT /characteristics HTTP/1.1 (forged after the rejected frame)"))...)
		out = append(out, refctl.Frames(key, &ctr, []byte("and one more"))...)
	case "insert-byte":
		if f.A <= len(in) {
			out = append(append(append([]byte{}, in[:f.A]...), byte(f.B)), in[f.A:]...)
		}
	case "drop-byte":
		if f.A < len(in) {
			out = append(append([]byte{}, in[:f.A]...), in[f.A+1:]...)
		}
	}
	return out
}

var errNoCounters = fmt.Errorf("frame counters of the session are not reachable (fields renamed?)")

// setCounters presets the private frame counters of an hc secure session (reflection, no source hook), so
// that counters near and beyond 2^32 can be explored without four billion calls.
func setCounters(c hccrypto.Cryptographer, enc, dec uint64) bool {
	v := reflect.ValueOf(c)
	if v.Kind() != reflect.Ptr || v.Elem().Kind() != reflect.Struct {
		return false
	}
	e, d := v.Elem().FieldByName("encryptCount"), v.Elem().FieldByName("decryptCount")
	if !e.IsValid() || !d.IsValid() || e.Kind() != reflect.Uint64 || d.Kind() != reflect.Uint64 {
		return false
	}
	*(*uint64)(unsafe.Pointer(e.UnsafeAddr())) = enc
	*(*uint64)(unsafe.Pointer(d.UnsafeAddr())) = dec
	return true
}

func c05Exec(c *fw.Ctx, cas c05Case) {
	c.Eval(1)
	s, err := c05Build(cas)
	if err == errNoCounters {
		c.Note("preset frame counters skipped: " + err.Error())
		c.Eval(-1)
		return
	}
	if err != nil {
		c.Infra("C05 setup: " + err.Error())
		return
	}
	alt := s.stream
	kinds := ""
	for _, f := range cas.Faults {
		alt = s.apply(alt, f, false)
		kinds += f.Kind + "+"
	}
	if len(cas.Faults) == 0 {
		kinds = "none"
	}
	// first altered frame j: frame containing the first differing byte; "none" when alt is a frame-boundary prefix
	p := 0
	for p < len(alt) && p < len(s.stream) && alt[p] == s.stream[p] {
		p++
	}
	j := -1 // no altered frame
	if !(p == len(alt) && (p == len(s.stream) || frameBoundary(s, p))) {
		j = len(s.frames) // beyond the end (e.g. appended frames)
		for i, f := range s.frames {
			if p < f.end {
				j = i
				break
			}
		}
	}
	nontrivial := !bytes.Equal(alt, s.stream)
	rd := bytes.NewReader(alt)
	var src io.Reader = rd
	if cas.Busy {
		kinds = "busy/" + kinds
		src = &busyReader{r: rd, sess: s.recv}
	}
	var released []byte
	var derr error
	calls := 0
	if cas.Deferred {
		kinds = "deferred/" + kinds
	}
	if pn := guard(func() {
		var kept []io.Reader
		defer func() {
			for _, r := range kept { // read now what was accepted earlier: it must still be what it was
				b, _ := io.ReadAll(r)
				released = append(released, b...)
			}
		}()
		for {
			calls++
			r, e := s.recv.Decrypt(src)
			if e != nil {
				derr = e
				return
			}
			if cas.Deferred {
				kept = append(kept, r)
			} else {
				b, _ := io.ReadAll(r)
				released = append(released, b...)
			}
			if rd.Len() == 0 || calls > 64 {
				return
			}
		}
	}); pn != nil {
		c.Report("panic/"+kinds, fmt.Sprintf("Decrypt panics on an altered stream: %v", pn), cas)
		return
	}
	if derr != nil && strings.Contains(kinds, "forged-then-well-known-key") {
		// a caller that goes on calling Decrypt after the error (the session object stays in its hands): whatever it gets,
		// it is nothing the adversary wrote
		var late []byte
		guard(func() {
			for n := 0; n < 8 && rd.Len() > 0; n++ {
				if r, e := s.recv.Decrypt(src); e == nil {
					b, _ := io.ReadAll(r)
					late = append(late, b...)
				}
			}
		})
		if bytes.Contains(late, []byte("forged after the rejected frame")) || bytes.Contains(late, []byte("and one more")) {
			c.Report("forged-plaintext-released-after-error/"+kinds, fmt.Sprintf("after Decrypt had rejected the altered frame, later calls released %d bytes the adversary sealed under a key everybody knows: %q…", len(late), trunc(late, 40)), cas)
			return
		}
	}
	// released must be the concatenation of the plaintexts of frames 0..k-1 with k ≤ j (or any k when j = -1)
	k, acc := 0, 0
	for k < len(s.frames) && acc < len(released) {
		acc += len(s.frames[k].pt)
		k++
	}
	var want []byte
	for i := 0; i < k; i++ {
		want = append(want, s.frames[i].pt...)
	}
	cls := fmt.Sprintf("%s/err=%v", kinds, derr != nil)
	if nontrivial {
		c.Class(cls)
	}
	switch {
	case !bytes.Equal(released, want):
		c.Report("released-altered/"+kinds, fmt.Sprintf("receiver released %d bytes that are not an unmodified frame-granular prefix of what was sent", len(released)), cas)
	case j >= 0 && k > j:
		c.Report("released-past-alteration/"+kinds, fmt.Sprintf("receiver released plaintext of %d frames although frame %d was altered", k, j), cas)
	case j >= 0 && derr == nil:
		c.Report("no-error/"+kinds, fmt.Sprintf("stream altered at frame %d but Decrypt reported no error", j), cas)
	case j < 0 && derr != nil && len(cas.Faults) == 0:
		c.Report("spurious-error/"+kinds, "unaltered stream rejected: "+derr.Error(), cas)
	}
}

// c05Conn feeds an altered stream to a real hap.Connection (scripted net.Conn delivering the whole altered stream
// in one segment, then blocking): the bytes the caller receives are an unmodified frame-granular prefix ending
// before the first altered frame; once an altered frame has been consumed the caller gets an error and, if it keeps
// reading, never any more bytes.
func c05Conn(c *fw.Ctx, cas c05Case) {
	c.Eval(1)
	s, err := c05Build(cas)
	if err != nil {
		c.Eval(-1)
		return
	}
	alt := s.stream
	kinds := "conn/"
	for _, f := range cas.Faults {
		alt = s.apply(alt, f, false)
		kinds += f.Kind + "+"
	}
	p := 0
	for p < len(alt) && p < len(s.stream) && alt[p] == s.stream[p] {
		p++
	}
	j := -1
	if !(p == len(alt) && (p == len(s.stream) || frameBoundary(s, p))) {
		j = len(s.frames)
		for i, f := range s.frames {
			if p < f.end {
				j = i
				break
			}
		}
	}
	if cas.Neigh != "" {
		kinds = "conn-neighbour-" + cas.Neigh + "/"
		for _, f := range cas.Faults {
			kinds += f.Kind + "+"
		}
	}
	sc := &scriptedConn{segs: []c07Seg{{data: alt}}, remote: c05Peers[cas.Peer][0]}
	ctx := hap.NewContextForSecuredDevice(nil)
	var nb *scriptedConn
	var nbConn *hap.Connection
	openNeighbour := func() {
		nb = &scriptedConn{remote: c05Peers[cas.Peer][1]}
		nbConn = hap.NewConnection(nb, ctx)
	}
	if cas.Neigh == "diverted" {
		openNeighbour()
	}
	conn := hap.NewConnection(sc, ctx)
	ctx.GetSessionForConnection(sc).SetCryptographer(s.recv)
	if cas.Neigh == "after" {
		openNeighbour()
	}
	if cas.Neigh == "diverted" && j >= 0 && p < len(alt) {
		// the original bytes from the first difference up to the next frame boundary go to the neighbour connection
		// at the moment the attacked connection is about to receive the bytes that follow the alteration
		end := len(s.stream)
		for _, f := range s.frames {
			if p < f.end {
				end = f.end
				break
			}
		}
		diverted := s.stream[p:end]
		sc.segs = []c07Seg{{data: alt[:p]}, {data: alt[p:], before: func() {
			nb.segs = append(nb.segs, c07Seg{data: diverted})
			guard(func() {
				buf := make([]byte, 4096)
				nbConn.Read(buf)
			})
		}}}
		if p == 0 {
			sc.segs = sc.segs[1:]
		}
	}
	_ = nbConn
	read := conn.Read
	if cas.Entry == "decrypted-read" {
		read = conn.DecryptedRead
		kinds = "decrypted-read-" + kinds
	}
	var got []byte
	var rerr error
	afterErr, afterN := 0, 0
	if cas.Small {
		kinds = "small-reads-" + kinds
	}
	if pn := guard(func() {
		for i := 0; i < 64+2*len(alt); i++ {
			buf := make([]byte, 4096)
			if cas.Small && i%2 == 0 {
				buf = buf[:1]
			}
			if rerr != nil {
				// the insisting caller is net/http: it sets deadlines between its reads (a new one, none, one in the past)
				switch afterN % 4 {
				case 1:
					conn.SetReadDeadline(time.Now().Add(time.Hour))
				case 2:
					conn.SetDeadline(time.Time{})
				case 3:
					conn.SetReadDeadline(time.Unix(1, 0))
				}
			}
			n, e := read(buf)
			if rerr != nil {
				afterErr += n // the caller insists after an error: nothing more may be released
				afterN++
				if afterN > 8 {
					return
				}
				continue
			}
			got = append(got, buf[:n]...)
			if e != nil {
				if ne, ok := e.(net.Error); ok && ne.Timeout() {
					rerr = e
					return
				}
				rerr = e
				continue
			}
			if n == 0 {
				return
			}
		}
	}); pn != nil {
		c.Report("panic/"+kinds, fmt.Sprintf("Connection.Read panics on an altered stream: %v", pn), cas)
		return
	}
	k, acc := 0, 0
	for k < len(s.frames) && acc < len(got) {
		acc += len(s.frames[k].pt)
		k++
	}
	var want []byte
	for i := 0; i < k; i++ {
		want = append(want, s.frames[i].pt...)
	}
	timeout := false
	if ne, ok := rerr.(net.Error); ok && ne.Timeout() {
		timeout = true // the script ran dry: the reader is waiting for more bytes (e.g. a truncated frame)
	}
	switch {
	case !bytes.Equal(got, want):
		c.Report("released-altered/"+kinds, fmt.Sprintf("the connection handed %d bytes to the caller that are not an unmodified frame-granular prefix", len(got)), cas)
	case j >= 0 && k > j:
		c.Report("released-past-alteration/"+kinds, fmt.Sprintf("plaintext of %d frames delivered although frame %d was altered", k, j), cas)
	case j >= 0 && !timeout && rerr == nil:
		c.Report("no-error/"+kinds, "altered stream consumed without an error", cas)
	case j < 0 && len(cas.Faults) == 0 && k < len(s.frames):
		c.Report("unaltered-not-delivered/"+kinds, fmt.Sprintf("an unaltered stream of %d frames: only %d were delivered", len(s.frames), k), cas)
	case afterErr > 0:
		c.Report("released-after-error/"+kinds, fmt.Sprintf("after reporting an error the connection handed %d more bytes to a caller that kept reading", afterErr), cas)
	}
	c.Class(fmt.Sprintf("%serr=%v", kinds, rerr != nil && !timeout))
}

// busyReader delivers the stream in small pieces and makes the receiving session encrypt an outgoing message
// between any two pieces — what happens when the accessory writes a response or an event while a frame is arriving.
type busyReader struct {
	r    *bytes.Reader
	sess hccrypto.Cryptographer
	n    int
}

func (b *busyReader) Read(p []byte) (int, error) {
	if b.n > 0 {
		b.sess.Encrypt(bytes.NewReader([]byte{byte(b.n), 2, 3}))
	}
	b.n++
	if len(p) > 700 {
		p = p[:700]
	}
	return b.r.Read(p)
}

func frameBoundary(s *c05Setup, p int) bool {
	if p == 0 {
		return true
	}
	for _, f := range s.frames {
		if f.end == p {
			return true
		}
	}
	return false
}

func perms(n int) [][]int {
	var out [][]int
	var rec func(cur []int, used int)
	rec = func(cur []int, used int) {
		if len(cur) == n {
			out = append(out, append([]int{}, cur...))
			return
		}
		for i := 0; i < n; i++ {
			if used&(1<<uint(i)) == 0 {
				rec(append(cur, i), used|1<<uint(i))
			}
		}
	}
	rec(nil, 0)
	return out
}

// c05Singles lists every single fault for a stream.
func c05Singles(s *c05Setup, thorough bool) []c05Fault {
	var fs []c05Fault
	for b := 0; b < len(s.stream)*8; b++ {
		fs = append(fs, c05Fault{Kind: "flip", A: b})
	}
	for o := 0; o < len(s.stream); o++ {
		fs = append(fs, c05Fault{Kind: "truncate", A: o})
	}
	nf := len(s.frames)
	if nf > 0 && nf <= 4 {
		for i := 0; i < nf; i++ {
			fs = append(fs, c05Fault{Kind: "delete", A: i}, c05Fault{Kind: "reflect", A: i}, c05Fault{Kind: "cross-session", A: i})
			for pos := 0; pos <= nf; pos++ {
				fs = append(fs, c05Fault{Kind: "dup", A: i, B: pos})
			}
		}
		for _, p := range perms(nf) {
			id := true
			for i, v := range p {
				if i != v {
					id = false
				}
			}
			if !id {
				fs = append(fs, c05Fault{Kind: "perm", Perm: p})
			}
		}
		fs = append(fs, c05Fault{Kind: "reflect-all"})
		for i := 0; i < nf; i++ {
			for _, b := range []int{0, 255} {
				fs = append(fs, c05Fault{Kind: "forged-empty-frame", A: i, B: b}, c05Fault{Kind: "forged-frame", A: i, B: b})
			}
		}
		for i := 0; i <= nf; i++ {
			fs = append(fs, c05Fault{Kind: "forged-empty-frame-inserted", A: i, B: 7})
		}
		for i := 0; i < nf; i++ {
			for b := 0; b < 4; b++ {
				fs = append(fs, c05Fault{Kind: "forged-then-well-known-key", A: i, B: b})
			}
		}
		if len(s.old) == len(s.stream) {
			for i := 0; i < nf; i++ {
				fs = append(fs, c05Fault{Kind: "replay-2^32-earlier", A: i})
			}
		}
	}
	// byte insertion / removal at frame edges and header positions
	for _, f := range s.frames {
		for _, o := range []int{f.start, f.start + 1, f.start + 2, f.end - 16, f.end - 1} {
			fs = append(fs, c05Fault{Kind: "drop-byte", A: o}, c05Fault{Kind: "insert-byte", A: o, B: 0}, c05Fault{Kind: "insert-byte", A: o, B: 0xff})
		}
	}
	return fs
}

func c05Run(c *fw.Ctx) {
	{
		interfRun(c, "C05") // statement-level interleavings of operations on disjoint objects (subprocess)
	}
	type shape struct {
		lens  []int
		prior int
		start uint64
	}
	shapes := []shape{
		{[]int{1}, 0, 0}, {[]int{2}, 0, 0}, {[]int{1023}, 0, 0}, {[]int{1024}, 0, 0}, {[]int{1025}, 0, 0},
		{[]int{1, 1}, 0, 0}, {[]int{5, 1024, 3}, 0, 0}, {[]int{2048}, 1, 0}, {[]int{2049}, 0, 0}, {[]int{3072}, 0, 0},
		{[]int{7, 9, 11, 13}, 1, 0}, {[]int{1024, 1}, 300, 0}, {[]int{0, 4, 0, 6}, 0, 0}, {[]int{40}, 300, 0},
		{[]int{9, 1025}, 0, 1<<32 - 1}, {[]int{5, 6}, 0, 1 << 32}, {[]int{3, 1024, 2}, 0, 1<<32 + 5}, {[]int{8, 8}, 0, 1 << 40},
		{[]int{4, 4}, 0, 1<<63 - 1}, {[]int{4, 1030}, 0, 1<<64 - 4},
	}
	idx := 0
	for si, sh := range shapes {
		for _, dir := range []string{"acc", "ctl"} {
			for secret := 0; secret < 3; secret++ {
				if !c.Thorough() && secret != si%3 {
					continue
				}
				base := c05Case{Secret: secret, Dir: dir, Prior: sh.prior, Lens: sh.lens, Start: sh.start}
				s, err := c05Build(base)
				if err != nil {
					c.Infra(err.Error())
					continue
				}
				idx++
				if c.Mine(idx) {
					c05Exec(c, base) // unaltered control
					busy := base
					busy.Busy = true
					c05Exec(c, busy)
				}
				singles := c05Singles(s, c.Thorough())
				for _, f := range singles {
					idx++
					if !c.Mine(idx) {
						continue
					}
					cas := base
					cas.Faults = []c05Fault{f}
					if idx%20000 == 7 {
						c.Sample(cas)
					}
					c05Exec(c, cas)
					if f.Kind != "flip" && f.Kind != "truncate" {
						busy := cas
						busy.Busy = true
						c05Exec(c, busy)
						def := cas
						def.Deferred = true
						c05Exec(c, def)
					}
					if dir == "acc" && len(s.stream) < 2200 && (f.Kind != "flip" || f.A%8 == 3 || c.Thorough()) {
						c05Conn(c, cas) // the same fault one level up, through hap.Connection.Read
						if f.Kind != "flip" || f.A%64 == 3 || c.Thorough() {
							x := cas
							x.Entry = "decrypted-read" // … and through the connection's other exported read entry point
							c05Conn(c, x)
							y := cas
							y.Small = true // … and by a caller that reads one byte, then 4096, like net/http
							c05Conn(c, y)
						}
					}
					if dir == "acc" && len(s.stream) < 2200 && f.Kind != "flip" && f.Kind != "truncate" && f.Kind != "insert-byte" && f.Kind != "drop-byte" {
						// … and with an adversary connection from the same host next to it, for three address shapes
						for peer := range c05Peers {
							for _, ng := range []string{"after", "diverted"} {
								x := cas
								x.Peer, x.Neigh = peer, ng
								c05Conn(c, x)
							}
						}
					}
				}
				if dir == "acc" && len(s.stream) < 2200 && len(s.stream) > 0 {
					// the unaltered stream next to a neighbour connection: everything is delivered
					for peer := range c05Peers {
						idx++
						if c.Mine(idx) {
							x := base
							x.Peer, x.Neigh = peer, "after"
							c05Conn(c, x)
						}
					}
				}
				if c.Thorough() && len(s.stream) < 1200 && secret == 0 {
					// all ordered pairs of faults from a reduced menu (every frame op, flips at one bit of every byte
					// of the headers and tags and every 8th ciphertext byte, truncation at every 16th offset)
					var menu []c05Fault
					for _, f := range singles {
						switch f.Kind {
						case "flip":
							byteOff := f.A / 8
							hdrOrTag := false
							for _, fr := range s.frames {
								if byteOff < fr.start+2 && byteOff >= fr.start || byteOff >= fr.end-16 && byteOff < fr.end {
									hdrOrTag = true
								}
							}
							if f.A%8 == 0 && (hdrOrTag || byteOff%8 == 0) {
								menu = append(menu, f)
							}
						case "truncate":
							if f.A%16 == 0 {
								menu = append(menu, f)
							}
						default:
							menu = append(menu, f)
						}
					}
					for _, f1 := range menu {
						for _, f2 := range menu {
							if f2.Kind != "flip" && f2.Kind != "truncate" && f2.Kind != "insert-byte" && f2.Kind != "drop-byte" {
								continue // frame-level faults are defined on the original frames, so they come first; the second fault is byte-level
							}
							idx++
							if !c.Mine(idx) {
								continue
							}
							cas := base
							cas.Faults = []c05Fault{f1, f2}
							c05Exec(c, cas)
						}
					}
				}
			}
		}
	}
}

func init() {
	fw.Register(&fw.Check{
		ID:     "C05",
		Level:  "fault_enumeration",
		Rule:   "for 20 stream shapes (0–4 frames, message lengths around 1, 1023..1025, k·1024; frame counters starting at 0, 1, 300 and — preset through reflection — 2^32−1, 2^32, 2^32+5, 2^40, 2^63−1, 2^64−4) × both receiving directions × secrets: every single-bit flip of the whole ciphertext stream, truncation at every byte offset, every frame deletion, duplication at every position, every non-identity permutation, reflection of the receiver's own frames, same-index frames of a session with another secret, a frame the same sender sealed 2^32 counters earlier, forged frames (empty with an arbitrary tag — replacing a frame or inserted anywhere —, or arbitrary bytes of the original length; the latter also followed by frames the adversary sealed under a key everybody knows — all zero, or derived from the all-zero secret — with the counter the receiver expects next), byte insertion/removal at frame edges; thorough adds all ordered pairs of faults from a reduced menu on the small shapes. Sender = reference framing, receiver = hc's real session (also while the receiving session encrypts outgoing messages between the reads that deliver the stream); for streams under 2200 bytes the same faults are also fed one level up through a real hap.Connection (released bytes, error, nothing released to a caller that keeps reading after the error and sets read deadlines in between, as net/http does; through Read — with 4096-byte reads and with net/http's alternation of 1-byte and 4096-byte reads — and through the exported DecryptedRead); frame-level faults also with a caller that keeps the readers Decrypt returns and reads them after the last call. distinct_nontrivial = distinct (fault kinds, error reported?) classes among faults that changed at least one byte Frame-level faults are also run with an adversary connection of the same accessory next to the attacked one, from the same host and another port, for IPv4, IPv6 and link-local IPv6 (zone) peer addresses: opened after the attacked connection got its keys, or receiving the diverted original bytes while the altered stream arrives; an unaltered stream next to such a neighbour is delivered completely. Plus, in a subprocess built with a scheduling point before EVERY statement of hc's packages (textual insertion through go build -overlay): every interleaving with at most 1 (thorough 2) preemptions of pairs of operations on disjoint objects — and, where the property is about served requests, of pairs of handlers on two verified connections of one accessory touching different characteristics — each side must observe exactly what it observes when the two run one after the other (module-level mutable state is what makes them differ).",
		Run:    c05Run,
		Budget: func(string) time.Duration { return 25 * time.Minute },
		Replay: func(c *fw.Ctx, raw json.RawMessage) {
			var cas c05Case
			json.Unmarshal(raw, &cas)
			c05Exec(c, cas)
			if cas.Dir == "acc" {
				c05Conn(c, cas)
			}
		},
		Assumptions: []string{"ChaCha20-Poly1305 itself (x/crypto) is not re-verified; the check decides framing, nonce, key separation and error propagation", "faults beyond two simultaneous alterations are not enumerated"},
	})
}
