package checks

import (
	"encoding/json"
	"fmt"
	"reflect"
	"sort"
	"strings"
	"sync"
	"time"

	"github.com/brutella/hc/characteristic"

	"verif/internal/fw"
	"verif/internal/refctl"
	"verif/internal/world"
)

// C10 — each change is notified exactly once to exactly the subscribed others.

type c10Sym struct {
	Op   string `json:"op"`   // sub | unsub | write | write-same | app | app-same | write-two | close | reconnect
	Conn int    `json:"conn"` // connection index (-1 for app)
	Ch   string `json:"ch"`   // A (switch.On, bool) | B (brightness, int) | N (no event permission)
}

func (s c10Sym) String() string {
	if s.Conn < 0 {
		return fmt.Sprintf("%s(%s)", s.Op, s.Ch)
	}
	if s.Ch == "" {
		return fmt.Sprintf("%s(c%d)", s.Op, s.Conn)
	}
	return fmt.Sprintf("%s(c%d,%s)", s.Op, s.Conn, s.Ch)
}

func c10Alphabet(k int) []c10Sym {
	var a []c10Sym
	for c := 0; c < k; c++ {
		for _, ch := range []string{"A", "B"} {
			a = append(a, c10Sym{"sub", c, ch})
		}
	}
	for c := 0; c < k; c++ {
		a = append(a, c10Sym{"write", c, "A"}, c10Sym{"write", c, "B"})
	}
	a = append(a, c10Sym{"app", -1, "A"}, c10Sym{"app", -1, "B"})
	for c := 0; c < k; c++ {
		a = append(a, c10Sym{"unsub", c, "A"}, c10Sym{"unsub", c, "B"}, c10Sym{"close", c, ""}, c10Sym{"reconnect", c, ""},
			c10Sym{"write-same", c, "A"}, c10Sym{"write-two", c, ""}, c10Sym{"write", c, "N"}, c10Sym{"sub", c, "N"})
	}
	a = append(a, c10Sym{"app-same", -1, "A"}, c10Sym{"app", -1, "N"})
	// C = the bulb's On: another accessory's characteristic with the SAME instance id as A; nobody subscribes to it
	a = append(a, c10Sym{"app", -1, "C"}, c10Sym{"write", 0, "C"})
	// out-of-range values are clamped: a change only if the clamped value differs from the current one
	a = append(a, c10Sym{"write-over-max", 0, "B"}, c10Sym{"app-over-max", -1, "B"}, c10Sym{"write-over-max", 1, "B"})
	// the connection sends a read whose application callback blocks, then resets its socket: the accessory cannot
	// notice the reset before the handler returns, so a dead connection stays registered while later events happen
	a = append(a, c10Sym{"hang-and-reset", 0, ""}, c10Sym{"hang-and-reset", k - 1, ""})
	// eight changes in a row (the order in which hc walks its connections is random per change)
	a = append(a, c10Sym{"app-burst", -1, "A"})
	// three changes while a connection's own request is being answered
	a = append(a, c10Sym{"blocked-read-three-changes", 0, ""})
	// … and forty (more than any small fixed-size queue holds): none is lost, and the application is never made to wait
	a = append(a, c10Sym{"blocked-read-forty-changes", 0, ""})
	// one PUT entry carrying "value" and "ev" together
	for c := 0; c < k; c++ {
		a = append(a, c10Sym{"write-sub", c, "A"}, c10Sym{"write-unsub", c, "A"})
	}
	return a
}

type c10Event struct {
	Aid, Iid uint64
	Value    interface{}
}

func (e c10Event) String() string { return fmt.Sprintf("%d.%d=%v", e.Aid, e.Iid, e.Value) }

type c10Run struct {
	c     *fw.Ctx
	b     *bed
	k     int
	conns []*refctl.Ctl
	open  []bool
	subs  map[string]bool // "conn/ch"
	val   map[string]interface{}
	seq   int
	gate  chan bool // closed at the end: releases a handler blocked by hang-and-reset
	fail  func(sig, desc string)
	// application-owned state (prefix "app-state"): the application keeps the values itself, answers reads from its
	// state through a read callback and follows remote writes in its remote-update callback
	appMu    sync.Mutex
	appState map[string]interface{}
}

func (r *c10Run) appSet(name string, ch *characteristic.Characteristic, v interface{}) {
	if r.appState != nil {
		r.appMu.Lock()
		r.appState[name] = v
		r.appMu.Unlock()
	}
	ch.UpdateValue(v)
}

func (r *c10Run) installAppState() {
	r.appState = map[string]interface{}{}
	for _, name := range []string{"A", "B"} {
		name := name
		ch, _ := r.ch(name)
		r.appState[name] = ch.Value
		ch.OnValueGet(func() interface{} {
			r.appMu.Lock()
			defer r.appMu.Unlock()
			return r.appState[name]
		})
		// the application follows remote writes through the typed callback of the characteristic's type, registered
		// here — after the transport was created — as applications do
		follow := func(nv interface{}) {
			r.appMu.Lock()
			r.appState[name] = nv
			r.appMu.Unlock()
		}
		if name == "A" {
			r.b.Switch.Switch.On.OnValueRemoteUpdate(func(v bool) { follow(v) })
		} else {
			r.b.Bulb.Lightbulb.Brightness.OnValueRemoteUpdate(func(v int) { follow(v) })
		}
	}
}

func (r *c10Run) ch(name string) (*characteristic.Characteristic, uint64) {
	switch name {
	case "A":
		return r.b.Switch.Switch.On.Characteristic, r.b.Switch.Accessory.ID
	case "B":
		return r.b.Bulb.Lightbulb.Brightness.Characteristic, r.b.Bulb.Accessory.ID
	case "C":
		return r.b.Bulb.Lightbulb.On.Characteristic, r.b.Bulb.Accessory.ID
	}
	return r.b.NoEvent.Characteristic, r.b.Extra.ID
}

func (r *c10Run) other(name string) interface{} {
	switch name {
	case "A", "C":
		return !r.val[name].(bool)
	default:
		return (r.val[name].(int) + 7) % 100
	}
}

func (r *c10Run) connect(i int) bool {
	k, err := r.b.Dial()
	if err != nil {
		r.c.Infra(err.Error())
		return false
	}
	r.seq++
	if _, ec, err := refctl.PairVerify(k, idL, refctl.Seed32(fmt.Sprintf("c10:%d:%d", i, r.seq)), r.b.AccLTPK); err != nil || ec != 0 {
		r.c.Infra(fmt.Sprintf("verify: %v %d", err, ec))
		return false
	}
	r.conns[i], r.open[i] = k, true
	return true
}

// barrier collects the EVENT messages that arrived on every open connection.
func (r *c10Run) barrier() (map[int][]c10Event, bool) {
	got := map[int][]c10Event{}
	for i, k := range r.conns {
		if !r.open[i] {
			continue
		}
		_, _, err := k.Do("GET", "/characteristics?id=1.2", "", nil)
		if err != nil {
			r.fail("barrier-failed", fmt.Sprintf("connection c%d no longer answers: %v", i, err))
			return nil, false
		}
		evs := k.Events // everything since the previous barrier, including EVENTs that preceded the response of the event's own request
		k.Events = nil
		for _, ev := range evs {
			var body struct {
				Characteristics []struct {
					Aid   uint64      `json:"aid"`
					Iid   uint64      `json:"iid"`
					Value interface{} `json:"value"`
				} `json:"characteristics"`
			}
			if ev.Status != 200 || json.Unmarshal(ev.Body, &body) != nil || len(body.Characteristics) == 0 {
				r.fail("malformed-event", fmt.Sprintf("connection c%d received a malformed EVENT: status %d body %q", i, ev.Status, trunc(ev.Body, 80)))
				return nil, false
			}
			for _, ce := range body.Characteristics {
				got[i] = append(got[i], c10Event{ce.Aid, ce.Iid, ce.Value})
			}
		}
	}
	return got, true
}

func evKey(es []c10Event) string {
	var s []string
	for _, e := range es {
		s = append(s, e.String())
	}
	sort.Strings(s) // order across different characteristics is not judged; duplicates are kept
	return strings.Join(s, " ")
}

func (r *c10Run) step(sym c10Sym) bool {
	want := map[int][]c10Event{}
	notify := func(chName string, v interface{}, except int) {
		ch, aid := r.ch(chName)
		var jv interface{} = v
		if n, ok := v.(int); ok {
			jv = float64(n)
		}
		for d := 0; d < r.k; d++ {
			if d != except && r.open[d] && r.subs[fmt.Sprintf("%d/%s", d, chName)] {
				want[d] = append(want[d], c10Event{aid, ch.ID, jv})
			}
		}
	}
	put := func(conn int, body string) bool {
		m, _, err := r.conns[conn].Do("PUT", "/characteristics", refctl.CTJSON, []byte(body))
		if err != nil || m.Status/100 != 2 {
			r.fail("request-failed/"+sym.Op, fmt.Sprintf("%v: request fails: %v %v", sym, m, err))
			return false
		}
		return true
	}
	if sym.Conn >= 0 && !r.open[sym.Conn] && sym.Op != "reconnect" {
		return true // event on a closed connection: not enabled, skipped
	}
	switch sym.Op {
	case "sub", "unsub":
		ch, aid := r.ch(sym.Ch)
		if !put(sym.Conn, fmt.Sprintf(`{"characteristics":[{"aid":%d,"iid":%d,"ev":%v}]}`, aid, ch.ID, sym.Op == "sub")) {
			return false
		}
		if ch.IsObservable() {
			r.subs[fmt.Sprintf("%d/%s", sym.Conn, sym.Ch)] = sym.Op == "sub"
		}
	case "write", "write-same":
		ch, aid := r.ch(sym.Ch)
		v := r.val[sym.Ch]
		if sym.Op == "write" {
			v = r.other(sym.Ch)
		}
		if !put(sym.Conn, fmt.Sprintf(`{"characteristics":[{"aid":%d,"iid":%d,"value":%v}]}`, aid, ch.ID, v)) {
			return false
		}
		if sym.Op == "write" {
			r.val[sym.Ch] = v
			notify(sym.Ch, v, sym.Conn)
		}
	case "write-sub", "write-unsub":
		// one entry that writes a changing value AND registers for / cancels event notifications
		ch, aid := r.ch(sym.Ch)
		v := r.other(sym.Ch)
		if !put(sym.Conn, fmt.Sprintf(`{"characteristics":[{"aid":%d,"iid":%d,"value":%v,"ev":%v}]}`, aid, ch.ID, v, sym.Op == "write-sub")) {
			return false
		}
		r.val[sym.Ch] = v
		notify(sym.Ch, v, sym.Conn)
		r.subs[fmt.Sprintf("%d/%s", sym.Conn, sym.Ch)] = sym.Op == "write-sub"
	case "write-over-max", "app-over-max":
		ch, aid := r.ch(sym.Ch)
		if sym.Op == "write-over-max" {
			if !put(sym.Conn, fmt.Sprintf(`{"characteristics":[{"aid":%d,"iid":%d,"value":250}]}`, aid, ch.ID)) {
				return false
			}
		} else {
			r.appSet(sym.Ch, ch, 250)
		}
		if r.val[sym.Ch] != 100 { // clamped to the declared maximum 100
			r.val[sym.Ch] = 100
			notify(sym.Ch, 100, sym.Conn)
		}
	case "write-two":
		chA, aidA := r.ch("A")
		chB, aidB := r.ch("B")
		va, vb := r.other("A"), r.other("B")
		if !put(sym.Conn, fmt.Sprintf(`{"characteristics":[{"aid":%d,"iid":%d,"value":%v},{"aid":%d,"iid":%d,"value":%v}]}`, aidA, chA.ID, va, aidB, chB.ID, vb)) {
			return false
		}
		r.val["A"], r.val["B"] = va, vb
		notify("A", va, sym.Conn)
		notify("B", vb, sym.Conn)
	case "app-burst":
		ch, _ := r.ch(sym.Ch)
		for i := 0; i < 8; i++ {
			v := r.other(sym.Ch)
			r.val[sym.Ch] = v
			notify(sym.Ch, v, -1)
			r.appSet(sym.Ch, ch, v)
		}
	case "app", "app-same":
		ch, _ := r.ch(sym.Ch)
		v := r.val[sym.Ch]
		if sym.Op == "app" {
			v = r.other(sym.Ch)
			r.val[sym.Ch] = v
			notify(sym.Ch, v, -1)
		}
		r.appSet(sym.Ch, ch, v)
	case "blocked-read-three-changes", "blocked-read-forty-changes":
		// the connection's own request is being answered (its handler waits in an application read callback) while
		// the application changes A three times, back to a value already notified: every change is one EVENT for every
		// subscriber — for this connection they follow its response
		ro := r.b.ReadOnly.Characteristic
		entered, gate := make(chan bool, 1), make(chan bool)
		ro.OnValueGet(func() interface{} {
			select {
			case entered <- true:
			default:
			}
			<-gate
			return "gated"
		})
		k := r.conns[sym.Conn]
		k.Send(refctl.BuildRequest("GET", fmt.Sprintf("/characteristics?id=%d.%d", r.b.Extra.ID, ro.ID), "", nil))
		select {
		case <-entered:
		case <-time.After(5 * time.Second):
			r.c.Infra("gated read callback not reached")
		}
		ro.OnValueGet(nil)
		chA, _ := r.ch("A")
		changes := 3
		if sym.Op == "blocked-read-forty-changes" {
			changes = 40
		}
		var vals []interface{}
		for i := 0; i < changes; i++ {
			v := r.other("A")
			r.val["A"] = v
			notify("A", v, -1)
			vals = append(vals, v)
		}
		applied := make(chan bool)
		go func() {
			for _, v := range vals {
				r.appSet("A", chA, v)
			}
			close(applied)
		}()
		select {
		case <-applied:
		case <-time.After(30 * time.Second):
			close(gate)
			r.fail("application-blocked/"+sym.Op, fmt.Sprintf("%v: the application's value changes do not return within 30 s while a subscribed connection is inside a request of its own", sym))
			return false
		}
		close(gate)
		if _, _, err := k.Await(); err != nil {
			r.fail("request-failed/"+sym.Op, fmt.Sprintf("%v: the blocked request is not answered: %v", sym, err))
			return false
		}
	case "hang-and-reset":
		if r.gate != nil {
			return true // once per history
		}
		ch := r.b.ReadOnly.Characteristic
		entered := make(chan bool, 1)
		r.gate = make(chan bool)
		gate := r.gate
		ch.OnValueGet(func() interface{} {
			select {
			case entered <- true:
			default:
			}
			<-gate
			return "gated"
		})
		k := r.conns[sym.Conn]
		k.Send(refctl.BuildRequest("GET", fmt.Sprintf("/characteristics?id=%d.%d", r.b.Extra.ID, ch.ID), "", nil))
		select {
		case <-entered:
		case <-time.After(5 * time.Second):
			r.c.Infra("gated read callback not reached")
		}
		ch.OnValueGet(nil)
		k.Close()
		r.open[sym.Conn] = false
		for _, ch := range []string{"A", "B", "N"} {
			delete(r.subs, fmt.Sprintf("%d/%s", sym.Conn, ch))
		}
	case "close":
		r.conns[sym.Conn].Close()
		r.open[sym.Conn] = false
		for _, ch := range []string{"A", "B", "N"} {
			delete(r.subs, fmt.Sprintf("%d/%s", sym.Conn, ch))
		}
		time.Sleep(300 * time.Microsecond)
	case "reconnect":
		if r.open[sym.Conn] {
			r.conns[sym.Conn].Close()
			r.open[sym.Conn] = false
		}
		for _, ch := range []string{"A", "B", "N"} {
			delete(r.subs, fmt.Sprintf("%d/%s", sym.Conn, ch))
		}
		if !r.connect(sym.Conn) {
			return false
		}
	}
	got, ok := r.barrier()
	if !ok {
		return false
	}
	mismatch := func() (int, bool) {
		for d := 0; d < r.k; d++ {
			if evKey(got[d]) != evKey(want[d]) {
				return d, true
			}
		}
		return 0, false
	}
	if _, bad := mismatch(); bad {
		// settle: an implementation that notifies asynchronously but correctly is not accused
		for _, wait := range []time.Duration{20 * time.Millisecond, 500 * time.Millisecond} {
			time.Sleep(wait)
			more, ok := r.barrier()
			if !ok {
				return false
			}
			for d, es := range more {
				got[d] = append(got[d], es...)
			}
			if _, bad := mismatch(); !bad {
				break
			}
		}
	}
	if d, bad := mismatch(); bad {
		sym2 := "missing"
		switch {
		case len(got[d]) > len(want[d]) && len(want[d]) == 0:
			sym2 = "unexpected"
		case len(got[d]) > len(want[d]):
			sym2 = "duplicate-or-extra"
		case len(got[d]) == len(want[d]):
			sym2 = "wrong-content"
		}
		role := "other"
		if d == sym.Conn {
			role = "originator"
		}
		r.fail(fmt.Sprintf("%s-event/%s/to-%s", sym2, sym.Op, role), fmt.Sprintf("after %v connection c%d received events [%s] but the model expects [%s]", sym, d, evKey(got[d]), evKey(want[d])))
		return false
	}
	pattern := ""
	for d := 0; d < r.k; d++ {
		role := "o"
		if d == sym.Conn {
			role = "w" // the writer itself
		}
		if !r.open[d] {
			role = "x"
		}
		pattern += fmt.Sprintf("%s%d", role, len(want[d]))
	}
	r.c.Class(fmt.Sprintf("%s(%s)→%s", sym.Op, sym.Ch, pattern))
	return true
}

type c10Case struct {
	K      int      `json:"k"`
	Prefix string   `json:"prefix,omitempty"`
	Hist   []c10Sym `json:"hist"`
}

func c10Exec(c *fw.Ctx, k int, hist []c10Sym) bool { return c10ExecFrom(c, k, "", hist) }

// c10ExecFrom runs a history from an initial state: "" = nobody subscribed; "subscribed" = every connection
// subscribed to A and B, A changed once and every subscriber was notified.
func c10ExecFrom(c *fw.Ctx, k int, prefix string, hist []c10Sym) bool {
	c.Eval(1)
	c.State(1)
	c.Trace(1)
	c.Transition(len(hist))
	world.ResetCapture()
	b, err := newBed(c, bedOpt{Seed: []refctl.Identity{idL}})
	if err != nil {
		c.Infra("bed: " + err.Error())
		return false
	}
	defer b.Close()
	r := &c10Run{c: c, b: b, k: k, conns: make([]*refctl.Ctl, k), open: make([]bool, k), subs: map[string]bool{}, val: map[string]interface{}{"A": false, "B": 100, "N": 5, "C": false}}
	failed := false
	var names []string
	for _, s := range hist {
		names = append(names, s.String())
	}
	r.fail = func(sig, desc string) {
		failed = true
		if prefix != "" {
			sig += "/from:" + prefix
		}
		c.Report(sig, desc+" — history "+prefix+" "+strings.Join(names, ", "), c10Case{K: k, Prefix: prefix, Hist: hist})
	}
	for i := 0; i < k; i++ {
		if !r.connect(i) {
			return false
		}
	}
	if prefix == "app-state" {
		r.installAppState()
	}
	if prefix == "subscribed" {
		for i := 0; i < k; i++ {
			for _, ch := range []string{"A", "B"} {
				if !r.step(c10Sym{"sub", i, ch}) {
					return !failed
				}
			}
		}
		if !r.step(c10Sym{"app", -1, "A"}) {
			return !failed
		}
	}
	for _, s := range hist {
		if !r.step(s) {
			break
		}
	}
	if r.gate != nil {
		close(r.gate)
	}
	return !failed
}

func c10Run1(c *fw.Ctx) {
	{
		interfRun(c, "C10") // statement-level interleavings of operations on disjoint objects (subprocess)
	}
	c10Payloads(c, c.Shard, c.NShards)
	// nsym = 1: the alphabet without the symbols whose mirror image on the other connection is kept
	type cfg struct{ k, depth, nsym int }
	cfgs := []cfg{{2, 3, 1}}
	if c.Thorough() {
		cfgs = []cfg{{2, 4, 1}, {2, 3, 0}, {3, 3, 0}}
	}
	for _, cf := range cfgs {
		alpha := c10Alphabet(cf.k)
		if c.Shard == 0 {
			c.Extra(fmt.Sprintf("depth_bound_completed_k%d_alphabet%d", cf.k, cf.nsym), int64(cf.depth))
		}
		if cf.nsym == 1 {
			// drop symbols whose mirror image on the other connection is kept
			var keep []c10Sym
			for _, s := range alpha {
				switch s.String() {
				case "unsub(c1,B)", "sub(c1,N)", "write(c1,N)", "write-same(c1,A)", "write-two(c1)", "write-sub(c1,A)", "write-unsub(c0,A)":
					continue
				}
				keep = append(keep, s)
			}
			alpha = keep
		}
		sampled := 0
		exploreTree(c, len(alpha), cf.depth, func(h []int) bool {
			if len(h) < cf.depth {
				return false
			}
			var hist []c10Sym
			for _, s := range h {
				hist = append(hist, alpha[s])
			}
			if sampled < 2 {
				var names []string
				for _, s := range hist {
					names = append(names, s.String())
				}
				c.Sample(names)
				sampled++
			}
			c10Exec(c, cf.k, hist)
			return false
		})
		c.Note(fmt.Sprintf("k=%d connections, depth %d, %d symbols", cf.k, cf.depth, len(alpha)))
		// the same alphabet from the state "everybody subscribed and notified once" (one level less deep)
		exploreTree(c, len(alpha), cf.depth-1, func(h []int) bool {
			if len(h) < cf.depth-1 {
				return false
			}
			var hist []c10Sym
			for _, s := range h {
				hist = append(hist, alpha[s])
			}
			c10ExecFrom(c, cf.k, "subscribed", hist)
			return false
		})
		// … and with an application that owns the state (read callback + remote-update callback), two levels less deep
		exploreTree(c, len(alpha), cf.depth-1, func(h []int) bool {
			if len(h) < cf.depth-1 {
				return false
			}
			var hist []c10Sym
			for _, s := range h {
				hist = append(hist, alpha[s])
			}
			c10ExecFrom(c, cf.k, "app-state", hist)
			return false
		})
	}
}

func init() {
	fw.Register(&fw.Check{
		ID:    "C10",
		Level: "model_checking",
		Rule:  "every history of length 3 with 2 verified controller connections over the mirror-reduced alphabet (quick) / length 4 with 2 connections over the mirror-reduced alphabet, length 3 with 2 and with 3 connections over the full alphabet (thorough) over: subscribe, unsubscribe, changing write, non-changing write, a PUT writing two characteristics, a PUT entry that writes and subscribes / unsubscribes at once, application set (changing / non-changing), close, reconnect — on an observable bool of one accessory, an observable int of another, a characteristic without event permission, a second accessory's characteristic with the same instance id as the first, and out-of-range writes that are clamped, and a connection whose read blocks in an application callback and which then resets its socket (it stays registered but dead while later events happen), and three changes (back to a value already notified) while a connection's own request is being answered; every history also from the non-initial state 'every connection subscribed and notified once' (one level less deep); real transport over TCP with real pair-verify, fresh system per history. After EVERY event a barrier request on every open connection collects the EVENT messages that arrived; they must equal the reference model (subscription relation × value × open set): exactly one EVENT with the new value per subscribed other connection, none to the originator, to unsubscribed or closed ones, none for unchanged values or characteristics without event permission. A mismatch is re-checked after 20 ms and 500 ms before it counts. states = histories executed, distinct_nontrivial = distinct (event, characteristic, per-connection expected EVENT count pattern) classes The alphabet is also explored (one level less deep) with an application that keeps the state itself (read callback answering from its state, typed remote-update callbacks — registered after the transport was created — following writes). Plus a depth-1 sweep over every observable readable constructor × its value alphabet (strings that look like protocol lines included): exactly one EVENT carrying exactly the value, none when the same value is set again, and the connection stays in frame. Plus, in a subprocess built with a scheduling point before EVERY statement of hc's packages (textual insertion through go build -overlay): every interleaving with at most 1 (thorough 2) preemptions of pairs of operations on disjoint objects — and, where the property is about served requests, of pairs of handlers on two verified connections of one accessory touching different characteristics — each side must observe exactly what it observes when the two run one after the other (module-level mutable state is what makes them differ).",
		Run:   c10Run1,
		Replay: func(c *fw.Ctx, raw json.RawMessage) {
			var cas c10Case
			json.Unmarshal(raw, &cas)
			if strings.HasPrefix(cas.Prefix, "payload:") {
				c10Payloads(c, 0, 1)
				return
			}
			c10ExecFrom(c, cas.K, cas.Prefix, cas.Hist)
		},
		Budget: func(t string) time.Duration {
			if t == "thorough" {
				return 25 * time.Minute
			}
			return 4 * time.Minute
		},
		Assumptions: []string{"order of EVENTs for different characteristics on one connection is not judged; duplicates are", "ProgrammableSwitchEvent-style notify-on-every-write characteristics are outside the alphabet"},
	})
}

// c10Payloads: depth-1 sweep over every observable, readable characteristic constructor × its value alphabet: a
// subscribed controller receives exactly one EVENT carrying exactly the new value (after JSON, HTTP framing and
// encryption), and its connection stays in frame (the next request is answered).
func c10Payloads(c *fw.Ctx, part, parts int) {
	s, err := c09Build(c, 0)
	if err != nil {
		c.Infra("build: " + err.Error())
		return
	}
	defer s.Close()
	for ci, cc := range s.chars {
		if ci%parts != part {
			continue
		}
		ch := cc.Ch
		if !ch.IsObservable() || !ch.IsReadable() {
			continue
		}
		cas := c10Case{Prefix: "payload:" + cc.Name}
		m, _, err := s.k.Do("PUT", "/characteristics", refctl.CTJSON, []byte(fmt.Sprintf(`{"characteristics":[{"aid":%d,"iid":%d,"ev":true}]}`, cc.Acc.ID, ch.ID)))
		if err != nil || m.Status/100 != 2 {
			c.Report("payload/subscribe-failed/"+ch.Format, fmt.Sprintf("%s: subscription fails: %v %v", cc.Name, m, err), cas)
			continue
		}
		for _, v := range c09Values(ch) {
			if reflect.DeepEqual(ch.Value, v.V) {
				continue // no change, no event (the histories judge that)
			}
			c.Eval(1)
			ch.UpdateValue(v.V)
			r, evs, err := s.k.Do("GET", fmt.Sprintf("/characteristics?id=%d.%d", s.chars[0].Acc.ID, s.chars[0].Ch.ID), "", nil)
			sig := ch.Format + "/" + v.Label
			if ch.Format != characteristic.FormatString {
				sig = ch.Format
			}
			if err != nil || r.Status/100 != 2 {
				c.Report("payload/out-of-frame/"+sig, fmt.Sprintf("%s := %s: after the EVENT the connection no longer yields a well-formed response: %v", cc.Name, v.Label, err), cas)
				return
			}
			if len(evs) != 1 {
				c.Report("payload/event-count/"+sig, fmt.Sprintf("%s := %s: the subscribed controller received %d EVENT messages", cc.Name, v.Label, len(evs)), cas)
				continue
			}
			es, perr := c09ParseEntries(evs[0].Body)
			if perr != nil || len(es) != 1 || es[0].Aid != cc.Acc.ID || es[0].Iid != ch.ID || !c09Same(es[0].Value, v.V) {
				c.Report("payload/event-value/"+sig, fmt.Sprintf("%s := %s: the EVENT carries %q", cc.Name, v.Label, trunc(evs[0].Body, 100)), cas)
				continue
			}
			c.Class("payload:" + ch.Format)
			// the same value once more (by the application, and — when writable — by another controller's write is the
			// histories' business): nothing changed, no EVENT
			if strings.Contains(cc.Name, "ProgrammableSwitchEvent") {
				continue // the one type that notifies every update by design (a button pressed twice)
			}
			c.Eval(1)
			ch.UpdateValue(v.V)
			if _, evs, err := s.k.Do("GET", fmt.Sprintf("/characteristics?id=%d.%d", s.chars[0].Acc.ID, s.chars[0].Ch.ID), "", nil); err == nil && len(evs) != 0 {
				c.Report("payload/event-for-unchanged-value/"+ch.Format, fmt.Sprintf("%s := %s a second time: %d EVENT messages although the value did not change", cc.Name, v.Label, len(evs)), cas)
			}
		}
		s.k.Do("PUT", "/characteristics", refctl.CTJSON, []byte(fmt.Sprintf(`{"characteristics":[{"aid":%d,"iid":%d,"ev":false}]}`, cc.Acc.ID, ch.ID)))
	}
}
