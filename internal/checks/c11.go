package checks

import (
	"bytes"
	"encoding/json"
	"fmt"
	"net"
	"os"
	"path/filepath"
	"reflect"
	"sort"
	"strings"
	"sync"
	"time"

	"github.com/brutella/hc/accessory"
	"github.com/brutella/hc/characteristic"
	"github.com/brutella/hc/service"

	"verif/internal/catalog"
	"verif/internal/fw"
	"verif/internal/refctl"
	"verif/internal/world"
)

// C11 — read, write and event permissions are enforced for remote peers.

type c11Subject struct {
	Name  string
	Build func() *characteristic.Characteristic
}

// The permissions a subject is DECLARED to have do not come from the object under test: for the library's
// constructors they are those of the bundled HomeKit metadata (by type id; constructors the metadata does not
// know: what the constructor returned before any other code ran), for the generic subjects the literal set.
var (
	c11Truth   = map[*characteristic.Characteristic][]string{}
	c11TruthMu sync.Mutex
)

func c11Has(ch *characteristic.Characteristic, p string) bool {
	c11TruthMu.Lock()
	t, ok := c11Truth[ch]
	c11TruthMu.Unlock()
	if !ok {
		t = ch.Perms
	}
	for _, x := range t {
		if x == p {
			return true
		}
	}
	return false
}
func canW(ch *characteristic.Characteristic) bool { return c11Has(ch, characteristic.PermWrite) }
func canR(ch *characteristic.Characteristic) bool { return c11Has(ch, characteristic.PermRead) }
func canE(ch *characteristic.Characteristic) bool { return c11Has(ch, characteristic.PermEvents) }

func c11Declare(ch *characteristic.Characteristic, perms []string) *characteristic.Characteristic {
	c11TruthMu.Lock()
	if len(c11Truth) > 200000 {
		c11Truth = map[*characteristic.Characteristic][]string{}
	}
	c11Truth[ch] = perms
	c11TruthMu.Unlock()
	return ch
}

// c11UseHelpers does what application code does with the exported permission helpers: it extends the returned
// slice and edits it in place. The slices belong to the caller; no characteristic built before or after may notice.
func c11UseHelpers() {
	for _, h := range []func() []string{characteristic.PermsAll, characteristic.PermsRead, characteristic.PermsReadOnly, characteristic.PermsWriteOnly} {
		for _, extra := range []string{characteristic.PermWrite, characteristic.PermRead, characteristic.PermEvents, "hd"} {
			custom := append(h(), extra)
			_ = custom
		}
		p := h()
		for i := range p {
			p[i] = characteristic.PermWrite
		}
	}
}

func c11Subjects() []c11Subject {
	var out []c11Subject
	md, _ := loadMetadata()
	declared := map[string][]string{}
	if md != nil {
		for _, m := range md.Characteristics {
			ps := []string{}
			for _, p := range m.Properties {
				switch p {
				case "read":
					ps = append(ps, characteristic.PermRead)
				case "write":
					ps = append(ps, characteristic.PermWrite)
				case "cnotify":
					ps = append(ps, characteristic.PermEvents)
				}
			}
			declared[minify(m.UUID)] = ps
		}
	}
	for _, ct := range catalog.CharacteristicCtors {
		ct := ct
		v, err := ct.Build()
		if err != nil || catalog.Char(v) == nil {
			continue
		}
		first := catalog.Char(v)
		truth, ok := declared[minify(first.Type)]
		if !ok {
			truth = append([]string{}, first.Perms...)
		}
		out = append(out, c11Subject{"characteristic." + ct.Name, func() *characteristic.Characteristic {
			v, _ := ct.Build()
			return c11Declare(catalog.Char(v), truth)
		}})
	}
	c11UseHelpers()
	permSets := [][]string{{}, {"pr"}, {"pw"}, {"ev"}, {"pr", "pw"}, {"pr", "ev"}, {"pw", "ev"}, {"pr", "pw", "ev"},
		// the other permissions of the specification (hidden, write response, additional authorization, timed write) give
		// neither read nor write nor event access
		{"wr"}, {"pr", "wr"}, {"pr", "ev", "wr"}, {"hd"}, {"pw", "hd"}, {"pr", "ev", "hd", "wr"}, {"aa", "tw"}, {"pr", "aa", "tw", "wr", "hd"}}
	for _, ps := range permSets {
		ps := ps
		lbl := "[" + strings.Join(ps, ",") + "]"
		out = append(out,
			c11Subject{"generic.Bool" + lbl, func() *characteristic.Characteristic {
				c := characteristic.NewBool("E001")
				c.Perms = ps
				c.SetValue(true)
				return c.Characteristic
			}},
			c11Subject{"generic.Int" + lbl, func() *characteristic.Characteristic {
				c := characteristic.NewInt("E002")
				c.Format = characteristic.FormatUInt8
				c.Perms = ps
				c.SetMinValue(0)
				c.SetMaxValue(100)
				c.SetValue(10)
				return c.Characteristic
			}},
			c11Subject{"generic.Float" + lbl, func() *characteristic.Characteristic {
				c := characteristic.NewFloat("E003")
				c.Format = characteristic.FormatFloat
				c.Perms = ps
				c.SetValue(1.5)
				return c.Characteristic
			}},
			c11Subject{"generic.String" + lbl, func() *characteristic.Characteristic {
				c := characteristic.NewString("E004")
				c.Perms = ps
				c.SetValue("init")
				return c.Characteristic
			}},
			c11Subject{"generic.Bytes" + lbl, func() *characteristic.Characteristic {
				c := characteristic.NewBytes("E005")
				c.Perms = ps
				c.SetValue([]byte{1, 2, 3})
				return c.Characteristic
			}})
	}
	// subjects whose permissions come from the exported helpers, as application code builds custom characteristics;
	// the helpers were used (extended, edited) by other code before, and are again between any two builds
	helpers := []struct {
		name  string
		f     func() []string
		truth []string
	}{
		{"PermsAll", characteristic.PermsAll, []string{"pr", "pw", "ev"}},
		{"PermsRead", characteristic.PermsRead, []string{"pr", "ev"}},
		{"PermsReadOnly", characteristic.PermsReadOnly, []string{"pr"}},
		{"PermsWriteOnly", characteristic.PermsWriteOnly, []string{"pw"}},
	}
	for _, h := range helpers {
		h := h
		out = append(out,
			c11Subject{"generic.Bool[" + h.name + "()]", func() *characteristic.Characteristic {
				c := characteristic.NewBool("E011")
				c.Perms = h.f()
				c11UseHelpers()
				c.SetValue(true)
				return c11Declare(c.Characteristic, h.truth)
			}},
			c11Subject{"generic.Int[" + h.name + "()]", func() *characteristic.Characteristic {
				c := characteristic.NewInt("E012")
				c.Format = characteristic.FormatUInt8
				c.Perms = h.f()
				c11UseHelpers()
				c.SetValue(10)
				return c11Declare(c.Characteristic, h.truth)
			}},
			c11Subject{"generic.String[" + h.name + "()]", func() *characteristic.Characteristic {
				c := characteristic.NewString("E014")
				c.Perms = h.f()
				c11UseHelpers()
				c.SetValue("init")
				return c11Declare(c.Characteristic, h.truth)
			}})
	}
	// subjects whose permission set is REPLACED after construction by another set of the same length, or edited in
	// place: the permissions in force are the current ones (read permission is not taken away in these: a value stored
	// while it was there would stay, which is the application's business)
	type change struct {
		name         string
		first, later []string
		inPlace      bool
	}
	for _, ch := range []change{
		{"[pr,pw]→[pr,ev]", []string{"pr", "pw"}, []string{"pr", "ev"}, false},
		{"[pw,ev]→[pw,hd]", []string{"pw", "ev"}, []string{"pw", "hd"}, false},
		{"[pr,pw,ev]→[pr,hd,ev]", []string{"pr", "pw", "ev"}, []string{"pr", "hd", "ev"}, false},
		{"[pr,pw] edited in place to [pr,ev]", []string{"pr", "pw"}, []string{"pr", "ev"}, true},
		{"[pw]→[pr]", []string{"pw"}, []string{"pr"}, false},
	} {
		ch := ch
		apply := func(c *characteristic.Characteristic) *characteristic.Characteristic {
			if ch.inPlace {
				copy(c.Perms, ch.later)
			} else {
				c.Perms = append([]string{}, ch.later...)
			}
			return c11Declare(c, ch.later)
		}
		out = append(out,
			c11Subject{"generic.Bool " + ch.name, func() *characteristic.Characteristic {
				c := characteristic.NewBool("E021")
				c.Perms = append([]string{}, ch.first...)
				c.SetValue(true)
				c.IsReadable()
				c.IsWritable()
				c.IsObservable()
				return apply(c.Characteristic)
			}},
			c11Subject{"generic.Int " + ch.name, func() *characteristic.Characteristic {
				c := characteristic.NewInt("E022")
				c.Format = characteristic.FormatUInt8
				c.Perms = append([]string{}, ch.first...)
				c.SetValue(10)
				c.IsReadable()
				c.IsWritable()
				c.IsObservable()
				return apply(c.Characteristic)
			}})
	}
	return out
}

func permKey(ch *characteristic.Characteristic) string {
	c11TruthMu.Lock()
	t, ok := c11Truth[ch]
	c11TruthMu.Unlock()
	if !ok {
		t = ch.Perms
	}
	p := append([]string{}, t...)
	sort.Strings(p)
	return "[" + strings.Join(p, ",") + "]"
}

type c11Case struct {
	Subject string `json:"subject"`
	Path    string `json:"path"` // in-process | http
	Value   string `json:"value"`
	What    string `json:"what"`
}

// in-process path: every subject × every JSON-like value.
func c11InProcess(c *fw.Ctx) {
	subs := c11Subjects()
	vals := c12Values()
	for si, sub := range subs {
		if !c.Mine(si) {
			continue
		}
		for _, pre := range []string{"", "local-same", "local-ignored", "remote-read", "remote-read-getter", "remote-same"} {
			for _, v := range vals {
				if pre != "" && !c.Thorough() && len(v.Label) > 3 && v.Label != "true" && v.Label != "str:abc" {
					continue // quick: the prefixed histories use the short values only
				}
				c.Eval(1)
				ch := sub.Build()
				remote, local := 0, 0
				ch.OnValueUpdateFromConn(func(net.Conn, *characteristic.Characteristic, interface{}, interface{}) { remote++ })
				ch.OnValueUpdate(func(*characteristic.Characteristic, interface{}, interface{}) { local++ })
				cas := c11Case{Subject: sub.Name, Path: "in-process", Value: v.Label}
				// a first event that the characteristic ignores or that changes nothing must not "arm" anything
				switch pre {
				case "local-same":
					guard(func() { ch.UpdateValue(ch.Value) })
				case "local-ignored":
					guard(func() { ch.UpdateValue("NaN") })
					guard(func() { ch.UpdateValue([]interface{}{1.0}) })
				case "remote-read":
					guard(func() { ch.GetValueFromConnection(nullConn{}) })
				case "remote-read-getter":
					cur := ch.Value
					ch.OnValueGet(func() interface{} { return cur })
					guard(func() { ch.GetValueFromConnection(nullConn{}) })
					ch.OnValueGet(nil)
				case "remote-same":
					guard(func() { ch.UpdateValueFromConnection(ch.Value, nullConn{}) })
				}
				remote, local = 0, 0
				before := ch.Value
				cas.What = pre
				if p := guard(func() { ch.UpdateValueFromConnection(v.V, nullConn{}) }); p != nil {
					continue // a panic is C12's business
				}
				pk := permKey(ch)
				if !canW(ch) {
					if !reflect.DeepEqual(ch.Value, before) {
						c.Report("write-without-pw-changed-value/"+ch.Format, fmt.Sprintf("%s %s: a remote write of %s changed the value from %v to %v", sub.Name, pk, v.Label, before, ch.Value), cas)
					}
					if remote+local > 0 {
						c.Report("write-without-pw-invoked-callback/"+ch.Format, fmt.Sprintf("%s %s: a remote write of %s invoked %d application callbacks", sub.Name, pk, v.Label, remote+local), cas)
					}
				}
				if !canR(ch) {
					// local updates too must not store a value
					guard(func() { ch.UpdateValue(v.V) })
					if ch.Value != nil {
						c.Report("value-stored-without-pr/"+ch.Format, fmt.Sprintf("%s %s: stores the value %v although it has no read permission", sub.Name, pk, ch.Value), cas)
					}
					if j, err := json.Marshal(ch); err == nil && bytes.Contains(j, []byte(`"value"`)) {
						c.Report("value-revealed-without-pr/"+ch.Format, fmt.Sprintf("%s %s: the attribute database entry carries a value", sub.Name, pk), cas)
					}
				}
				c.Class("in-process:" + ch.Format + pk)
			}
		}
		// a remote write that arrives WHILE the application's callbacks for a local update of the same characteristic
		// are running (the application's handler is slow; a controller writes meanwhile): without pw it changes nothing
		{
			ch := sub.Build()
			if !canW(ch) && canR(ch) {
				c.Eval(1)
				cas := c11Case{Subject: sub.Name, Path: "in-process", What: "remote-write-during-local-callbacks"}
				remote := 0
				var attempted []interface{}
				ch.OnValueUpdateFromConn(func(net.Conn, *characteristic.Characteristic, interface{}, interface{}) { remote++ })
				inside := false
				ch.OnValueUpdate(func(_ *characteristic.Characteristic, nv, _ interface{}) {
					if inside { // (only code that lets the remote writes through gets here again: do not recurse without end)
						return
					}
					inside = true
					defer func() { inside = false }()
					for _, v := range vals {
						if len(v.Label) <= 3 || v.Label == "true" || v.Label == "str:abc" {
							attempted = append(attempted, v.V)
							guard(func() { ch.UpdateValueFromConnection(v.V, nullConn{}) })
						}
					}
				})
				var local interface{}
				for _, v := range vals { // a local update that changes the value, so that the callbacks run
					before := ch.Value
					guard(func() { ch.UpdateValue(v.V) })
					if !reflect.DeepEqual(ch.Value, before) {
						local = ch.Value
						break
					}
				}
				if local != nil {
					// one more local update gives deferred work a chance to run
					guard(func() { ch.UpdateValue(local) })
					if !reflect.DeepEqual(ch.Value, local) {
						c.Report("write-without-pw-changed-value/during-callbacks/"+ch.Format, fmt.Sprintf("%s %s: remote writes that arrived while the callbacks of a local update were running changed the value from %v to %v", sub.Name, permKey(ch), local, ch.Value), cas)
					}
					if remote > 0 {
						c.Report("write-without-pw-invoked-callback/during-callbacks/"+ch.Format, fmt.Sprintf("%s %s: remote writes that arrived while the callbacks of a local update were running invoked the remote-update callback %d times", sub.Name, permKey(ch), remote), cas)
					}
				}
			}
		}
	}
}

// HTTP path.
// c11NarrowedSubjects (HTTP path only): library characteristics that got their default value while readable and whose
// permissions the application then narrowed to write-only. What the object still holds is the application's
// business and is not judged; a controller's GET /characteristics must be refused all the same, because the
// permission decides, not the presence of a value.
var c11Narrowed = map[*characteristic.Characteristic]bool{}

func c11NarrowedSubjects() []c11Subject {
	mk := func(name string, build func() *characteristic.Characteristic) c11Subject {
		return c11Subject{name + "[narrowed to pw]", func() *characteristic.Characteristic {
			ch := build()
			ch.Perms = characteristic.PermsWriteOnly()
			c11Narrowed[ch] = true
			return c11Declare(ch, []string{"pw"})
		}}
	}
	return []c11Subject{
		mk("characteristic.NewBrightness", func() *characteristic.Characteristic { return characteristic.NewBrightness().Characteristic }),
		mk("characteristic.NewOn", func() *characteristic.Characteristic { return characteristic.NewOn().Characteristic }),
		mk("characteristic.NewName", func() *characteristic.Characteristic {
			n := characteristic.NewName()
			n.SetValue("stale-name")
			return n.Characteristic
		}),
	}
}

func c11HTTP(c *fw.Ctx) {
	dir := filepath.Join(c.Scratch, "c11")
	defer os.RemoveAll(dir)
	database, _ := dbOpen(dir)
	database.SaveEntity(dbEntity(idL))
	bridge := accessory.NewBridge(accessory.Info{Name: "C11Bridge"})
	type ent struct {
		name string
		ch   *characteristic.Characteristic
		acc  *accessory.Accessory
	}
	var ents []*ent
	var accs []*accessory.Accessory
	var cur *accessory.Accessory
	var svc *service.Service
	for i, sub := range append(c11Subjects(), c11NarrowedSubjects()...) {
		if i%25 == 0 {
			cur = accessory.New(accessory.Info{Name: fmt.Sprintf("P%d", i/25)}, accessory.TypeOther)
			svc = service.New(fmt.Sprintf("E1%02d", i/25))
			cur.AddService(svc)
			accs = append(accs, cur)
		}
		ch := sub.Build()
		svc.AddCharacteristic(ch)
		ents = append(ents, &ent{sub.Name, ch, cur})
	}
	w, err := world.Start(world.Options{Dir: dir}, bridge.Accessory, accs...)
	if err != nil {
		c.Infra(err.Error())
		return
	}
	defer w.Stop()
	remote := map[*characteristic.Characteristic]int{}
	local := map[*characteristic.Characteristic]int{}
	for _, e := range ents {
		ch := e.ch
		ch.OnValueUpdateFromConn(func(net.Conn, *characteristic.Characteristic, interface{}, interface{}) { remote[ch]++ })
		ch.OnValueUpdate(func(*characteristic.Characteristic, interface{}, interface{}) { local[ch]++ })
	}
	dial := func(seed string) *refctl.Ctl {
		k, err := refctl.Dial(w.Addr)
		if err != nil {
			c.Infra(err.Error())
			return nil
		}
		k.Timeout = 20 * time.Second
		if _, ec, err := refctl.PairVerify(k, idL, refctl.Seed32(seed), nil); err != nil || ec != 0 {
			c.Infra(fmt.Sprintf("verify: %v %d", err, ec))
			return nil
		}
		return k
	}
	k := dial("c11-a")
	if k == nil {
		return
	}
	defer k.Close()
	put := func(body string) (*refctl.Msg, []*refctl.Msg, error) {
		return k.Do("PUT", "/characteristics", refctl.CTJSON, []byte(body))
	}
	// a changing, valid value per format
	change := func(ch *characteristic.Characteristic, n int) (interface{}, string) {
		switch ch.Format {
		case characteristic.FormatBool:
			b := n%2 == 0
			if ch.Value == b {
				b = !b
			}
			return b, fmt.Sprint(b)
		case characteristic.FormatFloat:
			mn, _ := num(ch.MinValue)
			mx, ok := num(ch.MaxValue)
			v := mn + 1 + float64(n%3)
			if ok && v > mx {
				v = mx
			}
			if ch.Value == v {
				v = mn
			}
			return v, fmt.Sprint(v)
		case characteristic.FormatString, characteristic.FormatTLV8, characteristic.FormatData:
			s := fmt.Sprintf("QUJD%04d", n)
			return s, `"` + s + `"`
		default:
			mn, _ := num(ch.MinValue)
			mx, ok := num(ch.MaxValue)
			v := int(mn) + 1 + n%2
			if ok && v > int(mx) {
				v = int(mx)
			}
			if ch.Value == v {
				v = int(mn)
			}
			return v, fmt.Sprint(v)
		}
	}
	// a companion characteristic that accepts writes and subscriptions, for requests with several entries
	var comp *ent
	for _, e := range ents {
		if canW(e.ch) && canE(e.ch) && canR(e.ch) && e.ch.Format == characteristic.FormatBool {
			comp = e
			break
		}
	}
	for i, e := range ents {
		ch := e.ch
		pk := permKey(ch)
		cas := c11Case{Subject: e.name, Path: "http"}
		id := fmt.Sprintf(`"aid":%d,"iid":%d`, e.acc.ID, ch.ID)
		// 1. value write
		c.Eval(1)
		before, r0, l0 := ch.Value, remote[ch], local[ch]
		nv, js := change(ch, i)
		m, _, err := put(fmt.Sprintf(`{"characteristics":[{%s,"value":%s}]}`, id, js))
		if err != nil {
			c.Infra("PUT failed: " + err.Error())
			return
		}
		switch {
		case !canW(ch):
			if !reflect.DeepEqual(ch.Value, before) {
				c.Report("http-write-without-pw-changed-value/"+ch.Format, fmt.Sprintf("%s %s: PUT changed the value", e.name, pk), cas)
			}
			if remote[ch] != r0 || local[ch] != l0 {
				c.Report("http-write-without-pw-invoked-callback/"+ch.Format, fmt.Sprintf("%s %s: PUT invoked application callbacks", e.name, pk), cas)
			}
		case canR(ch):
			if !reflect.DeepEqual(ch.Value, nv) {
				c.Report("http-write-not-applied/"+ch.Format, fmt.Sprintf("%s %s: PUT of %s (status %d) left the value at %v", e.name, pk, js, m.Status, ch.Value), cas)
			}
		}
		if !canW(ch) {
			// 1b. other JSON spellings of a value (numbers for booleans, strings for numbers, …): the HTTP path may treat
			// them differently from the generic conversion, the permission must hold for each
			for _, js := range []string{`1`, `0`, `2`, `1.0`, `-1`, `"1"`, `"true"`, `true`, `false`, `5.5`, `"x"`} {
				c.Eval(1)
				before, r0, l0 := ch.Value, remote[ch], local[ch]
				if _, _, err := put(fmt.Sprintf(`{"characteristics":[{%s,"value":%s}]}`, id, js)); err != nil {
					c.Infra("PUT failed: " + err.Error())
					return
				}
				if !reflect.DeepEqual(ch.Value, before) {
					c.Report("http-write-without-pw-changed-value/spelling/"+ch.Format, fmt.Sprintf("%s %s: PUT of %s changed the value from %v to %v", e.name, pk, js, before, ch.Value), cas)
					break
				}
				if remote[ch] != r0 || local[ch] != l0 {
					c.Report("http-write-without-pw-invoked-callback/spelling/"+ch.Format, fmt.Sprintf("%s %s: PUT of %s invoked application callbacks", e.name, pk, js), cas)
					break
				}
			}
		}
		if !canW(ch) && canR(ch) {
			// 1c. the same write while the application has a read callback installed whose answer differs from what is
			// stored: the refused write must not pull the callback's value in (nor anything else)
			c.Eval(1)
			other, _ := change(ch, i+3)
			before, r0, l0 := ch.Value, remote[ch], local[ch]
			if !reflect.DeepEqual(other, before) {
				ch.OnValueGet(func() interface{} { return other })
				_, _, err := put(fmt.Sprintf(`{"characteristics":[{%s,"value":%s}]}`, id, js))
				ch.OnValueGet(nil)
				if err != nil {
					c.Infra("PUT failed: " + err.Error())
					return
				}
				if !reflect.DeepEqual(ch.Value, before) {
					c.Report("http-write-without-pw-changed-value/read-callback/"+ch.Format, fmt.Sprintf("%s %s: a PUT (refused: no write permission) while a read callback is installed changed the value from %v to %v", e.name, pk, before, ch.Value), cas)
				}
				if remote[ch] != r0 || local[ch] != l0 {
					c.Report("http-write-without-pw-invoked-callback/read-callback/"+ch.Format, fmt.Sprintf("%s %s: a PUT (refused: no write permission) while a read callback is installed invoked application callbacks", e.name, pk), cas)
				}
			}
		}
		// 2. read
		c.Eval(1)
		m, _, err = k.Do("GET", fmt.Sprintf("/characteristics?id=%d.%d", e.acc.ID, ch.ID), "", nil)
		if err != nil {
			c.Infra("GET failed: " + err.Error())
			return
		}
		es, perr := c09ParseEntries(m.Body)
		if !canR(ch) {
			if ch.Value != nil && !c11Narrowed[ch] {
				c.Report("http-value-stored-without-pr/"+ch.Format, fmt.Sprintf("%s %s: a value is stored", e.name, pk), cas)
			}
			if perr == nil && len(es) == 1 && es[0].hasVal {
				c.Report("http-value-revealed-without-pr/"+ch.Format, fmt.Sprintf("%s %s: GET /characteristics reveals a value", e.name, pk), cas)
			}
		}
		if !canR(ch) {
			// the same read while the application has a read callback installed (it answers local reads with it): the
			// callback's value must not be revealed or stored either
			c.Eval(1)
			secret, _ := change(ch, i+5)
			calls := 0
			ch.OnValueGet(func() interface{} { calls++; return secret })
			m, _, err = k.Do("GET", fmt.Sprintf("/characteristics?id=%d.%d", e.acc.ID, ch.ID), "", nil)
			// … nor appear in the attribute database while the callback is installed
			if j, jerr := json.Marshal(ch); jerr == nil && bytes.Contains(j, []byte(`"value"`)) && !c11Narrowed[ch] {
				c.Report("value-revealed-without-pr/read-callback/encoded/"+ch.Format, fmt.Sprintf("%s %s: while a read callback is installed the encoded characteristic carries a value", e.name, pk), cas)
			}
			if !c11Narrowed[ch] {
				if ma, _, aerr := k.Do("GET", "/accessories", "", nil); aerr == nil {
					var db struct {
						Accessories []struct {
							Aid      uint64 `json:"aid"`
							Services []struct {
								Characteristics []map[string]interface{} `json:"characteristics"`
							} `json:"services"`
						} `json:"accessories"`
					}
					if json.Unmarshal(ma.Body, &db) == nil {
						for _, a := range db.Accessories {
							for _, sv := range a.Services {
								for _, cj := range sv.Characteristics {
									if iid, _ := cj["iid"].(float64); a.Aid == e.acc.ID && uint64(iid) == ch.ID {
										if _, has := cj["value"]; has {
											c.Report("http-value-revealed-without-pr/read-callback/accessories/"+ch.Format, fmt.Sprintf("%s %s: while a read callback is installed GET /accessories shows a value", e.name, pk), cas)
										}
									}
								}
							}
						}
					}
				}
			}
			ch.OnValueGet(nil)
			if err != nil {
				c.Infra("GET failed: " + err.Error())
				return
			}
			es, perr := c09ParseEntries(m.Body)
			switch {
			case perr == nil && len(es) == 1 && es[0].hasVal:
				c.Report("http-value-revealed-without-pr/read-callback/"+ch.Format, fmt.Sprintf("%s %s: GET /characteristics reveals the value of the application's read callback (callback invoked %d times)", e.name, pk, calls), cas)
			case ch.Value != nil && !c11Narrowed[ch]:
				c.Report("http-value-stored-without-pr/read-callback/"+ch.Format, fmt.Sprintf("%s %s: a remote read stored the read callback's value", e.name, pk), cas)
			}
		}
		// 3. subscription
		c.Eval(1)
		m, _, err = put(fmt.Sprintf(`{"characteristics":[{%s,"ev":true}]}`, id))
		if err != nil {
			c.Infra("PUT ev failed: " + err.Error())
			return
		}
		if !canE(ch) {
			es, perr := c09ParseEntries(m.Body)
			ok := perr == nil && len(es) == 1 && es[0].Status != nil && *es[0].Status != 0
			if !ok {
				c.Report("subscription-without-ev-not-rejected/"+ch.Format, fmt.Sprintf("%s %s: ev=true answered with status %d and body %q instead of an entry with a non-zero status", e.name, pk, m.Status, trunc(m.Body, 80)), cas)
			}
			// other spellings of a truthy flag must not slip past the permission check either
			for _, sp := range []string{`1`, `1.0`, `"1"`, `"true"`, `"yes"`, `[true]`} {
				c.Eval(1)
				m2, _, err := put(fmt.Sprintf(`{"characteristics":[{%s,"ev":%s}]}`, id, sp))
				if err != nil {
					c.Infra("PUT ev failed: " + err.Error())
					return
				}
				es, perr := c09ParseEntries(m2.Body)
				if !(perr == nil && len(es) == 1 && es[0].Status != nil && *es[0].Status != 0) {
					c.Report("subscription-without-ev-not-rejected/spelling/"+ch.Format, fmt.Sprintf("%s %s: \"ev\":%s answered with status %d and no error status", e.name, pk, sp, m2.Status), cas)
					break
				}
			}
			// the rejected subscription in one request with entries that succeed, before and after it: its own entry
			// still carries the rejection status
			if comp != nil && comp.ch != ch {
				cid := fmt.Sprintf(`"aid":%d,"iid":%d`, comp.acc.ID, comp.ch.ID)
				_, cjs := change(comp.ch, i+3)
				for _, body := range []string{
					fmt.Sprintf(`{"characteristics":[{%s,"ev":true},{%s,"value":%s}]}`, id, cid, cjs),
					fmt.Sprintf(`{"characteristics":[{%s,"ev":true},{%s,"ev":true}]}`, cid, id),
					fmt.Sprintf(`{"characteristics":[{%s,"ev":true},{%s,"ev":true},{%s,"ev":false}]}`, cid, id, cid),
				} {
					c.Eval(1)
					m3, _, err := put(body)
					if err != nil {
						c.Infra("PUT batch failed: " + err.Error())
						return
					}
					es, perr := c09ParseEntries(m3.Body)
					rejected := false
					for _, x := range es {
						if x.Aid == e.acc.ID && x.Iid == ch.ID && x.Status != nil && *x.Status != 0 {
							rejected = true
						}
					}
					if perr != nil || !rejected {
						c.Report("subscription-without-ev-not-rejected/batch/"+ch.Format, fmt.Sprintf("%s %s: in a request with other entries that succeed, the ev=true entry is not answered with a non-zero status (status %d, body %q)", e.name, pk, m3.Status, trunc(m3.Body, 120)), cas)
						break
					}
				}
			}
			// value + ev in one entry: the value part follows the write permission, the ev part is rejected
			nv2, js2 := change(ch, i+1)
			before = ch.Value
			m, _, err = put(fmt.Sprintf(`{"characteristics":[{%s,"value":%s,"ev":true}]}`, id, js2))
			if err == nil {
				es, perr := c09ParseEntries(m.Body)
				if !(perr == nil && len(es) == 1 && es[0].Status != nil && *es[0].Status != 0) {
					c.Report("subscription-without-ev-not-rejected-combined/"+ch.Format, fmt.Sprintf("%s %s: value+ev entry not answered with a status", e.name, pk), cas)
				}
				if !canW(ch) && !reflect.DeepEqual(ch.Value, before) {
					c.Report("http-write-without-pw-changed-value-combined/"+ch.Format, fmt.Sprintf("%s %s: value+ev entry changed the value", e.name, pk), cas)
				}
				_ = nv2
			}
		}
		c.Class("http:" + ch.Format + pk)
	}
	// 4. after subscribing to everything: a local change of each non-observable characteristic must not produce an EVENT
	k2 := dial("c11-b") // a second connection makes remote changes
	if k2 == nil {
		return
	}
	defer k2.Close()
	for i, e := range ents {
		ch := e.ch
		if canE(ch) {
			continue
		}
		c.Eval(1)
		nv, js := change(ch, i+7)
		ch.UpdateValue(nv)
		if canW(ch) {
			nv2, js2 := change(ch, i+8)
			_ = nv2
			k2.Do("PUT", "/characteristics", refctl.CTJSON, []byte(fmt.Sprintf(`{"characteristics":[{"aid":%d,"iid":%d,"value":%s}]}`, e.acc.ID, ch.ID, js2)))
		}
		_ = js
		_, evs, err := k.Do("GET", "/characteristics?id=1.2", "", nil) // barrier
		if err != nil {
			c.Infra("barrier failed: " + err.Error())
			return
		}
		if len(evs) > 0 {
			c.Report("event-without-ev/"+ch.Format, fmt.Sprintf("%s %s: an EVENT was sent for a characteristic without event permission: %s", e.name, permKey(ch), trunc(evs[0].Body, 80)), c11Case{Subject: e.name, Path: "http", What: "event"})
		}
	}
	// 5. observable but not readable: a subscriber's EVENT after somebody else's write must not carry the value
	for i, e := range ents {
		ch := e.ch
		if !canE(ch) || canR(ch) {
			continue
		}
		c.Eval(1)
		if _, _, err := put(fmt.Sprintf(`{"characteristics":[{"aid":%d,"iid":%d,"ev":true}]}`, e.acc.ID, ch.ID)); err != nil {
			c.Infra("subscribe failed: " + err.Error())
			return
		}
		_, js := change(ch, i+21)
		secret := strings.Trim(js, `"`)
		if canW(ch) {
			k2.Do("PUT", "/characteristics", refctl.CTJSON, []byte(fmt.Sprintf(`{"characteristics":[{"aid":%d,"iid":%d,"value":%s}]}`, e.acc.ID, ch.ID, js)))
		}
		nv, _ := change(ch, i+22)
		ch.UpdateValue(nv)
		_, evs, err := k.Do("GET", "/characteristics?id=1.2", "", nil)
		if err != nil {
			c.Infra("barrier failed: " + err.Error())
			return
		}
		for _, ev := range evs {
			var body struct {
				Characteristics []struct {
					Value interface{} `json:"value"`
				} `json:"characteristics"`
			}
			json.Unmarshal(ev.Body, &body)
			for _, ce := range body.Characteristics {
				if ce.Value != nil {
					c.Report("event-reveals-value-without-pr/"+ch.Format, fmt.Sprintf("%s %s: an EVENT carries the value %v of a characteristic without read permission (written value was %s)", e.name, permKey(ch), ce.Value, secret), c11Case{Subject: e.name, Path: "http", What: "event-value"})
				}
			}
		}
		c.Class("http-event-unreadable:" + ch.Format)
	}
	c.Sample(map[string]interface{}{"characteristics_over_http": len(ents)})
}

func c11Run(c *fw.Ctx) {
	{
		interfRun(c, "C11") // statement-level interleavings of operations and handlers on disjoint objects (subprocess)
	}
	if c.Shard == c.NShards-1 {
		c11HTTP(c)
		if c.NShards > 1 {
			return
		}
	}
	c11InProcess(c)
}

func init() {
	fw.Register(&fw.Check{
		ID:    "C11",
		Level: "exploration",
		Rule:  "every characteristic constructor found in /repo with its own permissions plus the five generic constructors under all 8 subsets of {pr,pw,ev} and under 8 sets that hold the specification's other permissions (hd, wr, aa, tw) with and without those three. In-process: every subject × ≈40 JSON-like values through UpdateValueFromConnection, alone and after each of five first events that change nothing (local update with the same value, ignored local updates, a remote read with and without a read callback, a remote write of the current value), (and UpdateValue for write-only ones): without pw value and all callback counters unchanged — also for remote writes that arrive while the application's callbacks of a local update are running; without pr no value stored or encoded. HTTP (real transport, verified controller): per characteristic a changing valid PUT, a GET, ev=true, value+ev in one entry, then a local and a remote change followed by a barrier request: without pw nothing changes and no callback fires (also for 11 other JSON spellings of a value: numbers for booleans, strings for numbers, …); without pr no value is stored or revealed (also while the application has a read callback installed — then the encoded characteristic and /accessories show no value either, and a refused write does not pull the callback's answer in — and for library characteristics whose permissions the application narrowed to write-only after they had a value: GET /characteristics is refused by permission, not by absence of a value); without ev the subscription entry is answered with a non-zero status (also for non-boolean spellings of the flag) and no EVENT follows; an EVENT for an observable characteristic without pr carries no value. distinct_nontrivial = distinct (path, format, permission set) classes The permissions a subject is DECLARED to have are taken from gen/metadata.json (by type id), not from the object; subjects whose permission sets come from the exported helpers (PermsAll/Read/ReadOnly/WriteOnly) are built while other code extends and edits the helpers' results; a rejected subscription inside requests with entries that succeed (before / after it) still carries its status. Plus, in a subprocess built with a scheduling point before EVERY statement of hc's packages (textual insertion through go build -overlay): every interleaving with at most 1 (thorough 2) preemptions of pairs of operations on disjoint objects — and, where the property is about served requests, of pairs of handlers on two verified connections of one accessory touching different characteristics — each side must observe exactly what it observes when the two run one after the other (module-level mutable state is what makes them differ).",
		Run:   c11Run,
		Replay: func(c *fw.Ctx, raw json.RawMessage) {
			var cas c11Case
			json.Unmarshal(raw, &cas)
			if cas.Path == "http" {
				c11HTTP(c)
			} else {
				c11InProcess(c)
			}
		},
		Budget:      func(string) time.Duration { return 10 * time.Minute },
		Assumptions: []string{"a refused write need not be answered with an error status (the property only demands that nothing changes)", "panics on hostile values are C12's business"},
	})
}
