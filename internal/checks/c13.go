package checks

import (
	"bytes"
	"encoding/json"
	"fmt"
	"io"
	"sort"
	"strings"
	"time"

	"verif/internal/fw"
	"verif/internal/refctl"
	"verif/internal/world"
)

// C13 — no remote input panics or wedges the accessory.

type c13Input struct {
	State    string `json:"state"`         // fresh | setup-M1 | setup-M3 | verify-M1 | verified
	Method   string `json:"method"`        // HTTP method
	Path     string `json:"path"`          // endpoint (+ query)
	CType    string `json:"ctype"`         //
	Body     []byte `json:"body"`          //
	Class    string `json:"class"`         // input class (for signatures)
	BodyDesc string `json:"bodydesc"`      // human description
	Dyn      string `json:"dyn,omitempty"` // body built after the state is reached, sealed under the exchange's real key
	// Framing (verified state only): how the peer cuts the request into session frames — "" one frame per 1024 bytes;
	// "empty-first" / "empty-between" / "empty-last": a well-formed frame without data before, inside or after the
	// request; "bytes": one frame per byte of the first 40 bytes
	Framing string `json:"framing,omitempty"`
}

var c13States = []string{"fresh", "setup-M1", "setup-M3", "verify-M1", "verified"}

// tlvMutations derives malformed variants of a correct TLV message.
func tlvMutations(valid []byte, thorough bool) (out []struct {
	class string
	body  []byte
}) {
	add := func(class string, b []byte) {
		out = append(out, struct {
			class string
			body  []byte
		}{class, b})
	}
	add("empty", nil)
	add("valid", valid)
	step := 1
	if !thorough && len(valid) > 64 {
		step = len(valid) / 48
	}
	for i := 1; i < len(valid); i += step {
		add("prefix", valid[:i])
	}
	items, _ := refctl.TLVParse(valid)
	enc := func(its []refctl.Item) []byte { return refctl.TLVEncode(its...) }
	for i := range items {
		var rm, dup, retag []refctl.Item
		for j, it := range items {
			if j != i {
				rm = append(rm, it)
			}
			dup = append(dup, it)
			if j == i {
				dup = append(dup, it)
				retag = append(retag, refctl.Item{Tag: it.Tag ^ 0x40, Val: it.Val})
			} else {
				retag = append(retag, it)
			}
		}
		add(fmt.Sprintf("item-removed:%d", items[i].Tag), enc(rm))
		add(fmt.Sprintf("item-duplicated:%d", items[i].Tag), enc(dup))
		add(fmt.Sprintf("item-retagged:%d", items[i].Tag), enc(retag))
		for _, n := range []int{0, 1, 255, 256, 300} {
			var v []refctl.Item
			for j, it := range items {
				if j == i {
					v = append(v, refctl.Item{Tag: it.Tag, Val: pat(n, byte(n))})
				} else {
					v = append(v, it)
				}
			}
			add(fmt.Sprintf("item-len:%d:%d", items[i].Tag, n), enc(v))
		}
		if items[i].Tag == refctl.TagEncrypted {
			for n := 0; n <= 17; n++ {
				var v []refctl.Item
				for j, it := range items {
					if j == i {
						v = append(v, refctl.Item{Tag: it.Tag, Val: pat(n, 7)})
					} else {
						v = append(v, it)
					}
				}
				cls := "encrypted-shorter-than-tag"
				if n >= 16 {
					cls = "encrypted-len-16-17"
				}
				add(cls, enc(v))
			}
			val := items[i].Val
			for k := 0; k < 16 && len(val) >= 16; k++ {
				fl := append([]byte{}, val...)
				fl[len(fl)-1-k] ^= 1
				var v []refctl.Item
				for j, it := range items {
					if j == i {
						v = append(v, refctl.Item{Tag: it.Tag, Val: fl})
					} else {
						v = append(v, it)
					}
				}
				add("encrypted-tag-flipped", enc(v))
			}
		}
	}
	// method and state bytes 0..255
	for b := 0; b < 256; b++ {
		var st, me []refctl.Item
		hasM := false
		for _, it := range items {
			switch it.Tag {
			case refctl.TagState:
				st = append(st, refctl.Item{Tag: it.Tag, Val: []byte{byte(b)}})
				me = append(me, it)
			case refctl.TagMethod:
				hasM = true
				me = append(me, refctl.Item{Tag: it.Tag, Val: []byte{byte(b)}})
				st = append(st, it)
			default:
				st = append(st, it)
				me = append(me, it)
			}
		}
		if !hasM {
			me = append([]refctl.Item{{Tag: refctl.TagMethod, Val: []byte{byte(b)}}}, me...)
		}
		add("state-byte", enc(st))
		add("method-byte", enc(me))
	}
	add("truncated-item", append(append([]byte{}, valid...), 9, 200, 1, 2))
	add("garbage", pat(300, 99))
	return
}

func c13JSONBodies(aid, iid uint64) (out []struct {
	class string
	body  []byte
}) {
	add := func(class, b string) {
		out = append(out, struct {
			class string
			body  []byte
		}{class, []byte(b)})
	}
	id := fmt.Sprintf(`"aid":%d,"iid":%d`, aid, iid)
	add("empty", "")
	add("not-json", "{{{{")
	add("json-null", "null")
	add("json-array", "[]")
	add("json-number", "42")
	add("no-characteristics", "{}")
	add("characteristics-null", `{"characteristics":null}`)
	add("characteristics-object", `{"characteristics":{}}`)
	add("characteristics-string", `{"characteristics":"x"}`)
	add("entry-null", `{"characteristics":[null]}`)
	add("entry-number", `{"characteristics":[1]}`)
	add("aid-string", `{"characteristics":[{"aid":"1","iid":2,"value":1}]}`)
	add("aid-negative", `{"characteristics":[{"aid":-1,"iid":-2,"value":1}]}`)
	add("aid-float", `{"characteristics":[{"aid":1.5,"iid":2,"value":1}]}`)
	add("aid-huge", `{"characteristics":[{"aid":18446744073709551616,"iid":2,"value":1}]}`)
	add("unknown-id", `{"characteristics":[{"aid":999,"iid":999,"value":1,"ev":true}]}`)
	for _, v := range []string{`1e999`, `-0`, `18446744073709551616`, `1e-999`, `"str"`, `""`, `null`, `true`, `[]`, `[1,2]`, `{}`, `{"a":[1]}`, `-1`, `3.7`, `"NaN"`} {
		add("value:"+v, fmt.Sprintf(`{"characteristics":[{%s,"value":%s}]}`, id, v))
		add("value-twice:"+v, fmt.Sprintf(`{"characteristics":[{%s,"value":%s},{%s,"value":%s}]}`, id, v, id, v))
		add("ev:"+v, fmt.Sprintf(`{"characteristics":[{%s,"ev":%s}]}`, id, v))
	}
	add("duplicate-keys", fmt.Sprintf(`{"characteristics":[{%s,"value":1,"value":[1],"aid":2}]}`, id))
	add("deep-nesting", `{"characteristics":[{"aid":1,"iid":2,"value":`+strings.Repeat("[", 10000)+strings.Repeat("]", 10000)+`}]}`)
	add("deep-nesting-unclosed", strings.Repeat("[", 100000))
	add("huge-string", fmt.Sprintf(`{"characteristics":[{%s,"value":"%s"}]}`, id, strings.Repeat("A", 1<<20)))
	add("many-entries", `{"characteristics":[`+strings.TrimSuffix(strings.Repeat(fmt.Sprintf(`{%s,"value":1},`, id), 5000), ",")+`]}`)
	add("invalid-utf8", "{\"characteristics\":[{\"aid\":1,\"iid\":2,\"value\":\"\xff\xfe\"}]}")
	return
}

type c13Ctx struct {
	c   *fw.Ctx
	b   *bed
	acc int
}

func (x *c13Ctx) bed() *bed {
	if x.b == nil {
		b, err := newBed(x.c, bedOpt{Seed: []refctl.Identity{idL, idShortKey, idKeyless}, Snapshot: true})
		if err != nil {
			x.c.Infra("bed: " + err.Error())
			return nil
		}
		x.b = b
		// an observer: a verified controller subscribed to the characteristics the inputs write to; it only drains
		// what it receives. A write that changes a value therefore also runs the notification path.
		if k, err := b.Dial(); err == nil {
			if _, ec, err := refctl.PairVerify(k, idL, refctl.Seed32("c13-observer"), b.AccLTPK); err == nil && ec == 0 {
				var ents []string
				for _, t := range c13Targets(b) {
					ents = append(ents, fmt.Sprintf(`{"aid":%d,"iid":%d,"ev":true}`, t.aid, t.iid))
				}
				k.Do("PUT", "/characteristics", refctl.CTJSON, []byte(`{"characteristics":[`+strings.Join(ents, ",")+`]}`))
				k.C.SetReadDeadline(time.Time{})
				go io.Copy(io.Discard, k.C)
			}
		}
	}
	return x.b
}

type c13Target struct {
	kind     string
	aid, iid uint64
}

// c13Targets: writable characteristics of each value format in the test bed.
func c13Targets(b *bed) []c13Target {
	return []c13Target{
		{"int", b.Bulb.Accessory.ID, b.Bulb.Lightbulb.Brightness.ID},
		{"float", b.Bulb.Accessory.ID, b.Bulb.Lightbulb.Hue.ID},
		{"bool", b.Switch.Accessory.ID, b.Switch.Switch.On.ID},
		{"tlv8-write-only", b.Extra.ID, b.BlobWO.ID},
		{"tlv8-unset", b.Extra.ID, b.BlobUnset.ID},
	}
}

func (x *c13Ctx) drop() {
	if x.b != nil {
		x.b.Close()
		x.b = nil
	}
}

// reach brings a fresh connection into the protocol state.
func (x *c13Ctx) reach(state string) (*refctl.Ctl, *refctl.Setup, *refctl.Verify, error) {
	b := x.bed()
	if b == nil {
		return nil, nil, nil, fmt.Errorf("no bed")
	}
	k, err := b.Dial()
	if err != nil {
		return nil, nil, nil, err
	}
	k.Timeout = 15 * time.Second
	x.acc++
	switch state {
	case "setup-M1", "setup-M3":
		s := &refctl.Setup{}
		m, _, err := k.Do("POST", "/pair-setup", refctl.CTPairing, refctl.SetupM1())
		if err != nil {
			return k, nil, nil, err
		}
		if err := s.ParseM2(m.Body); err != nil {
			return k, nil, nil, err
		}
		if state == "setup-M3" {
			m3, _ := s.M3(refctl.Seed32(fmt.Sprintf("c13:%d", x.acc)), b.Code)
			m, _, err = k.Do("POST", "/pair-setup", refctl.CTPairing, m3)
			if err != nil {
				return k, nil, nil, err
			}
			if ec, err := s.ParseM4(m.Body); err != nil || ec != 0 {
				return k, nil, nil, fmt.Errorf("M4: %v %d", err, ec)
			}
		}
		return k, s, nil, nil
	case "verify-M1":
		v := refctl.NewVerify(refctl.Seed32(fmt.Sprintf("c13v:%d", x.acc)))
		m, _, err := k.Do("POST", "/pair-verify", refctl.CTPairing, refctl.VerifyM1(v.EphPub))
		if err != nil {
			return k, nil, nil, err
		}
		if err := v.ParseM2(m.Body, b.AccLTPK); err != nil {
			return k, nil, nil, err
		}
		return k, nil, v, nil
	case "verified":
		if _, ec, err := refctl.PairVerify(k, idL, refctl.Seed32(fmt.Sprintf("c13L:%d", x.acc)), b.AccLTPK); err != nil || ec != 0 {
			return k, nil, nil, fmt.Errorf("verify: %v %d", err, ec)
		}
	}
	return k, nil, nil, nil
}

// healthy: an honest handshake and a request succeed on a new connection.
func (x *c13Ctx) healthy() string {
	b := x.bed()
	k, err := b.Dial()
	if err != nil {
		return "dial: " + err.Error()
	}
	defer k.Close()
	k.Timeout = 15 * time.Second
	x.acc++
	if _, ec, err := refctl.PairVerify(k, idL, refctl.Seed32(fmt.Sprintf("c13h:%d", x.acc)), b.AccLTPK); err != nil || ec != 0 {
		return fmt.Sprintf("pair-verify on a new connection fails: %v (code %d)", err, ec)
	}
	m, _, err := k.Do("GET", "/accessories", "", nil)
	if err != nil || m.Status != 200 {
		return fmt.Sprintf("GET /accessories on a new verified connection fails: %v", err)
	}
	aid, iid := b.Brightness()
	m, _, err = k.Do("PUT", "/characteristics", refctl.CTJSON, []byte(fmt.Sprintf(`{"characteristics":[{"aid":%d,"iid":%d,"value":%d}]}`, aid, iid, x.acc%100)))
	if err != nil || m.Status != 204 {
		return fmt.Sprintf("PUT on a new verified connection fails: %v", err)
	}
	return ""
}

func c13Exec(x *c13Ctx, in c13Input) {
	c := x.c
	c.Eval(1)
	sigTail := fmt.Sprintf("%s %s/%s/%s", in.Method, strings.SplitN(in.Path, "?", 2)[0], in.State, in.Class)
	fail := func(sym, desc string) {
		c.Report(sym+"/"+sigTail, fmt.Sprintf("state %s, %s %s, input %s: %s", in.State, in.Method, in.Path, in.Class, desc), in)
	}
	world.ResetCapture()
	k, rs, rv, err := x.reach(in.State)
	if err == nil && in.Dyn != "" {
		c13CurLocal = k.Local
		in.Body = c13DynBody(in.Dyn, rs, rv)
	}
	if err != nil {
		if k != nil {
			k.Close()
		}
		// the state could not be reached: is the accessory wedged by an earlier input?
		if why := x.healthy(); why != "" {
			c.Infra("cannot reach state " + in.State + " and system unhealthy: " + why + "; fresh system")
		}
		x.drop()
		c.Eval(-1)
		return
	}
	defer k.Close()
	var m *refctl.Msg
	if in.Framing == "chunked" {
		// the body travels with Transfer-Encoding: chunked (no Content-Length), in two chunks
		var raw bytes.Buffer
		fmt.Fprintf(&raw, "%s %s HTTP/1.1\r\nHost: accessory.local\r\nContent-Type: %s\r\nTransfer-Encoding: chunked\r\n\r\n", in.Method, in.Path, in.CType)
		cut := len(in.Body) / 2
		for _, part := range [][]byte{in.Body[:cut], in.Body[cut:]} {
			if len(part) > 0 {
				fmt.Fprintf(&raw, "%x\r\n%s\r\n", len(part), part)
			}
		}
		raw.WriteString("0\r\n\r\n")
		if err = k.Send(raw.Bytes()); err == nil {
			m, _, err = k.Await()
		}
	} else if in.Framing != "" && in.State == "verified" {
		req := refctl.BuildRequest(in.Method, in.Path, in.CType, in.Body)
		var pieces [][]byte
		switch in.Framing {
		case "empty-first":
			pieces = [][]byte{{}, req}
		case "empty-between":
			pieces = [][]byte{req[:10], {}, {}, req[10:]}
		case "empty-last":
			pieces = [][]byte{req, {}}
		default:
			for i := 0; i < 40 && i < len(req)-1; i++ {
				pieces = append(pieces, req[i:i+1])
			}
			pieces = append(pieces, req[len(pieces):])
		}
		if err = k.SendPieces(pieces...); err == nil {
			m, _, err = k.Await()
		}
	} else {
		m, _, err = k.Do(in.Method, in.Path, in.CType, in.Body)
	}
	time.Sleep(200 * time.Microsecond)
	if p := world.PanicsFor(k.Local); len(p) > 0 {
		site := world.PanicSite(k.Local)
		c.Report(fmt.Sprintf("panic/%s/%s %s/%s", site, in.Method, strings.SplitN(in.Path, "?", 2)[0], in.State), fmt.Sprintf("state %s, %s %s, input %s: handler panics: %s", in.State, in.Method, in.Path, in.Class, p[0]), in)
		x.drop() // a panic may leave locks held: continue on a fresh system
		return
	}
	if err != nil {
		fail("no-response", "the connection was dropped or the response is not well-formed HTTP: "+err.Error())
		x.drop()
		return
	}
	c.Class(fmt.Sprintf("%s %s/%s→%d", in.Method, strings.SplitN(in.Path, "?", 2)[0], in.State, m.Status))
	// same connection: a correct handshake still succeeds after at most one rejected start request
	if strings.EqualFold(m.Header["connection"], "close") {
		// the server announced that it closes the connection after this (well-formed) answer, as HTTP allows –
		// e.g. net/http does so for a refused request whose large body it will not read; only the new-connection clause applies
		c.Class("announced-close")
	} else if in.State == "verified" {
		if r, _, err := k.Do("GET", "/characteristics?id=2.9", "", nil); err != nil || r.Status/100 != 2 {
			fail("verified-connection-broken", fmt.Sprintf("after the input the verified connection no longer serves requests: %v", err))
			x.drop()
			return
		}
	} else {
		ok := false
		var last string
		for attempt := 0; attempt < 2 && !ok; attempt++ {
			x.acc++
			_, ec, err := refctl.PairVerify(k, idL, refctl.Seed32(fmt.Sprintf("c13s:%d", x.acc)), x.b.AccLTPK)
			if err == nil && ec == 0 {
				ok = true
			} else {
				last = fmt.Sprintf("%v (code %d)", err, ec)
				if err != nil && strings.Contains(err.Error(), "EOF") {
					break
				}
			}
		}
		if !ok {
			fail("same-connection-handshake-fails", "after the input (and one rejected start) a correct pair-verify on the same connection still fails: "+last)
			x.drop()
			return
		}
	}
	if why := x.healthy(); why != "" {
		fail("wedged", "after the input "+why)
		x.drop()
	}
}

// c13DynBody builds messages that ARE correctly sealed under the key of the running exchange (so that they get
// past decryption) but carry a malformed signed sub-TLV.
// c13CurLocal is the local address ("ip:port") of the connection the current input is sent on.
var c13CurLocal string

func c13DynBody(dyn string, s *refctl.Setup, v *refctl.Verify) []byte {
	parts := strings.SplitN(dyn, ":", 2)
	variant := parts[1]
	sub := func(id string, ltpk, sig []byte) []byte {
		var items []refctl.Item
		if id != "<none>" {
			items = append(items, refctl.T(refctl.TagIdentifier, []byte(id)))
		}
		if ltpk != nil {
			items = append(items, refctl.T(refctl.TagPublicKey, ltpk))
		}
		if sig != nil {
			items = append(items, refctl.T(refctl.TagSignature, sig))
		}
		return refctl.TLVEncode(items...)
	}
	var body []byte
	switch variant {
	case "ltpk-0":
		body = sub("someone", []byte{}, pat(64, 1))
	case "ltpk-31":
		body = sub("someone", pat(31, 2), pat(64, 1))
	case "ltpk-33":
		body = sub("someone", pat(33, 2), pat(64, 1))
	case "ltpk-missing":
		body = sub("someone", nil, pat(64, 1))
	case "sig-0":
		body = sub(idL.ID, idL.Pub, []byte{})
	case "sig-63":
		body = sub(idL.ID, idL.Pub, pat(63, 3))
	case "sig-65":
		body = sub(idL.ID, idL.Pub, pat(65, 3))
	case "sig-missing":
		body = sub(idL.ID, idL.Pub, nil)
	case "id-missing":
		body = sub("<none>", idL.Pub, pat(64, 3))
	case "id-300":
		body = sub(strings.Repeat("i", 300), idL.Pub, pat(64, 3))
	case "valid-id-125", "valid-id-300":
		// everything about the message is valid (right code, seal, signature) except that the identifier is longer than
		// any file name: the pairing cannot be stored
		n := 125
		if variant == "valid-id-300" {
			n = 300
		}
		long := refctl.NewIdentity(strings.Repeat("L", n), "c13-long-id")
		if s != nil && s.SRP != nil {
			body = refctl.M5Sub(s.SRP.K, long)
		} else {
			body = sub(long.ID, long.Pub, pat(64, 3))
		}
	case "name-device", "name-own-address":
		// names that are keys of the accessory's own bookkeeping: "device" (the secured device in the shared context)
		// and this connection's address (the key of its session)
		n := "device"
		if variant == "name-own-address" {
			n = c13CurLocal
		}
		body = sub(n, nil, pat(64, 4))
	case "name-shortkey-entity":
		body = sub(idShortKey.ID, nil, pat(64, 4))
	case "name-keyless-entity":
		body = sub(idKeyless.ID, nil, pat(64, 4))
	case "empty":
		body = nil
	case "garbage":
		body = pat(70, 9)
	case "truncated":
		body = sub(idL.ID, idL.Pub, pat(64, 3))
		body = body[:len(body)-5]
	}
	if parts[0] == "M5-sealed" && s != nil && s.EncKey != nil {
		return refctl.M5Sealed(s.EncKey, body)
	}
	if parts[0] == "M3-sealed" && v != nil && v.EncKey != nil {
		return refctl.VerifyM3Sealed(v.EncKey, body)
	}
	return refctl.TLVEncode(refctl.T(refctl.TagState, []byte{5}))
}

var c13DynVariants = []string{"ltpk-0", "ltpk-31", "ltpk-33", "ltpk-missing", "sig-0", "sig-63", "sig-65", "sig-missing", "id-missing", "id-300", "name-shortkey-entity", "name-keyless-entity", "empty", "garbage", "truncated", "valid-id-125", "valid-id-300", "name-device", "name-own-address"}

func c13Inputs(b *bed, thorough bool) []c13Input {
	var out []c13Input
	aid, iid := b.Brightness()
	// reference messages for the TLV endpoints
	v := refctl.NewVerify(refctl.Seed32("c13-ref"))
	v.AccEph, v.Shared = refctl.Seed32("x"), refctl.Seed32("y")
	v.EncKey = refctl.Seed32("z")
	srp := refctl.NewSRPClient(refctl.Seed32("c13-a"))
	setupMsgs := map[string][]byte{
		"M1": refctl.SetupM1(),
		"M3": refctl.TLVEncode(refctl.T(refctl.TagState, []byte{3}), refctl.T(refctl.TagPublicKey, srp.A), refctl.T(refctl.TagProof, pat(64, 3))),
		"M5": refctl.M5Sealed(refctl.Seed32("k"), refctl.M5Sub(nil, idX)),
	}
	verifyMsgs := map[string][]byte{
		"M1": refctl.VerifyM1(v.EphPub),
		"M3": refctl.VerifyM3Sealed(v.EncKey, v.M3Sub(idL.ID, idX.Priv)),
	}
	pairingMsgs := map[string][]byte{
		"add":    refctl.TLVEncode(refctl.T(refctl.TagState, []byte{1}), refctl.T(refctl.TagMethod, []byte{3}), refctl.T(refctl.TagIdentifier, []byte("someone")), refctl.T(refctl.TagPublicKey, idX.Pub), refctl.T(refctl.TagPermission, []byte{0})),
		"remove": refctl.TLVEncode(refctl.T(refctl.TagState, []byte{1}), refctl.T(refctl.TagMethod, []byte{4}), refctl.T(refctl.TagIdentifier, []byte("someone"))),
		"list":   refctl.TLVEncode(refctl.T(refctl.TagState, []byte{1}), refctl.T(refctl.TagMethod, []byte{5})),
	}
	// pair-verify start requests whose public key is a point with a small order (or no point at all)
	lowOrder := map[string][]byte{
		"zero": make([]byte, 32), "one": append([]byte{1}, make([]byte, 31)...), "ff": bytes.Repeat([]byte{0xff}, 32),
		"order8-a": {0xe0, 0xeb, 0x7a, 0x7c, 0x3b, 0x41, 0xb8, 0xae, 0x16, 0x56, 0xe3, 0xfa, 0xf1, 0x9f, 0xc4, 0x6a, 0xda, 0x09, 0x8d, 0xeb, 0x9c, 0x32, 0xb1, 0xfd, 0x86, 0x62, 0x05, 0x16, 0x5f, 0x49, 0xb8, 0x00},
		"order8-b": {0x5f, 0x9c, 0x95, 0xbc, 0xa3, 0x50, 0x8c, 0x24, 0xb1, 0xd0, 0xb1, 0x55, 0x9c, 0x83, 0xef, 0x5b, 0x04, 0x44, 0x5c, 0xc4, 0x58, 0x1c, 0x8e, 0x86, 0xd8, 0x22, 0x4e, 0xdd, 0xd0, 0x9f, 0x11, 0x57},
		"p-1":      {0xec, 0xff, 0xff, 0xff, 0xff, 0xff, 0xff, 0xff, 0xff, 0xff, 0xff, 0xff, 0xff, 0xff, 0xff, 0xff, 0xff, 0xff, 0xff, 0xff, 0xff, 0xff, 0xff, 0xff, 0xff, 0xff, 0xff, 0xff, 0xff, 0xff, 0xff, 0x7f},
		"p":        {0xed, 0xff, 0xff, 0xff, 0xff, 0xff, 0xff, 0xff, 0xff, 0xff, 0xff, 0xff, 0xff, 0xff, 0xff, 0xff, 0xff, 0xff, 0xff, 0xff, 0xff, 0xff, 0xff, 0xff, 0xff, 0xff, 0xff, 0xff, 0xff, 0xff, 0xff, 0x7f},
		"p+1":      {0xee, 0xff, 0xff, 0xff, 0xff, 0xff, 0xff, 0xff, 0xff, 0xff, 0xff, 0xff, 0xff, 0xff, 0xff, 0xff, 0xff, 0xff, 0xff, 0xff, 0xff, 0xff, 0xff, 0xff, 0xff, 0xff, 0xff, 0xff, 0xff, 0xff, 0xff, 0x7f},
	}
	var loNames []string
	for n := range lowOrder {
		loNames = append(loNames, n)
	}
	sort.Strings(loNames)
	for _, st := range []string{"fresh", "verify-M1", "verified"} {
		for _, n := range loNames {
			out = append(out, c13Input{State: st, Method: "POST", Path: "/pair-verify", CType: refctl.CTPairing, Body: refctl.VerifyM1(lowOrder[n]), Class: "M1:public-key-" + n})
		}
	}
	// the first event operation of a verified connection is an unsubscription (alone, and together with a write)
	out = append(out, c13Input{State: "verified", Method: "PUT", Path: "/characteristics", CType: refctl.CTJSON, Body: []byte(fmt.Sprintf(`{"characteristics":[{"aid":%d,"iid":%d,"ev":false}]}`, aid, iid)), Class: "first-ev-operation-is-unsubscribe"})
	out = append(out, c13Input{State: "verified", Method: "PUT", Path: "/characteristics", CType: refctl.CTJSON, Body: []byte(fmt.Sprintf(`{"characteristics":[{"aid":%d,"iid":%d,"value":12,"ev":false}]}`, aid, iid)), Class: "first-ev-operation-is-write-and-unsubscribe"})
	// a verified peer that cuts its requests into session frames in unusual but well-formed ways
	for _, fr := range []string{"empty-first", "empty-between", "empty-last", "bytes"} {
		out = append(out, c13Input{State: "verified", Method: "GET", Path: "/accessories", Framing: fr, Class: "framing:" + fr})
		out = append(out, c13Input{State: "verified", Method: "PUT", Path: "/characteristics", CType: refctl.CTJSON, Body: []byte(fmt.Sprintf(`{"characteristics":[{"aid":%d,"iid":%d,"value":33}]}`, aid, iid)), Framing: fr, Class: "framing:" + fr})
	}
	// pairing requests whose body is sent with chunked transfer encoding (no Content-Length): a well-formed start, and garbage
	for _, st := range []string{"fresh", "verify-M1", "setup-M3", "verified"} {
		out = append(out, c13Input{State: st, Method: "POST", Path: "/pair-verify", CType: refctl.CTPairing, Body: refctl.VerifyM1(pat(32, 9)), Framing: "chunked", Class: "chunked:verify-start"})
		out = append(out, c13Input{State: st, Method: "POST", Path: "/pair-setup", CType: refctl.CTPairing, Body: refctl.TLVEncode(refctl.T(refctl.TagState, []byte{1}), refctl.T(0, []byte{0})), Framing: "chunked", Class: "chunked:setup-start"})
		out = append(out, c13Input{State: st, Method: "POST", Path: "/pairings", CType: refctl.CTPairing, Body: pat(40, 3), Framing: "chunked", Class: "chunked:pairings-garbage"})
		out = append(out, c13Input{State: st, Method: "POST", Path: "/pair-setup", CType: refctl.CTPairing, Body: pat(5000, 4), Framing: "chunked", Class: "chunked:setup-5000-bytes-garbage"})
	}
	// encrypted items far longer than a session frame (a TLV value may have any length)
	for _, n := range []int{1024, 1025, 1040, 1041, 2000, 70000} {
		for _, st := range []string{"fresh", "verify-M1", "setup-M3", "verified"} {
			out = append(out, c13Input{State: st, Method: "POST", Path: "/pair-verify", CType: refctl.CTPairing, Body: refctl.TLVEncode(refctl.T(refctl.TagState, []byte{3}), refctl.T(refctl.TagEncrypted, pat(n, 5))), Class: fmt.Sprintf("M3:encrypted-data-%d-bytes", n)})
			out = append(out, c13Input{State: st, Method: "POST", Path: "/pair-setup", CType: refctl.CTPairing, Body: refctl.TLVEncode(refctl.T(refctl.TagState, []byte{5}), refctl.T(refctl.TagEncrypted, pat(n, 6))), Class: fmt.Sprintf("M5:encrypted-data-%d-bytes", n)})
		}
	}
	for _, vr := range c13DynVariants {
		out = append(out, c13Input{State: "setup-M3", Method: "POST", Path: "/pair-setup", CType: refctl.CTPairing, Dyn: "M5-sealed:" + vr, Class: "M5-correctly-sealed:" + vr})
		out = append(out, c13Input{State: "verify-M1", Method: "POST", Path: "/pair-verify", CType: refctl.CTPairing, Dyn: "M3-sealed:" + vr, Class: "M3-correctly-sealed:" + vr})
	}
	for _, st := range c13States {
		for name, msg := range setupMsgs {
			if !thorough && ((st == "verify-M1" || st == "verified") && name != "M5") {
				continue
			}
			for _, mu := range tlvMutations(msg, thorough) {
				if !thorough && (mu.class == "state-byte" || mu.class == "method-byte") && name != "M1" {
					continue
				}
				out = append(out, c13Input{State: st, Method: "POST", Path: "/pair-setup", CType: refctl.CTPairing, Body: mu.body, Class: name + ":" + mu.class})
			}
		}
		for name, msg := range verifyMsgs {
			if !thorough && (st == "setup-M1" || st == "setup-M3") && name != "M3" {
				continue
			}
			for _, mu := range tlvMutations(msg, thorough) {
				if !thorough && (mu.class == "state-byte" || mu.class == "method-byte") && name != "M1" {
					continue
				}
				out = append(out, c13Input{State: st, Method: "POST", Path: "/pair-verify", CType: refctl.CTPairing, Body: mu.body, Class: name + ":" + mu.class})
			}
		}
		if st == "fresh" || st == "verified" || thorough {
			for name, msg := range pairingMsgs {
				for _, mu := range tlvMutations(msg, thorough) {
					if !thorough && (mu.class == "state-byte" || (mu.class == "method-byte" && name != "add")) {
						continue
					}
					out = append(out, c13Input{State: st, Method: "POST", Path: "/pairings", CType: refctl.CTPairing, Body: mu.body, Class: name + ":" + mu.class})
				}
			}
			for _, jb := range c13JSONBodies(aid, iid) {
				out = append(out, c13Input{State: st, Method: "PUT", Path: "/characteristics", CType: refctl.CTJSON, Body: jb.body, Class: jb.class})
				if strings.HasPrefix(jb.class, "value") || strings.HasPrefix(jb.class, "ev:") {
					continue
				}
				out = append(out, c13Input{State: st, Method: "POST", Path: "/resource", CType: refctl.CTJSON, Body: jb.body, Class: jb.class})
			}
			for _, t := range c13Targets(b)[1:] {
				for _, v := range []string{`"NaN"`, `"Inf"`, `"-Inf"`, `"+Inf"`, `"nan"`, `"1e999"`, `1e999`, `"0x10"`, `"1_0"`, `null`, `[]`, `{}`, `"str"`, `-0`, `1e308`, `-1e308`, `5e-324`, `7`, `[1,2]`, `[1,2]`, `true`, `{"a":[1]}`, `{"a":[1]}`} {
					out = append(out, c13Input{State: st, Method: "PUT", Path: "/characteristics", CType: refctl.CTJSON, Body: []byte(fmt.Sprintf(`{"characteristics":[{"aid":%d,"iid":%d,"value":%s}]}`, t.aid, t.iid, v)), Class: "value-" + t.kind + ":" + v})
				}
			}
			for _, rb := range []string{`{"resource-type":"image","image-width":2,"image-height":2}`, `{"resource-type":"image","image-width":-1,"image-height":2}`, `{"resource-type":"image","image-width":"2"}`, `{"resource-type":7}`, `{"resource-type":"image","image-width":1e999}`, `{"resource-type":"other"}`, `{"resource-type":"image","image-width":4294967296,"image-height":4294967296}`} {
				out = append(out, c13Input{State: st, Method: "POST", Path: "/resource", CType: refctl.CTJSON, Body: []byte(rb), Class: "resource:" + rb})
			}
			for _, q := range []string{"", "id=", "id=1", "id=1.2.3", "id=a.b", "id=1.", "id=.1", "id=99999999999999999999.1", "id=1.2,", "id=,", "id=1.2&meta=1&perms=1&type=1&ev=1", "id=-1.-2", "id=1.2,1.2,1.2", "id=" + strings.Repeat("1.2,", 2000) + "1.2", "id=%ff%fe", "id=1.2;id=3.4", "id=%", "x=y"} {
				cl := q
				if len(cl) > 30 {
					cl = cl[:30] + "…"
				}
				out = append(out, c13Input{State: st, Method: "GET", Path: "/characteristics?" + q, Class: "query:" + cl})
			}
			for _, mth := range []string{"POST", "DELETE", "PATCH", "HEAD", "OPTIONS"} {
				for _, p := range []string{"/characteristics", "/accessories", "/pairings", "/pair-setup", "/pair-verify", "/resource", "/identify", "/nonexistent"} {
					if mth == "HEAD" {
						continue // a HEAD response has no body by definition; the reference reader does not model it
					}
					out = append(out, c13Input{State: st, Method: mth, Path: p, CType: refctl.CTJSON, Body: []byte(`{}`), Class: "method:" + mth})
				}
			}
			out = append(out, c13Input{State: st, Method: "GET", Path: "/accessories", Class: "plain-get"})
			out = append(out, c13Input{State: st, Method: "POST", Path: "/identify", CType: refctl.CTJSON, Body: []byte(`{"x":1}`), Class: "identify"})
			out = append(out, c13Input{State: st, Method: "POST", Path: "/identify", Class: "identify-empty"})
		}
	}
	return out
}

func c13Run(c *fw.Ctx) {
	{
		interfRun(c, "C13") // statement-level interleavings of handlers on several connections (subprocess)
	}
	x := &c13Ctx{c: c}
	b := x.bed()
	if b == nil {
		return
	}
	inputs := c13Inputs(b, c.Thorough())
	if c.Shard == 0 {
		c.Extra("inputs_total", int64(len(inputs)))
		c.Sample(map[string]interface{}{"state": inputs[3].State, "path": inputs[3].Path, "class": inputs[3].Class, "body_hex": fmt.Sprintf("%x", inputs[3].Body)})
	}
	for i, in := range inputs {
		if !c.Mine(i) {
			continue
		}
		if c.Expired() {
			c.NotExhaustive("deadline")
			break
		}
		c13Exec(x, in)
	}
	x.drop()
}

func init() {
	fw.Register(&fw.Check{
		ID:    "C13",
		Level: "exploration",
		Rule:  "for every protocol state reachable by a prefix of a correct exchange (fresh connection; pair-setup after M1 and after a right-code M3; pair-verify after M1; verified encrypted session) × every endpoint (/pair-setup, /pair-verify, /pairings, /characteristics GET+PUT, /accessories, /resource, /identify, unknown paths and methods) an input alphabet derived mechanically from the correct next messages: empty body, every prefix, every item removed / duplicated / re-tagged, item lengths 0,1,255,256,300, encrypted payloads of length 0..17 and with each of the 16 tag bytes flipped, key-exchange / finish messages CORRECTLY sealed under the running exchange's key but with malformed signed sub-TLVs (key and signature lengths 0/31/33/63/65, missing items, names of stored entities with a short or no key), method and state bytes 0..255, garbage; JSON bodies with wrong types per field, 1e999, -0, 2^64, nesting depth 10000 / 100000, duplicate keys, 1 MiB string, 5000 entries, invalid UTF-8; malformed id queries. Real transport over TCP. Oracle per input: no handler panic (net/http's panic log, attributed by remote address), a well-formed HTTP response (any status) instead of a dropped connection, then a correct pair-verify on the SAME connection after at most one rejected start (or, on a verified connection, a further encrypted request), and a correct handshake + read + write on a NEW connection. distinct_nontrivial = distinct (endpoint, state, status) classes Values for float, bool and two tlv8 targets without a value (a write-only one with a typed application callback, a readable unset one; numbers, lists and objects, each twice): \"NaN\", \"Inf\", \"1e999\", 1e999, \"0x10\", null, arrays, objects, ±1e308, 5e-324 (a verified observer is subscribed to the targets, so changes run the notification path); encrypted items of 1024…70000 bytes in pair-verify finish and pair-setup key-exchange messages; pair-verify start requests whose public key is 0, 1, p−1, p, p+1, 2^256−1 or a point of order 8; on a verified connection, requests cut into session frames in unusual well-formed ways (a frame without data before, inside or after the request; one frame per byte); a verified connection whose first event operation is an unsubscription; a completely valid key exchange whose identifier (125 / 300 bytes) cannot be stored; finishes naming 'device' and the connection's own address (keys of the accessory's own bookkeeping). Pairing requests whose body travels with chunked transfer encoding (a well-formed start, garbage, 5000 bytes of garbage) in every state.",
		Run:   c13Run,
		Replay: func(c *fw.Ctx, raw json.RawMessage) {
			var in c13Input
			json.Unmarshal(raw, &in)
			x := &c13Ctx{c: c}
			c13Exec(x, in)
			x.drop()
		},
		Budget: func(t string) time.Duration {
			if t == "thorough" {
				return 25 * time.Minute
			}
			return 4 * time.Minute
		},
		Assumptions: []string{"requests are well-formed HTTP/1.1 (malformed HTTP is answered by net/http itself, before any hc code runs)", "panics are observed through the std logger net/http writes 'http: panic serving <addr>' to, and at the socket"},
	})
	_ = bytes.Equal
}
