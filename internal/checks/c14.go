package checks

import (
	"bytes"
	"encoding/json"
	"fmt"
	"github.com/brutella/hc"
	"math"
	"os"
	"path/filepath"
	"regexp"
	"strconv"
	"strings"
	"time"

	"github.com/brutella/hc/accessory"
	"github.com/brutella/hc/characteristic"
	"github.com/brutella/hc/service"

	"verif/internal/catalog"
	"verif/internal/fw"
)

// C14 — accessory and instance ids are unique, stable and well-formed.

type c14Tmpl struct {
	Name  string
	Build func(id uint64) *accessory.Accessory
}

func c14Templates() []c14Tmpl {
	var out []c14Tmpl
	for _, ct := range catalog.AccessoryCtors {
		ct := ct
		if v, err := ct.Build(); err != nil || catalog.Acc(v) == nil {
			continue
		}
		out = append(out, c14Tmpl{"accessory." + ct.Name, func(id uint64) *accessory.Accessory {
			v, _ := ct.Build()
			a := catalog.Acc(v)
			a.ID = id
			return a
		}})
	}
	for _, ct := range catalog.ServiceCtors {
		ct := ct
		if v, err := ct.Build(); err != nil || catalog.Svc(v) == nil {
			continue // C15's business
		}
		for _, variant := range []string{"plain", "hidden", "primary", "linked"} {
			variant := variant
			out = append(out, c14Tmpl{"custom(" + ct.Name + "," + variant + ")", func(id uint64) *accessory.Accessory {
				a := accessory.New(accessory.Info{Name: "Custom", ID: id}, accessory.TypeOther)
				v, _ := ct.Build()
				s := catalog.Svc(v)
				switch variant {
				case "hidden":
					s.Hidden = true
				case "primary":
					s.Primary = true
				case "linked":
					other := service.NewSwitch()
					a.AddService(other.Service)
					s.AddLinkedService(other.Service)
					other.Service.AddLinkedService(a.Info.Service)
				}
				a.AddService(s)
				return a
			}})
		}
	}
	return out
}

type c14Case struct {
	Tmpls []string `json:"templates"`
	IDs   []uint64 `json:"ids"` // 0 = automatic
}

var c14Formats = map[string]bool{"string": true, "bool": true, "float": true, "uint8": true, "uint16": true, "uint32": true, "uint64": true, "int32": true, "int": true, "tlv8": true, "data": true}
var c14Perms = map[string]bool{"pr": true, "pw": true, "ev": true, "aa": true, "tw": true, "hd": true, "wr": true}

func c14Build(tm []c14Tmpl, ids []uint64) (*accessory.Container, []bool, interface{}) {
	var cont *accessory.Container
	acc := make([]bool, len(tm))
	p := guard(func() {
		cont = accessory.NewContainer()
		for i, t := range tm {
			a := t.Build(ids[i])
			acc[i] = cont.AddAccessory(a) == nil
		}
	})
	return cont, acc, p
}

func c14Exec(c *fw.Ctx, tm []c14Tmpl, ids []uint64) {
	c.Eval(1)
	cas := c14Case{IDs: ids}
	idcls := ""
	for i, t := range tm {
		cas.Tmpls = append(cas.Tmpls, t.Name)
		if ids[i] == 0 {
			idcls += "auto,"
		} else {
			idcls += "explicit,"
		}
	}
	cont, accepted, p := c14Build(tm, ids)
	if p != nil {
		c.Report("panic/"+idcls, fmt.Sprintf("building the container panics: %v", p), cas)
		return
	}
	nacc := 0
	for _, a := range accepted {
		if a {
			nacc++
		}
	}
	if len(cont.Accessories) != nacc {
		c.Report("accepted-count/"+idcls, fmt.Sprintf("%d accessories accepted without error but the container holds %d", nacc, len(cont.Accessories)), cas)
		return
	}
	seen := map[uint64]bool{}
	for _, a := range cont.Accessories {
		if a.ID == 0 {
			c.Report("aid-zero/"+idcls, "an accepted accessory has id 0", cas)
			return
		}
		if seen[a.ID] {
			c.Report("aid-duplicate/"+idcls, fmt.Sprintf("two accepted accessories share id %d", a.ID), cas)
			return
		}
		seen[a.ID] = true
		iids := map[uint64]bool{}
		for _, s := range a.Services {
			if s.ID == 0 || iids[s.ID] {
				c.Report("iid-service/"+idcls, fmt.Sprintf("accessory %d: service instance id %d is zero or not unique", a.ID, s.ID), cas)
				return
			}
			iids[s.ID] = true
			for _, ch := range s.Characteristics {
				if ch.ID == 0 || iids[ch.ID] {
					c.Report("iid-characteristic/"+idcls, fmt.Sprintf("accessory %d: characteristic instance id %d is zero or not unique", a.ID, ch.ID), cas)
					return
				}
				iids[ch.ID] = true
			}
		}
	}
	j1, err := json.Marshal(cont)
	if err != nil {
		c.Report("json-error/"+idcls, "attribute database does not encode: "+err.Error(), cas)
		return
	}
	// rebuilding the same accessories (a restart) yields the same ids
	cont2, _, p2 := c14Build(tm, ids)
	if p2 != nil {
		c.Report("panic-rebuild/"+idcls, fmt.Sprintf("rebuilding panics: %v", p2), cas)
		return
	}
	j2, _ := json.Marshal(cont2)
	if !bytes.Equal(j1, j2) {
		c.Report("unstable/"+idcls, "building the same accessories twice yields different attribute databases (ids are not a function of construction order)", cas)
		return
	}
	if why := c14WellFormed(j1); why != "" {
		c.Report("malformed/"+why+"/"+idcls, "attribute database JSON: "+why, cas)
		return
	}
	c.Class(fmt.Sprintf("n=%d/accepted=%d/%s", len(tm), nacc, idcls))
}

// c14WellFormed validates HAP attribute database JSON; it returns "" or the first defect.
// c14Sized: accessories built "from arbitrary services": a service of a vendor type (a UUID with a leading zero, a
// UUID without, or a short custom type) holding k characteristics of vendor types, followed by a library service —
// for every k, so that every size of a service next to another one occurs; k optional characteristics added to the
// library's television service, followed by its speaker.
func c14Sized(max int) []c14Tmpl {
	var out []c14Tmpl
	for k := 0; k <= max; k++ {
		k := k
		out = append(out, c14Tmpl{fmt.Sprintf("sized(%d)", k), func(id uint64) *accessory.Accessory {
			a := accessory.New(accessory.Info{Name: "Sized", ID: id}, accessory.TypeOther)
			st := []string{"0E863F10-079E-48FF-8F27-9C2605A29F52", "E863F10A-079E-48FF-8F27-9C2605A29F52", "F1A0"}[k%3]
			s := service.New(st)
			for i := 0; i < k; i++ {
				ch := characteristic.NewInt(fmt.Sprintf("0%07X-0B0C-4D0E-8F10-A1B2C3D4E5F6", 0xA00000+i))
				ch.Format = characteristic.FormatUInt8
				s.AddCharacteristic(ch.Characteristic)
			}
			a.AddService(s)
			a.AddService(service.NewSwitch().Service)
			return a
		}})
		out = append(out, c14Tmpl{fmt.Sprintf("television-plus(%d)", k), func(id uint64) *accessory.Accessory {
			tv := accessory.NewTelevision(accessory.Info{Name: "TV", ID: id})
			for i := 0; i < k; i++ {
				ch := characteristic.NewInt(fmt.Sprintf("%08X-0B0C-4D0E-8F10-A1B2C3D4E5F6", 0x0B000000+i))
				ch.Format = characteristic.FormatUInt8
				tv.Television.AddCharacteristic(ch.Characteristic)
			}
			tv.Accessory.UpdateIDs()
			return tv.Accessory
		}})
	}
	return out
}

var c14UUID = regexp.MustCompile(`^([0-9A-Fa-f]{1,8}|[0-9A-Fa-f]{8}-[0-9A-Fa-f]{4}-[0-9A-Fa-f]{4}-[0-9A-Fa-f]{4}-[0-9A-Fa-f]{12})$`)

func c14WellFormed(j []byte) string {
	var db struct {
		Accessories []map[string]json.RawMessage `json:"accessories"`
	}
	if err := json.Unmarshal(j, &db); err != nil {
		return "not-json"
	}
	if db.Accessories == nil {
		return "no-accessories-array"
	}
	posInt := func(r json.RawMessage) bool {
		n, err := strconv.ParseUint(strings.TrimSpace(string(r)), 10, 64) // exact: ids up to 2^64−1 are legal
		return r != nil && err == nil && n >= 1
	}
	str := func(r json.RawMessage) bool { // a type: the short form (1–8 hex digits) or a complete UUID
		var s string
		return r != nil && json.Unmarshal(r, &s) == nil && c14UUID.MatchString(s)
	}
	for _, a := range db.Accessories {
		if !posInt(a["aid"]) {
			return "accessory-without-aid"
		}
		var svcs []map[string]json.RawMessage
		if json.Unmarshal(a["services"], &svcs) != nil || len(svcs) == 0 {
			return "accessory-without-services"
		}
		svcIDs := map[float64]bool{}
		for _, s := range svcs {
			var id float64
			json.Unmarshal(s["iid"], &id)
			svcIDs[id] = true
		}
		for _, s := range svcs {
			if !posInt(s["iid"]) {
				return "service-without-iid"
			}
			if !str(s["type"]) {
				return "service-without-type"
			}
			for _, k := range []string{"hidden", "primary"} {
				if r, ok := s[k]; ok {
					var b bool
					if json.Unmarshal(r, &b) != nil {
						return "service-" + k + "-not-bool"
					}
				}
			}
			if r, ok := s["linked"]; ok {
				var l []float64
				if json.Unmarshal(r, &l) != nil {
					return "linked-not-array"
				}
				for _, id := range l {
					if !svcIDs[id] {
						return "linked-id-unknown"
					}
				}
			}
			var chs []map[string]json.RawMessage
			if json.Unmarshal(s["characteristics"], &chs) != nil {
				return "service-without-characteristics-array"
			}
			for _, ch := range chs {
				if !posInt(ch["iid"]) {
					return "characteristic-without-iid"
				}
				if !str(ch["type"]) {
					return "characteristic-without-type"
				}
				var f string
				if json.Unmarshal(ch["format"], &f) != nil || !c14Formats[f] {
					return "characteristic-format-invalid"
				}
				var perms []string
				if ch["perms"] == nil || json.Unmarshal(ch["perms"], &perms) != nil {
					return "characteristic-without-perms"
				}
				for _, p := range perms {
					if !c14Perms[p] {
						return "characteristic-perm-unknown"
					}
				}
			}
		}
	}
	return ""
}

func c14Run(c *fw.Ctx) {
	{
		interfRun(c, "C14") // statement-level interleavings of operations on disjoint objects (subprocess)
	}
	c14Histories(c)
	if c.Shard == 0 {
		c14Served(c)
	}
	tmpls := c14Templates()
	idAlpha := []uint64{0, 1, 2, 3, 7, math.MaxUint64}
	idx := 0
	// depth 1 and 2 over all templates
	for _, a := range tmpls {
		for _, ia := range idAlpha {
			idx++
			if c.Mine(idx) {
				c14Exec(c, []c14Tmpl{a}, []uint64{ia})
			}
		}
	}
	// services of every size 0…40 (thorough 0…130) next to another service, vendor type UUIDs
	nsized := 40
	if c.Thorough() {
		nsized = 130
	}
	for _, a := range c14Sized(nsized) {
		for _, ia := range []uint64{0, 7} {
			idx++
			if c.Mine(idx) {
				c14Exec(c, []c14Tmpl{a}, []uint64{ia})
			}
		}
	}
	if c.Shard == 0 {
		c.Sample(map[string]interface{}{"templates": len(tmpls), "id_alphabet": idAlpha})
	}
	// quick: pairs where the second ranges over everything and the first over the library accessories + every 8th custom
	var firsts []c14Tmpl
	for i, t := range tmpls {
		if c.Thorough() || len(t.Name) > 10 && t.Name[:10] == "accessory." || i%8 == 0 {
			firsts = append(firsts, t)
		}
	}
	for _, a := range firsts {
		for _, b := range tmpls {
			idx++
			if !c.Mine(idx) {
				continue
			}
			for _, ia := range idAlpha {
				for _, ib := range idAlpha {
					c14Exec(c, []c14Tmpl{a, b}, []uint64{ia, ib})
				}
			}
			if c.Expired() {
				c.NotExhaustive("deadline")
				return
			}
		}
	}
	// depth 3 over the library accessories + 10 custom ones
	var small []c14Tmpl
	nc := 0
	for i, t := range tmpls {
		if len(t.Name) > 10 && t.Name[:10] == "accessory." {
			small = append(small, t)
		} else if i%23 == 0 && nc < 10 {
			small = append(small, t)
			nc++
		}
	}
	if !c.Thorough() {
		small = small[:6]
	}
	for _, a := range small {
		for _, b := range small {
			for _, d := range small {
				idx++
				if !c.Mine(idx) {
					continue
				}
				for _, ia := range idAlpha {
					for _, ib := range idAlpha {
						for _, id := range idAlpha {
							c14Exec(c, []c14Tmpl{a, b, d}, []uint64{ia, ib, id})
						}
					}
				}
			}
		}
	}
	// a long-lived service object published in one accessory and then reused in a rebuilt accessory: the ids of
	// the rebuilt accessory depend only on ITS construction order (unique, equal to a fresh build)
	for si, ct := range catalog.ServiceCtors {
		idx++
		if !c.Mine(idx) {
			continue
		}
		v, err := ct.Build()
		if err != nil || catalog.Svc(v) == nil {
			continue
		}
		c.Eval(1)
		cas := c14Case{Tmpls: []string{"reuse(" + ct.Name + ")"}}
		if p := guard(func() {
			shared := catalog.Svc(v)
			first := accessory.New(accessory.Info{Name: "First"}, accessory.TypeOther)
			first.AddService(shared)
			accessory.NewContainer().AddAccessory(first)
			build := func(s *service.Service) []byte {
				a := accessory.New(accessory.Info{Name: "Second"}, accessory.TypeOther)
				a.AddService(service.NewOutlet().Service)
				a.AddService(s)
				cont := accessory.NewContainer()
				cont.AddAccessory(a)
				j, _ := json.Marshal(cont)
				seen := map[uint64]bool{}
				for _, sv := range a.Services {
					if sv.ID == 0 || seen[sv.ID] {
						c.Report("iid-reused-object/service", fmt.Sprintf("%s reused in a rebuilt accessory: service instance id %d is zero or not unique", ct.Name, sv.ID), cas)
					}
					seen[sv.ID] = true
					for _, ch := range sv.Characteristics {
						if ch.ID == 0 || seen[ch.ID] {
							c.Report("iid-reused-object/characteristic", fmt.Sprintf("%s reused in a rebuilt accessory: characteristic instance id %d is zero or not unique", ct.Name, ch.ID), cas)
						}
						seen[ch.ID] = true
					}
				}
				return j
			}
			reused := build(shared)
			fv, _ := catalog.ServiceCtors[si].Build()
			fresh := build(catalog.Svc(fv))
			if !bytes.Equal(reused, fresh) {
				c.Report("iid-depends-on-object-history", fmt.Sprintf("an accessory rebuilt with a previously published %s object gets other ids than a fresh build of the same composition", ct.Name), cas)
			}
		}); p != nil {
			c.Report("panic/reuse", fmt.Sprintf("reuse of %s panics: %v", ct.Name, p), cas)
		}
		c.Class("reuse")
	}
	// marshalling an accessory BEFORE it is added (and numbered) must not influence the database served afterwards
	for ti, t := range tmpls {
		idx++
		if !c.Mine(idx) || ti%3 != 0 {
			continue
		}
		c.Eval(1)
		cas := c14Case{Tmpls: []string{"premarshal:" + t.Name}}
		if p := guard(func() {
			a := t.Build(0)
			json.Marshal(a)
			cont := accessory.NewContainer()
			cont.AddAccessory(a)
			j1, _ := json.Marshal(cont)
			cont2 := accessory.NewContainer()
			cont2.AddAccessory(t.Build(0))
			j2, _ := json.Marshal(cont2)
			if !bytes.Equal(j1, j2) {
				c.Report("premarshal-differs", "an accessory that was JSON-encoded before being added is served differently from a fresh build: "+t.Name, cas)
			} else if why := c14WellFormed(j1); why != "" {
				c.Report("malformed/"+why+"/premarshal", "attribute database JSON: "+why, cas)
			}
		}); p != nil {
			c.Report("panic/premarshal", fmt.Sprintf("%v", p), cas)
		}
		c.Class("premarshal")
	}
	// services without characteristics, in every position
	for pos := 0; pos < 3; pos++ {
		idx++
		if !c.Mine(idx) {
			continue
		}
		c.Eval(1)
		tm := c14Tmpl{fmt.Sprintf("empty-service@%d", pos), func(id uint64) *accessory.Accessory {
			a := accessory.New(accessory.Info{Name: "E", ID: id}, accessory.TypeOther)
			svcs := []*service.Service{service.NewSwitch().Service, service.NewOutlet().Service}
			for i := 0; i <= len(svcs); i++ {
				if i == pos {
					a.AddService(service.New("E0"))
				}
				if i < len(svcs) {
					a.AddService(svcs[i])
				}
			}
			return a
		}}
		c14Exec(c, []c14Tmpl{tm}, []uint64{0})
		c14Exec(c, []c14Tmpl{tm, tm}, []uint64{0, 5})
	}
	// removal: a rejected or foreign accessory is removed, then the id is tried again
	for _, x := range []uint64{1, 2} {
		idx++
		if !c.Mine(idx) {
			continue
		}
		c.Eval(1)
		cas := c14Case{Tmpls: []string{"remove-non-member"}, IDs: []uint64{x}}
		if p := guard(func() {
			cont := accessory.NewContainer()
			a := accessory.NewSwitch(accessory.Info{Name: "A", ID: x})
			b := accessory.NewOutlet(accessory.Info{Name: "B", ID: x})
			d := accessory.NewLightbulb(accessory.Info{Name: "D", ID: x})
			okA := cont.AddAccessory(a.Accessory) == nil
			okB := cont.AddAccessory(b.Accessory) == nil
			cont.RemoveAccessory(b.Accessory) // clean up the rejected one
			okD := cont.AddAccessory(d.Accessory) == nil
			seen := map[uint64]bool{}
			for _, acc := range cont.Accessories {
				if seen[acc.ID] {
					c.Report("aid-duplicate/after-remove-non-member", fmt.Sprintf("after removing an accessory that was never accepted, a second accessory with id %d is accepted (adds: %v %v %v)", acc.ID, okA, okB, okD), cas)
				}
				seen[acc.ID] = true
			}
			// removing a member frees its id for a new accessory, and only then
			cont.RemoveAccessory(a.Accessory)
			e := accessory.NewSwitch(accessory.Info{Name: "E", ID: x})
			cont.AddAccessory(e.Accessory)
			seen = map[uint64]bool{}
			for _, acc := range cont.Accessories {
				if seen[acc.ID] {
					c.Report("aid-duplicate/after-remove-member", fmt.Sprintf("duplicate id %d after remove + add", acc.ID), cas)
				}
				seen[acc.ID] = true
			}
		}); p != nil {
			c.Report("panic/remove", fmt.Sprintf("%v", p), cas)
		}
		c.Class("remove")
	}
	// a start that fails (rejected setup code) and a second start with the SAME accessory objects: the database served
	// afterwards is the one of a clean start
	for ti, t := range tmpls {
		idx++
		if !c.Mine(idx) || ti%7 != 0 {
			continue
		}
		c.Eval(1)
		cas := c14Case{Tmpls: []string{"failed-start-then-retry:" + t.Name}}
		if p := guard(func() {
			dir := filepath.Join(c.Scratch, fmt.Sprintf("c14-retry-%d", ti))
			defer os.RemoveAll(dir)
			build := func() []*accessory.Accessory {
				return []*accessory.Accessory{accessory.NewBridge(accessory.Info{Name: "Br", SerialNumber: "1"}).Accessory, t.Build(0), accessory.NewSwitch(accessory.Info{Name: "Sw", SerialNumber: "2"}).Accessory}
			}
			serve := func(as []*accessory.Accessory) []byte {
				cont := accessory.NewContainer()
				for _, a := range as {
					cont.AddAccessory(a)
				}
				j, _ := json.Marshal(cont)
				return j
			}
			retry := build()
			if _, err := hc.NewIPTransport(hc.Config{StoragePath: dir, Pin: "12345678"}, retry[0], retry[1:]...); err == nil {
				return // the trivial code was accepted: C20's business
			}
			if _, err := hc.NewIPTransport(hc.Config{StoragePath: dir, Pin: "00102003"}, retry[0], retry[1:]...); err != nil {
				c.Report("retry-after-failed-start/second-start-fails", "second start with a valid code fails: "+err.Error(), cas)
				return
			}
			clean := build()
			if _, err := hc.NewIPTransport(hc.Config{StoragePath: dir + "-clean", Pin: "00102003"}, clean[0], clean[1:]...); err != nil {
				return
			}
			defer os.RemoveAll(dir + "-clean")
			ids := func(as []*accessory.Accessory) string {
				var b strings.Builder
				for _, a := range as {
					fmt.Fprintf(&b, "a%d:", a.ID)
					for _, sv := range a.Services {
						fmt.Fprintf(&b, "s%d(", sv.ID)
						for _, ch := range sv.Characteristics {
							fmt.Fprintf(&b, "%d,", ch.ID)
						}
						b.WriteString(")")
					}
					b.WriteString(" ")
				}
				return b.String()
			}
			if got, want := ids(retry), ids(clean); got != want {
				c.Report("retry-after-failed-start/ids-differ", fmt.Sprintf("after a start that was refused (trivial setup code) and a second start with the same accessory objects the ids are %s; a clean start gives %s", trunc([]byte(got), 200), trunc([]byte(want), 200)), cas)
			}
			_ = serve
		}); p != nil {
			c.Report("panic/retry-after-failed-start", fmt.Sprintf("%v", p), cas)
		}
		c.Class("retry-after-failed-start")
	}
	// large deterministic compositions
	for _, n := range []int{40, 150} {
		idx++
		if !c.Mine(idx) {
			continue
		}
		var tm []c14Tmpl
		var ids []uint64
		for i := 0; i < n; i++ {
			tm = append(tm, tmpls[(i*7)%len(tmpls)])
			id := uint64(0)
			if i%5 == 3 {
				id = uint64(1000 + i)
			}
			ids = append(ids, id)
		}
		c14Exec(c, tm, ids)
	}
}

func init() {
	fw.Register(&fw.Check{
		ID:    "C14",
		Level: "exploration",
		Rule:  "exhaustive enumeration of container compositions: templates = every accessory constructor of the library plus a custom accessory per service constructor × {plain, hidden, primary, linked}; explicit id ∈ {auto,1,2,3,7,2^64−1}; all single accessories, all pairs (quick: first element restricted to library accessories and every 8th custom one), all triples over a reduced template set, two large compositions (40, 150 accessories), for every service constructor an accessory rebuilt with a previously published service object, accessories JSON-encoded before being added, services without characteristics in every position, a vendor-typed service (UUIDs with and without a leading zero) holding k = 0…40 (thorough …130) vendor-typed characteristics next to a library service and the library's television service with k optional characteristics added, for every k, and removal of rejected / member accessories followed by another add. Each container is built twice. Oracle: accepted accessories have pairwise distinct non-zero ids, instance ids distinct and non-zero per accessory, both builds give byte-identical JSON, JSON is well-formed HAP (aid/iid/type everywhere, every type a 1–8 digit short form or a complete UUID, valid format, permissions within the HAP vocabulary, linked ids resolvable). distinct_nontrivial = distinct (size, accepted count, id-mode tuple) classes Plus every history of length ≤4 (thorough ≤6) over 10 construction operations on one container (add A / B / C with explicit id, remove A / B, add services S1, S2 to A and S3 to B while under construction, link S1→S2 and S2→S1; and from the state 'two accessories added and removed again' every history of length ≤3 (thorough ≤5) over these plus a second accessory that asks for the same explicit id): after every operation the member list, id uniqueness and JSON well-formedness hold and the same history on fresh objects gives the same database. Plus, in a subprocess built with a scheduling point before EVERY statement of hc's packages (textual insertion through go build -overlay): every interleaving with at most 1 (thorough 2) preemptions of pairs of operations on disjoint objects — and, where the property is about served requests, of pairs of handlers on two verified connections of one accessory touching different characteristics — each side must observe exactly what it observes when the two run one after the other (module-level mutable state is what makes them differ).",
		Run:   c14Run,
		Replay: func(c *fw.Ctx, raw json.RawMessage) {
			var cas c14Case
			json.Unmarshal(raw, &cas)
			for _, op := range append(append([]string{}, c14Ops...), "add(E#2)") {
				if len(cas.Tmpls) > 0 && cas.Tmpls[0] == op {
					c14History1(c, cas.Tmpls, true)
					return
				}
			}
			all := append(c14Templates(), c14Sized(130)...)
			var tm []c14Tmpl
			for _, n := range cas.Tmpls {
				for _, t := range all {
					if t.Name == n {
						tm = append(tm, t)
					}
				}
			}
			if len(tm) == len(cas.IDs) && len(tm) > 0 {
				c14Exec(c, tm, cas.IDs)
			} else {
				c14Run(c) // object-reuse scenarios are replayed by re-running the (cheap) enumeration
			}
		},
		Budget:      func(string) time.Duration { return 15 * time.Minute },
		Assumptions: []string{"constructors that panic are C15's business and are skipped here", "the attribute database is json.Marshal of the container, which is what the /accessories handler writes (bound to the served database by four fetches through a real transport: same ids every time, the ids the objects hold)"},
	})
}

// ---------------------------------------------------------------------------------------------------------------
// Operation histories over one container: every sequence of construction operations up to a depth, the container
// invariants after every operation, and the same history replayed on fresh objects must give the same database.

var c14Ops = []string{"add(A)", "add(B)", "add(C#2)", "add(D#max)", "remove(A)", "remove(B)", "A.AddService(S1)", "A.AddService(S2)", "B.AddService(S3)", "S1.AddLinkedService(S2)", "S2.AddLinkedService(S1)"}

type c14World struct {
	cont    *accessory.Container
	acc     map[string]*accessory.Accessory
	svc     map[string]*service.Service
	frozen  map[string]bool // accessory was handed to a container once: its construction phase is over
	hasSvc  map[string]bool // "A/S1": the application added this service to this accessory
	members map[string]bool // the model's member set
	links   [][2]string     // links the application made
}

func c14NewWorld() *c14World {
	w := &c14World{cont: accessory.NewContainer(), acc: map[string]*accessory.Accessory{}, svc: map[string]*service.Service{}, frozen: map[string]bool{}, hasSvc: map[string]bool{}, members: map[string]bool{}}
	w.acc["A"] = accessory.New(accessory.Info{Name: "A"}, accessory.TypeOther)
	w.acc["B"] = accessory.New(accessory.Info{Name: "B"}, accessory.TypeOther)
	w.acc["C#2"] = accessory.New(accessory.Info{Name: "C", ID: 2}, accessory.TypeOther)
	w.acc["D#max"] = accessory.New(accessory.Info{Name: "D", ID: math.MaxUint64}, accessory.TypeOther)
	w.acc["E#2"] = accessory.New(accessory.Info{Name: "E", ID: 2}, accessory.TypeOther) // a second accessory that asks for id 2
	w.svc["S1"] = service.NewSwitch().Service
	w.svc["S2"] = service.NewOutlet().Service
	w.svc["S3"] = service.NewLightbulb().Service
	return w
}

// apply executes one operation if the model enables it (a service is added to an accessory at most once and only
// while the accessory is under construction); it reports whether the operation was executed.
func (w *c14World) apply(op string) bool {
	switch {
	case strings.HasPrefix(op, "add("):
		n := op[4 : len(op)-1]
		w.frozen[n] = true
		if w.cont.AddAccessory(w.acc[n]) == nil {
			w.members[n] = true
		}
	case strings.HasPrefix(op, "remove("):
		n := op[7 : len(op)-1]
		w.cont.RemoveAccessory(w.acc[n])
		delete(w.members, n)
	case strings.Contains(op, ".AddService("):
		a, s := op[:1], op[len(op)-3:len(op)-1]
		if w.frozen[a] || w.hasSvc[a+"/"+s] {
			return false
		}
		w.hasSvc[a+"/"+s] = true
		w.acc[a].AddService(w.svc[s])
	case strings.Contains(op, ".AddLinkedService("):
		from, to := op[:2], op[len(op)-3:len(op)-1]
		if w.frozen["A"] {
			return false
		}
		w.svc[from].AddLinkedService(w.svc[to])
		w.links = append(w.links, [2]string{from, to})
	}
	return true
}

func c14Histories(c *fw.Ctx) {
	depth := 4
	if c.Thorough() {
		depth = 6
	}
	if c.Shard == 0 {
		c.Extra("history_depth_completed", int64(depth))
		c.Extra("history_alphabet", int64(len(c14Ops)))
	}
	exploreTree(c, len(c14Ops), depth, func(h []int) bool {
		var hist []string
		for _, s := range h {
			hist = append(hist, c14Ops[s])
		}
		return c14History1(c, hist, len(h) == depth)
	})
	// from the non-initial state "the container held two accessories and was emptied again": every history of length ≤3
	// (thorough ≤4) over the operations plus a second accessory that asks for the explicit id 2
	emptied := []string{"add(A)", "add(B)", "remove(A)", "remove(B)"}
	ops2 := append(append([]string{}, c14Ops...), "add(E#2)")
	exploreTree(c, len(ops2), depth-1, func(h []int) bool {
		hist := append([]string{}, emptied...)
		for _, s := range h {
			hist = append(hist, ops2[s])
		}
		return c14History1(c, hist, len(h) == depth-1)
	})
}

func c14History1(c *fw.Ctx, hist []string, leaf bool) bool {
	{
		cas := c14Case{Tmpls: hist}
		c.Eval(1)
		c.State(1)
		prune := false
		var j1 []byte
		if p := guard(func() {
			w := c14NewWorld()
			for i, op := range hist {
				if !w.apply(op) && i == len(hist)-1 {
					prune = true // the last operation is not enabled: nothing new below this node
					return
				}
			}
			last := hist[len(hist)-1]
			sig := last
			// invariants of the container after the last operation
			seen := map[uint64]bool{}
			if len(w.cont.Accessories) != len(w.members) {
				c.Report("history/member-count/after:"+sig, fmt.Sprintf("after %v the container holds %d accessories, %d were accepted and not removed", hist, len(w.cont.Accessories), len(w.members)), cas)
				return
			}
			for _, a := range w.cont.Accessories {
				if a.ID == 0 || seen[a.ID] {
					c.Report("history/aid/after:"+sig, fmt.Sprintf("after %v accessory id %d is zero or held by two accessories", hist, a.ID), cas)
					return
				}
				seen[a.ID] = true
				iids := map[uint64]bool{}
				for _, s := range a.Services {
					if s.ID == 0 || iids[s.ID] {
						c.Report("history/iid-service/after:"+sig, fmt.Sprintf("after %v accessory %d: service instance id %d is zero or not unique", hist, a.ID, s.ID), cas)
						return
					}
					iids[s.ID] = true
					for _, ch := range s.Characteristics {
						if ch.ID == 0 || iids[ch.ID] {
							c.Report("history/iid-characteristic/after:"+sig, fmt.Sprintf("after %v accessory %d: characteristic instance id %d is zero or not unique", hist, a.ID, ch.ID), cas)
							return
						}
						iids[ch.ID] = true
					}
				}
			}
			var err error
			if j1, err = json.Marshal(w.cont); err != nil {
				c.Report("history/json-error/after:"+sig, err.Error(), cas)
				return
			}
			dangling := false // the application linked a service of A to one it never added to A: its own mistake
			for _, l := range w.links {
				dangling = dangling || (w.hasSvc["A/"+l[0]] && !w.hasSvc["A/"+l[1]])
			}
			if why := c14WellFormed(j1); why != "" && len(w.cont.Accessories) > 0 && !(why == "linked-id-unknown" && dangling) {
				c.Report("history/malformed/"+why+"/after:"+sig, fmt.Sprintf("after %v the attribute database JSON is malformed: %s", hist, why), cas)
				return
			}
			// the same history on fresh objects (a restart)
			w2 := c14NewWorld()
			for _, op := range hist {
				w2.apply(op)
			}
			j2, _ := json.Marshal(w2.cont)
			if !bytes.Equal(j1, j2) {
				c.Report("history/unstable/after:"+sig, fmt.Sprintf("the history %v executed twice on fresh objects yields different attribute databases", hist), cas)
			}
		}); p != nil {
			c.Report("history/panic/after:"+hist[len(hist)-1], fmt.Sprintf("%v panics: %v", hist, p), cas)
			return true
		}
		if leaf {
			c.Class(fmt.Sprintf("history/bytes=%d", len(j1)/400))
		}
		return prune
	}
}

// c14Served binds the assumption "the attribute database is the encoded container" to the served one: a verified
// controller fetches /accessories of a real transport (every characteristic constructor's object on a handful of
// accessories) four times, with reads and a write in between; every answer lists, in the same order, exactly the
// accessory and instance ids the objects hold — before the first and after the last fetch.
func c14Served(c *fw.Ctx) {
	s, err := c09Build(c, 0)
	if err != nil {
		c.Infra("build: " + err.Error())
		return
	}
	defer s.Close()
	ids := func(j []byte) (string, error) {
		var db struct {
			Accessories []struct {
				Aid      uint64 `json:"aid"`
				Services []struct {
					Iid             uint64 `json:"iid"`
					Characteristics []struct {
						Iid uint64 `json:"iid"`
					} `json:"characteristics"`
				} `json:"services"`
			} `json:"accessories"`
		}
		if err := json.Unmarshal(j, &db); err != nil {
			return "", err
		}
		var b strings.Builder
		for _, a := range db.Accessories {
			fmt.Fprintf(&b, "a%d:", a.Aid)
			for _, sv := range a.Services {
				fmt.Fprintf(&b, "s%d(", sv.Iid)
				for _, ch := range sv.Characteristics {
					fmt.Fprintf(&b, "%d,", ch.Iid)
				}
				b.WriteString(")")
			}
			b.WriteString(";")
		}
		return b.String(), nil
	}
	held := func() string {
		seen := map[*accessory.Accessory]bool{}
		var b strings.Builder
		for _, cc := range s.chars {
			if seen[cc.Acc] {
				continue
			}
			seen[cc.Acc] = true
			fmt.Fprintf(&b, "a%d:", cc.Acc.ID)
			for _, sv := range cc.Acc.GetServices() {
				fmt.Fprintf(&b, "s%d(", sv.ID)
				for _, ch := range sv.GetCharacteristics() {
					fmt.Fprintf(&b, "%d,", ch.ID)
				}
				b.WriteString(")")
			}
			b.WriteString(";")
		}
		return b.String()
	}
	before := held()
	cas := c14Case{Tmpls: []string{"served: /accessories fetched four times"}}
	first := ""
	for n := 1; n <= 4; n++ {
		c.Eval(1)
		m, _, err := s.k.Do("GET", "/accessories", "", nil)
		if err != nil || m.Status != 200 {
			c.Report("served/fetch-failed", fmt.Sprintf("GET /accessories #%d: %v %v", n, m, err), cas)
			return
		}
		got, perr := ids(m.Body)
		if perr != nil {
			c.Report("served/not-json", fmt.Sprintf("GET /accessories #%d: %v", n, perr), cas)
			return
		}
		if n == 1 {
			first = got
		} else if got != first {
			c.Report("served/ids-change-between-fetches", fmt.Sprintf("fetch #%d of /accessories lists other instance ids than fetch #1 (nothing was added or removed in between): %s … instead of %s …", n, trunc([]byte(got), 60), trunc([]byte(first), 60)), cas)
			return
		}
		if !strings.Contains(got, before) { // (the served database may hold more accessories than carry characteristics of the catalog: the bridge itself)
			c.Report("served/ids-differ-from-objects", fmt.Sprintf("fetch #%d of /accessories does not list the ids the objects held before the first fetch", n), cas)
			return
		}
		if now := held(); now != before {
			c.Report("served/fetch-renumbers-objects", fmt.Sprintf("after fetch #%d of /accessories the objects hold other ids than before: %s … instead of %s …", n, trunc([]byte(now), 60), trunc([]byte(before), 60)), cas)
			return
		}
		// traffic between the fetches
		cc := s.chars[n%len(s.chars)]
		s.k.Do("GET", fmt.Sprintf("/characteristics?id=%d.%d", cc.Acc.ID, cc.Ch.ID), "", nil)
	}
	c.Class("served-four-times")
}
