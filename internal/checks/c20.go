package checks

import (
	"bytes"
	"encoding/json"
	"fmt"
	"github.com/brutella/hc/accessory"
	"github.com/brutella/hc/db"
	"os"
	"path/filepath"
	"strconv"
	"strings"
	"sync"
	"sync/atomic"
	"time"

	"github.com/brutella/hc"
	"github.com/brutella/hc/util"

	"verif/internal/fw"
	"verif/internal/refctl"
)

// C20 — identity, configuration number and discoverability persist correctly.

// ---- (a) restart histories -------------------------------------------------------------------------------

var c20Alphabet = []string{
	"restart:same", "restart:values", "restart:plus-outlet", "pair", "remove-pairing", "add-pairing", "app-change", "restart:same-pin2", "re-add-pairing", "remove-unknown-pairing",
}

type c20Model struct {
	id          string
	ltpk        []byte
	version     int
	variant     string          // structure of the current run: "" or "plus-outlet"
	pairings    map[string]bool // controller ids
	nextCtl     int
	controllers map[string]refctl.Identity
}

type c20Case struct {
	Hist []string `json:"hist"`
}

func c20Exec(c *fw.Ctx, hist []string) bool {
	c.Eval(1)
	c.State(1)
	c.Trace(1)
	c.Transition(len(hist))
	dir := filepath.Join(c.Scratch, fmt.Sprintf("c20-%d", atomic.AddInt64(&bedSeq, 1)))
	defer os.RemoveAll(dir)
	if len(hist) > 0 && strings.HasPrefix(hist[0], "dir:") {
		// the storage directory has a special name (hc names it after the accessory by default)
		os.MkdirAll(dir, 0755)
		dir = filepath.Join(dir, strings.TrimPrefix(hist[0], "dir:"))
	}
	failed := false
	fail := func(sig, desc string) {
		failed = true
		c.Report(sig, desc+" — history start, "+strings.Join(hist, ", "), c20Case{Hist: hist})
	}
	b, err := newBed(c, bedOpt{Dir: dir})
	if err != nil {
		c.Infra("bed: " + err.Error())
		return false
	}
	defer func() { b.CloseKeepNoWait() }()
	m := &c20Model{id: b.AccID, ltpk: b.AccLTPK, version: 1, pairings: map[string]bool{}, controllers: map[string]refctl.Identity{}}
	check := func(after string) bool {
		txt := b.W.T.VerifTxtRecords()
		op := strings.SplitN(after, ":", 2)[0]
		if txt["id"] != m.id {
			fail("device-id-changed/after-"+op, fmt.Sprintf("after %s the advertised device id is %q, it was %q", after, txt["id"], m.id))
			return false
		}
		if b.AccID != m.id || !bytes.Equal(b.AccLTPK, m.ltpk) {
			fail("identity-changed/after-"+op, "after "+after+" the stored device id or long-term public key changed")
			return false
		}
		if txt["c#"] != fmt.Sprint(m.version) {
			fail("config-number/after-"+after, fmt.Sprintf("after %s the configuration number is %s, the model expects %d", after, txt["c#"], m.version))
			return false
		}
		wantSf := "1"
		if len(m.pairings) > 0 {
			wantSf = "0"
		}
		if txt["sf"] != wantSf {
			fail("discoverable-flag/after-"+op, fmt.Sprintf("after %s sf=%s is advertised with %d controller pairing(s) stored", after, txt["sf"], len(m.pairings)))
			return false
		}
		// stored pairings = model
		database, _ := dbOpen(dir)
		es, err := database.Entities()
		if err != nil {
			fail("store-unreadable/after-"+op, err.Error())
			return false
		}
		got := map[string]bool{}
		for _, e := range es {
			if e.Name != m.id {
				got[e.Name] = true
			}
		}
		if len(got) != len(m.pairings) {
			fail("pairings-differ/after-"+op, fmt.Sprintf("after %s %d controller pairings are stored, the model has %d", after, len(got), len(m.pairings)))
			return false
		}
		for n := range m.pairings {
			if !got[n] {
				fail("pairings-differ/after-"+op, "after "+after+" a pairing is missing")
				return false
			}
		}
		c.Class(fmt.Sprintf("%s→c#%s sf%s", op, txt["c#"], txt["sf"]))
		return true
	}
	verified := func(id refctl.Identity) *refctl.Ctl {
		k, err := b.Dial()
		if err != nil {
			c.Infra(err.Error())
			return nil
		}
		if _, ec, err := refctl.PairVerify(k, id, refctl.Seed32("c20v"+id.ID), m.ltpk); err != nil || ec != 0 {
			fail("verify-after-restart", fmt.Sprintf("controller %s is paired but cannot verify (the accessory's key pair or the pairing did not persist): %v code %d", id.ID, err, ec))
			return nil
		}
		return k
	}
	if !check("start") {
		return false
	}
	for i, ev := range hist {
		switch {
		case strings.HasPrefix(ev, "dir:"):
			continue
		case strings.HasPrefix(ev, "restart:"):
			variant := strings.TrimPrefix(ev, "restart:")
			pin := ""
			if variant == "same-pin2" {
				variant, pin = "same", "46637726"
			}
			b.CloseKeepNoWait()
			lost := false
			if variant == "lost-version-files" {
				// the files "version" and "configHash" are gone (a first run that was killed right after it stored the
				// id, or a storage written by something that never stored them); what the configuration number then is,
				// is not judged — identity, pairings and discoverability are
				variant, lost = "same", true
				os.Remove(filepath.Join(dir, "version"))
				os.Remove(filepath.Join(dir, "configHash"))
			}
			v := variant
			if v == "same" {
				v = ""
			}
			nb, err := newBed(c, bedOpt{Dir: dir, Variant: v, Pin: pin})
			if err != nil {
				c.Infra("restart: " + err.Error())
				return false
			}
			b = nb
			structure := ""
			if variant == "plus-outlet" {
				structure = "plus-outlet"
			}
			if structure != m.variant {
				m.version++
			}
			m.variant = structure
			if lost {
				fmt.Sscan(b.W.T.VerifTxtRecords()["c#"], &m.version)
			}
			// every stored controller can still verify against the same accessory key
			for n := range m.pairings {
				k := verified(m.controllers[n])
				if k == nil {
					return false
				}
				k.Close()
				break
			}
		case ev == "pair", ev == "pair-empty-id":
			id := refctl.NewIdentity(fmt.Sprintf("CTL-%d", m.nextCtl), fmt.Sprintf("c20-%d", m.nextCtl))
			if ev == "pair-empty-id" {
				if m.pairings[""] {
					continue
				}
				id = refctl.NewIdentity("", "c20-empty") // a controller whose pairing identifier is the empty string
			}
			m.nextCtl++
			k, err := b.Dial()
			if err != nil {
				c.Infra(err.Error())
				return false
			}
			if _, ec, err := refctl.PairSetup(k, id, b.Code, refctl.Seed32(fmt.Sprintf("c20a:%d", i))); err != nil || ec != 0 {
				fail("pair-setup-failed", fmt.Sprintf("pair-setup fails: %v code %d", err, ec))
				return false
			}
			k.Close()
			m.pairings[id.ID] = true
			m.controllers[id.ID] = id
		case ev == "remove-pairing" || ev == "add-pairing" || ev == "re-add-pairing" || ev == "remove-unknown-pairing":
			var admin refctl.Identity
			found := false
			for n := range m.pairings {
				if !found || n < admin.ID {
					admin, found = m.controllers[n], true
				}
			}
			if !found {
				continue // not enabled without a verified controller
			}
			k := verified(admin)
			if k == nil {
				return false
			}
			var body []byte
			if ev == "remove-pairing" {
				body = refctl.TLVEncode(refctl.T(refctl.TagState, []byte{1}), refctl.T(refctl.TagMethod, []byte{4}), refctl.T(refctl.TagIdentifier, []byte(admin.ID)))
				delete(m.pairings, admin.ID)
			} else if ev == "remove-unknown-pairing" {
				// removing a pairing that is not stored succeeds (the specification says so) and changes nothing
				body = refctl.TLVEncode(refctl.T(refctl.TagState, []byte{1}), refctl.T(refctl.TagMethod, []byte{4}), refctl.T(refctl.TagIdentifier, []byte("NOBODY-"+fmt.Sprint(i))))
			} else if ev == "re-add-pairing" {
				// an existing pairing is added again (an update): the set of pairings does not change
				body = refctl.TLVEncode(refctl.T(refctl.TagState, []byte{1}), refctl.T(refctl.TagMethod, []byte{3}), refctl.T(refctl.TagIdentifier, []byte(admin.ID)), refctl.T(refctl.TagPublicKey, admin.Pub), refctl.T(refctl.TagPermission, []byte{1}))
			} else {
				id := refctl.NewIdentity(fmt.Sprintf("ADD-%d", m.nextCtl), fmt.Sprintf("c20add-%d", m.nextCtl))
				m.nextCtl++
				body = refctl.TLVEncode(refctl.T(refctl.TagState, []byte{1}), refctl.T(refctl.TagMethod, []byte{3}), refctl.T(refctl.TagIdentifier, []byte(id.ID)), refctl.T(refctl.TagPublicKey, id.Pub), refctl.T(refctl.TagPermission, []byte{0}))
				m.pairings[id.ID] = true
				m.controllers[id.ID] = id
			}
			r, _, err := k.Do("POST", "/pairings", refctl.CTPairing, body)
			if err != nil || r.Status != 200 {
				fail("pairings-request-failed/"+ev, fmt.Sprintf("%v %v", r, err))
				return false
			}
			k.Close()
		case ev == "app-change":
			b.Bulb.Lightbulb.Brightness.SetValue((b.Bulb.Lightbulb.Brightness.GetValue() + 13) % 100)
			b.Switch.Switch.On.SetValue(!b.Switch.Switch.On.GetValue())
		}
		if !check(ev) {
			return false
		}
	}
	return !failed
}

// ---- (b) setup codes and setup URI ---------------------------------------------------------------------

var c20Trivial = map[string]bool{"12345678": true, "87654321": true, "00000000": true, "11111111": true, "22222222": true, "33333333": true, "44444444": true, "55555555": true, "66666666": true, "77777777": true, "88888888": true, "99999999": true}

func c20RefValid(s string) (string, bool) {
	if len(s) != 8 || c20Trivial[s] {
		return "", false
	}
	for i := 0; i < 8; i++ {
		if s[i] < '0' || s[i] > '9' {
			return "", false
		}
	}
	return s[:3] + "-" + s[3:5] + "-" + s[5:], true
}

// c20Decode is an independent decoder of the X-HM:// setup payload.
func c20Decode(uri string) (code uint64, category uint64, flags uint64, rest string, ok bool) {
	const pre = "X-HM://"
	if !strings.HasPrefix(uri, pre) || len(uri) < len(pre)+9 {
		return
	}
	var p uint64
	for _, ch := range uri[len(pre) : len(pre)+9] {
		var d uint64
		switch {
		case ch >= '0' && ch <= '9':
			d = uint64(ch - '0')
		case ch >= 'A' && ch <= 'Z':
			d = uint64(ch-'A') + 10
		default:
			return
		}
		p = p*36 + d
	}
	return p & 0x7ffffff, (p >> 31) & 0xff, (p >> 27) & 0xf, uri[len(pre)+9:], p>>39 == 0
}

type c20CodeCase struct {
	Kind string `json:"kind"`
	Code string `json:"code"`
	Cat  int    `json:"cat,omitempty"`
	Flag int    `json:"flag,omitempty"`
	ID   string `json:"id,omitempty"`
	Sub  string `json:"sub,omitempty"`
}

func c20Pin(c *fw.Ctx, s string, kind string) {
	got, err := hc.ValidatePin(s)
	want, ok := c20RefValid(s)
	cas := c20CodeCase{Kind: "pin", Code: s, Sub: kind}
	switch {
	case ok && err != nil:
		c.Report("valid-code-rejected/"+kind, fmt.Sprintf("ValidatePin(%q) rejects a non-trivial eight-digit code: %v", s, err), cas)
	case !ok && err == nil:
		c.Report("invalid-code-accepted/"+kind, fmt.Sprintf("ValidatePin(%q) accepts a code that is not eight digits or is trivial", s), cas)
	case ok && got != want:
		c.Report("code-format/"+kind, fmt.Sprintf("ValidatePin(%q) = %q, expected %q", s, got, want), cas)
	}
}

func c20URI(c *fw.Ctx, code string, id string, cat uint8, flagBits int, kind string) {
	n, _ := strconv.ParseUint(strings.Replace(code, "-", "", -1), 10, 64)
	c20URIn(c, code, n, id, cat, flagBits, kind)
}

var c20FlagSets = func() [16][]util.SetupFlag {
	var out [16][]util.SetupFlag
	for bits := 0; bits < 16; bits++ {
		for _, f := range []util.SetupFlag{util.SetupFlagNFC, util.SetupFlagIP, util.SetupFlagBTLE, util.SetupFlagIPWAC} {
			if bits&int(f) != 0 {
				out[bits] = append(out[bits], f)
			}
		}
	}
	return out
}()

func c20URIn(c *fw.Ctx, code string, n uint64, id string, cat uint8, flagBits int, kind string) {
	uri, err := util.XHMURI(code, id, cat, c20FlagSets[flagBits&15])
	cas := c20CodeCase{Kind: "uri", Code: code, Cat: int(cat), Flag: flagBits, ID: id, Sub: kind}
	if err != nil {
		c.Report("uri-error/"+kind, fmt.Sprintf("XHMURI(%q) fails: %v", code, err), cas)
		return
	}
	dc, dcat, dfl, rest, ok := c20Decode(uri)
	if !ok || dc != n || dcat != uint64(cat) || dfl != uint64(flagBits) || rest != id {
		c.Report("uri-decode/"+kind, fmt.Sprintf("XHMURI(%q, %q, %d, %04b) = %q decodes to code %d category %d flags %04b id %q", code, id, cat, flagBits, uri, dc, dcat, dfl, rest), cas)
	}
}

func c20Codes(c *fw.Ctx, part, parts int) {
	// all 10^8 eight-digit codes: ValidatePin; XHMURI for all of them with (category 5, IP)
	per := 100000000 / parts
	lo, hi := part*per, (part+1)*per
	if part == parts-1 {
		hi = 100000000
	}
	buf := make([]byte, 8)
	step := 1
	for n := lo; n < hi; n += step {
		x := n
		for i := 7; i >= 0; i-- {
			buf[i] = byte('0' + x%10)
			x /= 10
		}
		s := string(buf)
		c20Pin(c, s, "8-digits")
		c20URIn(c, s, uint64(n), "HOME", 5, 2, "all-codes")
	}
	c.Eval(hi - lo)
	c.Extra("eight_digit_codes", int64(hi-lo))
	c.Class("codes:all-eight-digit")
	if part != 0 {
		return
	}
	// all strings of length ≤ 9 over a small hostile alphabet
	alpha := []string{"0", "9", "a", "-", " ", "٣"}
	var rec func(s string, n int)
	cnt := 0
	rec = func(s string, n int) {
		c20Pin(c, s, "short-alphabet")
		cnt++
		if n == 9 {
			return
		}
		for _, a := range alpha {
			rec(s+a, n+1)
		}
	}
	rec("", 0)
	c.Eval(cnt)
	c.Extra("strings_over_hostile_alphabet", int64(cnt))
	c.Class("codes:hostile-strings")
	for _, s := range []string{"001-02-003", "0010200", "001020034", "１２３４５６７８", "1234567\x00", "12345678\n", "+1234567", "1e234567", "0x123456", " 1234567"} {
		c20Pin(c, s, "special")
	}
	// all categories × all flag sets × setup ids over a boundary code list
	n := 0
	for _, code := range []string{"00000001", "00102003", "99999998", "12345679", "134-21-772", "067-10-886", "000-00-001"} {
		for cat := 0; cat < 256; cat++ {
			for fl := 0; fl < 16; fl++ {
				for _, id := range []string{"HOME", "ABCD", "0000", "ZZZZ", "", "toolong", "a b"} {
					c20URI(c, code, id, uint8(cat), fl, "grid")
					n++
				}
			}
		}
	}
	c.Eval(n)
	c.Class("uri:grid")
	c.Sample(map[string]interface{}{"example_uri_check": "XHMURI(00102003, HOME, category 5, IP) decoded with an independent base-36 decoder"})
}

// c20StructureSweep: the configuration number must stay put across a restart with the SAME structure and
// move by exactly one for a different structure, for many different structures (the stored structure hash takes
// many different byte values, including white-space and zero bytes at its ends).
func c20StructureSweep(c *fw.Ctx) {
	n := 240
	for v := 0; v < n; v++ {
		if !c.Mine(v) {
			continue
		}
		c.Eval(1)
		c.State(1)
		c.Trace(1)
		c.Transition(3)
		dir := filepath.Join(c.Scratch, fmt.Sprintf("c20s-%d", atomic.AddInt64(&bedSeq, 1)))
		variant := fmt.Sprintf("extra-aid:%d", 100+v)
		cas := c20Case{Hist: []string{"structure " + variant, "restart same", "restart other", "restart other again"}}
		want := []string{"1", "1", "2", "2"}
		vars := []string{variant, variant, fmt.Sprintf("extra-aid:%d", 1000+v), fmt.Sprintf("extra-aid:%d", 1000+v)}
		for i, vv := range vars {
			b, err := newBed(c, bedOpt{Dir: dir, Variant: vv})
			if err != nil {
				c.Infra("bed: " + err.Error())
				break
			}
			got := b.W.T.VerifTxtRecords()["c#"]
			b.CloseKeepNoWait()
			if got != want[i] {
				c.Report(fmt.Sprintf("config-number/structure-sweep/step%d", i), fmt.Sprintf("structure %s: after %q the configuration number is %s, expected %s", variant, cas.Hist[i], got, want[i]), cas)
				break
			}
		}
		os.RemoveAll(dir)
	}
	c.Class("structure-sweep")
}

func c20Run(c *fw.Ctx) {
	{
		interfRun(c, "C20") // statement-level interleavings of operations on disjoint objects (subprocess)
	}
	// every shard sweeps its slice of the 10^8 codes (CPU bound) while it replays its share of the restart
	// histories (dominated by the one-second mDNS announcement hc makes inside the pairing handlers)
	done := make(chan bool)
	go func() {
		c20Codes(c, c.Shard, c.NShards)
		done <- true
	}()
	c20Histories(c)
	c20StructureSweep(c)
	if c.Shard == 1%c.NShards {
		c20Provisioned(c)
	}
	if c.Shard == 2%c.NShards {
		c20ConfiguredCodes(c)
	}
	if c.Shard == 3%c.NShards {
		c20AfterFailedFirstStart(c)
	}
	<-done
}

// c20ConfiguredCodes: the code check as an application meets it — through Config.Pin of a transport. A transport is
// created exactly for the codes ValidatePin accepts (the empty string selects the default code), and the code it
// uses for pair-setup is the configured one (read from the setup URI).
func c20ConfiguredCodes(c *fw.Ctx) {
	for _, code := range []string{"", "00102003", "90000001", "1234567", "123456789", "031-45-154", "0310-4515", "111-11-111", "11111111", "12345678", "0010200a", " 00102003", "00102003 ", "-0010200", "+0102003", "٠٠١٠٢٠٠٣"} {
		c.Eval(1)
		cas := c20CodeCase{Kind: "configured", Code: code, Sub: "transport"}
		want, ok := c20RefValid(code)
		if code == "" {
			want, ok = c20RefValid("00102003")
		}
		dir := filepath.Join(c.Scratch, fmt.Sprintf("c20c-%d", atomic.AddInt64(&bedSeq, 1)))
		acc := accessory.NewSwitch(accessory.Info{Name: "CodeCheck"})
		var t interface{ XHMURI() (string, error) }
		var err error
		if p := guard(func() {
			tr, e := hc.NewIPTransport(hc.Config{StoragePath: dir, Pin: code, SetupId: "ABCD"}, acc.Accessory)
			err = e
			if e == nil {
				t = tr
			}
		}); p != nil {
			err = fmt.Errorf("panic: %v", p)
		}
		switch {
		case ok && err != nil:
			c.Report("configured-code/valid-rejected", fmt.Sprintf("a transport configured with the valid code %q is refused: %v", code, err), cas)
		case !ok && err == nil:
			c.Report("configured-code/invalid-accepted", fmt.Sprintf("a transport configured with %q — not a non-trivial eight-digit code — is created", code), cas)
		case ok:
			uri, uerr := t.XHMURI()
			n, _, _, _, dok := c20Decode(uri)
			if digits := strings.ReplaceAll(want, "-", ""); uerr != nil || !dok || fmt.Sprintf("%08d", n) != digits {
				c.Report("configured-code/other-code-in-use", fmt.Sprintf("a transport configured with %q uses another code: its setup URI %q decodes to %08d", code, uri, n), cas)
			}
		}
		os.RemoveAll(dir)
		c.Class("configured-code")
	}
}

// c20AfterFailedFirstStart: the very first start on a storage is made with a configuration mistake (two accessories
// ask for the same explicit id) — whether the library starts anyway or refuses, the corrected starts that follow on the
// same storage have ONE identity, keep it, and the accessory is discoverable (nobody has paired).
func c20AfterFailedFirstStart(c *fw.Ctx) {
	c.Eval(1)
	cas := c20Case{Hist: []string{"first-start-with-duplicate-ids"}}
	dir := filepath.Join(c.Scratch, fmt.Sprintf("c20d-%d", atomic.AddInt64(&bedSeq, 1)))
	defer os.RemoveAll(dir)
	if b, err := newBed(c, bedOpt{Dir: dir, Variant: "duplicate-ids"}); err == nil {
		b.CloseKeepNoWait()
	}
	var firstID string
	var firstKey []byte
	for run := 0; run < 2; run++ {
		b, err := newBed(c, bedOpt{Dir: dir})
		if err != nil {
			c.Report("after-failed-first-start/does-not-start", "the corrected configuration does not start on the storage of the failed first start: "+err.Error(), cas)
			return
		}
		txt := b.W.T.VerifTxtRecords()
		database, _ := dbOpen(dir)
		es, _ := database.Entities()
		switch {
		case run == 0:
			firstID, firstKey = txt["id"], b.AccLTPK
		case txt["id"] != firstID || !bytes.Equal(b.AccLTPK, firstKey):
			c.Report("after-failed-first-start/identity-changed", fmt.Sprintf("device id %q / key changed to %q between two starts after a failed first start", firstID, txt["id"]), cas)
		}
		if txt["sf"] != "1" || len(es) != 1 {
			c.Report("after-failed-first-start/left-overs", fmt.Sprintf("after a failed first start the storage holds %d entities and the accessory advertises sf=%s although nobody has paired", len(es), txt["sf"]), cas)
			b.CloseKeepNoWait()
			return
		}
		b.CloseKeepNoWait()
	}
	c.Class("after-failed-first-start")
}

// c20Provisioned: a storage that was not written by this build — the files of an accessory identity as an earlier
// installation (or an administrator) left them, with a device id in lower case / with surrounding blanks removed, its
// key pair and one controller pairing. A start on it keeps exactly that id and key pair, and the paired controller verifies.
func c20Provisioned(c *fw.Ctx) {
	for _, id := range []string{"1b:fe:2f:f0:53:6e", "1B:FE:2F:F0:53:6E", "Ab:Cd:Ef:01:23:45"} {
		c.Eval(1)
		cas := c20Case{Hist: []string{"provisioned:" + id}}
		dir := filepath.Join(c.Scratch, fmt.Sprintf("c20p-%d", atomic.AddInt64(&bedSeq, 1)))
		os.MkdirAll(dir, 0755)
		acc := refctl.NewIdentity(id, "provisioned-accessory-"+id)
		database, err := dbOpen(dir)
		if err != nil {
			c.Infra(err.Error())
			return
		}
		os.WriteFile(filepath.Join(dir, "uuid"), []byte(id), 0644)
		database.SaveEntity(db.NewEntity(id, acc.Pub, acc.Priv))
		database.SaveEntity(dbEntity(idL))
		b, err := newBed(c, bedOpt{Dir: dir})
		if err != nil {
			c.Infra("bed: " + err.Error())
			os.RemoveAll(dir)
			return
		}
		txt := b.W.T.VerifTxtRecords()
		switch {
		case txt["id"] != id:
			c.Report("provisioned-identity/device-id", fmt.Sprintf("a start on a storage whose device id is %q advertises %q", id, txt["id"]), cas)
		case !bytes.Equal(b.AccLTPK, acc.Pub):
			c.Report("provisioned-identity/key", "a start on a provisioned storage replaced the accessory's long-term key", cas)
		case txt["sf"] != "0":
			c.Report("provisioned-identity/discoverable", "a provisioned storage with a controller pairing is advertised as unpaired", cas)
		default:
			if k, err := b.Dial(); err == nil {
				if _, ec, err := refctl.PairVerify(k, idL, refctl.Seed32("c20prov"), acc.Pub); err != nil || ec != 0 {
					c.Report("provisioned-identity/verify", fmt.Sprintf("the controller paired on the provisioned storage cannot verify against the stored accessory key: %v code %d", err, ec), cas)
				}
			}
		}
		c.Class("provisioned")
		b.Close()
	}
}

func c20Histories(c *fw.Ctx) {
	depth := 3
	if c.Thorough() {
		depth = 4
	}
	hs := c.NShards
	idx := 0
	var mine [][]string
	var rec func(h []string)
	rec = func(h []string) {
		if len(h) == depth {
			idx++
			if idx%hs == c.Shard%hs {
				mine = append(mine, h)
			}
			return
		}
		for _, s := range c20Alphabet {
			rec(append(append([]string{}, h...), s))
		}
	}
	rec(nil)
	// storage directories whose names mean something to pattern matching: every history of length 2 over four symbols
	for _, dn := range []string{"Lamp [1]", "Bridge [attic", "a*b?"} {
		for _, e1 := range []string{"restart:same", "pair", "remove-pairing", "restart:plus-outlet"} {
			for _, e2 := range []string{"restart:same", "pair", "remove-pairing", "restart:plus-outlet"} {
				idx++
				if idx%hs == c.Shard%hs {
					mine = append(mine, []string{"dir:" + dn, e1, e2})
				}
			}
		}
	}
	// a second, smaller alphabet: a controller with the empty pairing identifier, and a restart after the version files
	// were lost — every history of length 3
	small := []string{"restart:same", "restart:values", "pair-empty-id", "remove-pairing", "restart:lost-version-files"}
	for _, e1 := range small {
		for _, e2 := range small {
			for _, e3 := range small {
				idx++
				if idx%hs == c.Shard%hs {
					mine = append(mine, []string{e1, e2, e3})
				}
			}
		}
	}
	if len(mine) > 1 {
		c.Sample(mine[0])
		c.Sample(mine[len(mine)/2])
	}
	// histories are dominated by sleeping (mDNS announcements): replay 6 at a time, each on its own system
	work := make(chan []string)
	var wg sync.WaitGroup
	for w := 0; w < 6; w++ {
		wg.Add(1)
		go func() {
			defer wg.Done()
			for h := range work {
				c20Exec(c, h)
			}
		}()
	}
	for _, h := range mine {
		if c.Expired() {
			c.NotExhaustive("deadline")
			break
		}
		work <- h
	}
	close(work)
	wg.Wait()
}

func init() {
	fw.Register(&fw.Check{
		ID:    "C20",
		Level: "model_checking",
		Rule:  "(a) every history of length 3 (quick) / 4 (thorough) after an initial start over {restart with the same accessories, restart with changed values only, restart with an added accessory, restart with another setup code, real pair-setup of a new controller, remove a pairing, add a new pairing and add an existing pairing again through /pairings on a verified connection, application value changes} on one storage directory with the real transport; after EVERY event the advertised TXT records and the store are compared with the reference model: device id and long-term key constant (a stored controller still verifies against the original accessory key), pairings = model set, c# +1 exactly when the structure differs from the previous run, sf=1 ⇔ no controller pairing. plus a sweep over 240 structurally different accessory sets (restart same ⇒ c# unchanged, other ⇒ +1, again ⇒ unchanged). (b) ALL 10^8 eight-digit codes and all ≈12 million strings of length ≤9 over {0,9,a,-,space,non-ASCII digit}: ValidatePin accepts exactly the non-trivial eight-digit codes and formats XXX-XX-XXX; for all 10^8 codes (category 5, IP flag) and for all 256 categories × 16 flag sets × 7 setup ids × 7 boundary codes an independent base-36 decoder recovers code, category, flags and setup id from XHMURI. states = restart histories executed The alphabet also has the removal of a pairing that is not stored; the value-only restart gives a first value to a readable characteristic that had none; every history of length 3 over {restart same, restart with other values, pair-setup of a controller whose identifier is the empty string, remove pairing, restart after the files 'version' and 'configHash' were lost (configuration number then not judged)}; a transport is created exactly for the Config.Pin values ValidatePin accepts and uses that code (16 spellings); corrected starts after a first start with a configuration mistake (two accessories asking for one id) have one identity and are discoverable; a start on storages provisioned elsewhere (device id in lower, upper and mixed case with its key pair and one pairing) keeps id and key and lets the paired controller verify; every history of length 2 over four symbols is repeated in storage directories named 'Lamp [1]', 'Bridge [attic' and 'a*b?'. Plus, in a subprocess built with a scheduling point before EVERY statement of hc's packages (textual insertion through go build -overlay): every interleaving with at most 1 (thorough 2) preemptions of pairs of operations on disjoint objects — and, where the property is about served requests, of pairs of handlers on two verified connections of one accessory touching different characteristics — each side must observe exactly what it observes when the two run one after the other (module-level mutable state is what makes them differ).",
		Run:   c20Run,
		Replay: func(c *fw.Ctx, raw json.RawMessage) {
			var cc c20CodeCase
			if json.Unmarshal(raw, &cc) == nil && cc.Kind != "" {
				c.Eval(1)
				c.State(1)
				if cc.Kind == "configured" {
					c20ConfiguredCodes(c)
				} else if cc.Kind == "pin" {
					c20Pin(c, cc.Code, cc.Sub)
				} else {
					c20URI(c, cc.Code, cc.ID, uint8(cc.Cat), cc.Flag, cc.Sub)
				}
				return
			}
			var cas c20Case
			json.Unmarshal(raw, &cas)
			if len(cas.Hist) == 1 && cas.Hist[0] == "first-start-with-duplicate-ids" {
				c20AfterFailedFirstStart(c)
				return
			}
			if len(cas.Hist) == 1 && strings.HasPrefix(cas.Hist[0], "provisioned:") {
				c20Provisioned(c)
				return
			}
			c20Exec(c, cas.Hist)
		},
		Budget: func(t string) time.Duration {
			if t == "thorough" {
				return 25 * time.Minute
			}
			return 4 * time.Minute
		},
		Assumptions: []string{"a restart is stop + NewIPTransport on the same directory in the same process (all persistent state is in the files)", "TXT records are read through the verif-tagged accessor; mDNS packets themselves are not inspected"},
	})
}
