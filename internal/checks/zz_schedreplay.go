package checks

import (
	"encoding/json"

	"verif/internal/fw"
)

// Cases recorded by the scheduler subprocesses are replayed by them, whatever check reported them.
// (This file is initialised after every cNN.go: Go initialises the files of a package in name order.)
func init() {
	fw.Each(func(ch *fw.Check) {
		orig := ch.Replay
		ch.Replay = func(c *fw.Ctx, raw json.RawMessage) {
			var k struct {
				Kind string `json:"kind"`
			}
			if json.Unmarshal(raw, &k) == nil {
				switch k.Kind {
				case "interference-schedule":
					var cas interfCase
					json.Unmarshal(raw, &cas)
					interfReplay(c, cas)
					return
				case "pairing-schedule":
					var cas pschedCase
					json.Unmarshal(raw, &cas)
					pschedReplay(c, cas)
					return
				}
			}
			if orig != nil {
				orig(c, raw)
			}
		}
	})
}
