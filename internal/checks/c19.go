package checks

import (
	"bytes"
	"encoding/json"
	"fmt"
	"os"
	"os/exec"
	"path/filepath"
	"regexp"
	"sort"
	"strconv"
	"strings"
	"syscall"
	"time"

	"github.com/brutella/hc/db"
	"github.com/brutella/hc/util"

	"verif/internal/fw"
)

// C19 — a crash during a storage write never corrupts the stored value.
//
// Kill-point enumeration on the real code and the real file system, no source hooks: the child binary
// (cmd/crashchild) performs the operation between two marker syscalls; a reference run under strace lists the
// file-system syscalls of the operation; then the child is re-run once per syscall with
// `strace -e inject=<name>:signal=KILL:when=<ordinal>` so that it dies at the entry of exactly that call.

const c19Trace = "openat,open,creat,write,pwrite64,pwritev,writev,close,rename,renameat,renameat2,unlink,unlinkat,rmdir,fsync,fdatasync,ftruncate,truncate,mkdir,mkdirat,link,linkat,symlink,symlinkat,faccessat,faccessat2,access,fallocate,copy_file_range,sendfile"

type c19Scenario struct {
	Name string   `json:"name"`
	Pre  []c19KV  `json:"pre"`  // keys set (through hc's API) before the operation
	Args []string `json:"args"` // crashchild arguments after <dir>
	Prep string   `json:"prep"` // "" | "transport" (run the transport once, then add a controller pairing)
}
type c19KV struct {
	Key string `json:"key"`
	Val string `json:"val"`
}
type c19Case struct {
	Scenario c19Scenario `json:"scenario"`
	Kill     int         `json:"kill"` // index of the syscall (within the operation) at whose entry the process is killed
	Syscall  string      `json:"syscall"`
}

type c19Call struct {
	name string
	line string
}

var c19Line = regexp.MustCompile(`^(\d+)\s+([a-z_0-9]+)\((.*)$`)

func c19Parse(log string) (calls []c19Call, begin, end int, killed bool) {
	begin, end = -1, -1
	mainTid := ""
	for _, l := range strings.Split(log, "\n") {
		if strings.Contains(l, "+++ killed by SIGKILL") {
			killed = true
		}
		m := c19Line.FindStringSubmatch(l)
		if m == nil || strings.Contains(l, " resumed>") {
			continue
		}
		if mainTid == "" {
			mainTid = m[1]
		}
		if m[1] != mainTid {
			continue
		}
		calls = append(calls, c19Call{m[2], m[2] + "(" + m[3]})
		if strings.Contains(m[3], "/VERIF_MARK_BEGIN") {
			begin = len(calls) - 1
		}
		if strings.Contains(m[3], "/VERIF_MARK_END") {
			end = len(calls) - 1
		}
	}
	return
}

func c19Child() string {
	exe, _ := os.Executable()
	return filepath.Join(filepath.Dir(exe), "crashchild")
}

// c19PidNS reports whether a child can be run in a fresh PID namespace (unshare -p -f): there the traced process
// has the same process id in every run, as a service has in a container (pid 1) or after a reboot.
var c19PidNSOnce struct {
	done bool
	ok   bool
}

func c19PidNS() bool {
	if !c19PidNSOnce.done {
		out, err := exec.Command("unshare", "-p", "-f", "sh", "-c", "echo pid=$$").CombinedOutput()
		c19PidNSOnce.ok = err == nil && strings.TrimSpace(string(out)) == "pid=1"
		c19PidNSOnce.done = true
	}
	return c19PidNSOnce.ok
}

// c19OtherDeviceTmp returns a directory on a file system other than the one of dir (under /dev/shm), or "".
var c19TmpOnce struct {
	done bool
	dir  string
}

func c19OtherDeviceTmp(dir string) string {
	if c19TmpOnce.done {
		return c19TmpOnce.dir
	}
	c19TmpOnce.done = true
	var a, b syscall.Stat_t
	if syscall.Stat(dir, &a) != nil || syscall.Stat("/dev/shm", &b) != nil || a.Dev == b.Dev {
		return ""
	}
	d, err := os.MkdirTemp("/dev/shm", "verif-c19-")
	if err != nil {
		return ""
	}
	c19TmpOnce.dir = d
	return d
}

func c19RunTraced(c *fw.Ctx, dir string, args []string, inject string) (string, error) {
	logf := filepath.Join(c.Scratch, "strace.log")
	os.Remove(logf)
	a := []string{"-f", "-o", logf, "-e", "trace=" + c19Trace}
	if inject != "" {
		a = append(a, "-e", "inject="+inject)
	}
	a = append(a, c19Child(), dir)
	a = append(a, args...)
	prog := "strace"
	if c19PidNS() {
		// strace is process 1 of a new PID namespace and the child always process 2
		a = append([]string{"-p", "-f", "strace"}, a...)
		prog = "unshare"
	}
	cmd := exec.Command(prog, a...)
	cmd.Env = append(os.Environ(), "GOMAXPROCS=1")
	if t := c19OtherDeviceTmp(c.Scratch); t != "" {
		// the system's temporary directory is on another file system than the storage (a tmpfs /tmp is common)
		cmd.Env = append(cmd.Env, "TMPDIR="+t)
	}
	out, err := cmd.CombinedOutput()
	b, rerr := os.ReadFile(logf)
	if rerr != nil {
		return "", fmt.Errorf("strace produced no log: %v %v %s", err, rerr, out)
	}
	return string(b), nil
}

// c19Prepare restores the pre-state: it is built once per scenario through hc's API in a template directory
// (a transport start draws a random device id) and copied file by file for every run.
func c19Prepare(c *fw.Ctx, sc c19Scenario, dir string) error {
	tmpl := dir + ".template." + strings.NewReplacer("/", "_", ">", "_").Replace(sc.Name)
	if _, err := os.Stat(tmpl); err != nil {
		if err := c19Build(c, sc, tmpl); err != nil {
			os.RemoveAll(tmpl)
			return err
		}
	}
	os.RemoveAll(dir)
	if err := os.MkdirAll(dir, 0755); err != nil {
		return err
	}
	if t := c19OtherDeviceTmp(c.Scratch); t != "" { // the pre-state includes an empty temporary directory
		if es, err := os.ReadDir(t); err == nil {
			for _, e := range es {
				os.RemoveAll(filepath.Join(t, e.Name()))
			}
		}
	}
	ents, err := os.ReadDir(tmpl)
	if err != nil {
		return err
	}
	for _, e := range ents {
		b, err := os.ReadFile(filepath.Join(tmpl, e.Name()))
		if err != nil {
			return err
		}
		if err := os.WriteFile(filepath.Join(dir, e.Name()), b, 0644); err != nil {
			return err
		}
	}
	if name, ok := strings.CutPrefix(sc.Prep, "plainfile:"); ok {
		// an entity file under the plain name of the entity (put there by another tool, an earlier layout, a restore)
		b, _ := json.Marshal(db.NewEntity(name, []byte("PUBLIC-KEY-UNDER-THE-PLAIN-NAME!"), nil))
		if err := os.WriteFile(filepath.Join(dir, name+".entity"), b, 0644); err != nil {
			return err
		}
	}
	if key, ok := strings.CutPrefix(sc.Prep, "symlink:"); ok {
		// the file of this key lives in another directory; the storage directory holds a symbolic link to it
		other := dir + ".linked"
		os.RemoveAll(other)
		if err := os.MkdirAll(other, 0755); err != nil {
			return err
		}
		if err := os.Rename(filepath.Join(dir, key), filepath.Join(other, key)); err != nil {
			return err
		}
		if err := os.Symlink(filepath.Join(other, key), filepath.Join(dir, key)); err != nil {
			return err
		}
	}
	return nil
}

func c19Build(c *fw.Ctx, sc c19Scenario, dir string) error {
	os.RemoveAll(dir)
	if sc.Prep == "transport" {
		// one complete, untraced start creates uuid / version / configHash / accessory entity
		cmd := exec.Command(c19Child(), dir, "transport")
		if out, err := cmd.CombinedOutput(); err != nil {
			return fmt.Errorf("transport prep: %v %s", err, out)
		}
	}
	st, err := util.NewFileStorage(dir)
	if err != nil {
		return err
	}
	for _, kv := range sc.Pre {
		if strings.HasPrefix(kv.Key, "entity:") {
			database := db.NewDatabaseWithStorage(st)
			if err := database.SaveEntity(db.NewEntity(strings.TrimPrefix(kv.Key, "entity:"), []byte(kv.Val), nil)); err != nil {
				return err
			}
			continue
		}
		if err := st.Set(kv.Key, []byte(kv.Val)); err != nil {
			return err
		}
	}
	return nil
}

// c19Observe reads every key named in keys through hc's API from a freshly opened storage.
func c19Observe(dir string, keys []string) (map[string]string, string) {
	st, err := util.NewFileStorage(dir)
	if err != nil {
		return nil, err.Error()
	}
	out := map[string]string{}
	for _, k := range keys {
		b, err := st.Get(k)
		if err != nil {
			out[k] = "<absent>"
		} else {
			out[k] = "=" + string(b)
		}
	}
	entErr := ""
	es, err := db.NewDatabaseWithStorage(st).Entities()
	if err != nil {
		entErr = err.Error()
	}
	var names []string
	for _, e := range es {
		names = append(names, fmt.Sprintf("%q=%x", e.Name, e.PublicKey))
	}
	sort.Strings(names)
	out["<entities>"] = strings.Join(names, ";")
	return out, entErr
}

func c19Keys(dir string) []string {
	ents, _ := os.ReadDir(dir)
	var ks []string
	for _, e := range ents {
		ks = append(ks, e.Name())
	}
	return ks
}

func c19ValClass(s string) string {
	switch {
	case s == "<absent>":
		return "absent"
	case s == "=":
		return "empty"
	}
	return "len" + strconv.Itoa(len(s)-1)
}

func c19Scenario1(c *fw.Ctx, sc c19Scenario, onlyKill int) {
	dir := filepath.Join(c.Scratch, "crash-store")
	valfile := filepath.Join(c.Scratch, "newval")
	args := append([]string{}, sc.Args...)
	for i, a := range args {
		if strings.HasPrefix(a, "@") { // value passed through a file
			os.WriteFile(valfile, []byte(a[1:]), 0644)
			args[i] = valfile
		}
	}
	// reference run
	if err := c19Prepare(c, sc, dir); err != nil {
		c.Infra("prepare: " + err.Error())
		return
	}
	preKeys := c19Keys(dir)
	pre, _ := c19Observe(dir, preKeys)
	log, err := c19RunTraced(c, dir, args, "")
	if err != nil {
		c.Infra(err.Error())
		return
	}
	calls, begin, end, _ := c19Parse(log)
	if begin < 0 || end < 0 {
		c.Infra("markers not found in the reference trace of " + sc.Name + "; strace/ptrace unavailable?")
		return
	}
	keys := append([]string{}, preKeys...)
	for _, k := range c19Keys(dir) {
		found := false
		for _, p := range keys {
			found = found || p == k
		}
		if !found {
			keys = append(keys, k)
		}
	}
	sort.Strings(keys)
	post, postEntErr := c19Observe(dir, keys)
	keys = append(keys, "<entities>")             // the listed entity set must be the previous or the new one as well
	pre, _ = func() (map[string]string, string) { // pre over the full key set
		if err := c19Prepare(c, sc, dir); err != nil {
			return nil, err.Error()
		}
		return c19Observe(dir, keys)
	}()
	if postEntErr != "" {
		c.Report("complete/"+sc.Name+"/entities-unreadable", "after the complete operation Entities() fails: "+postEntErr, c19Case{Scenario: sc, Kill: -1})
	}
	c.Sample(map[string]interface{}{"scenario": sc.Name, "syscalls_of_operation": func() []string {
		var s []string
		for _, cl := range calls[begin+1 : end] {
			s = append(s, cl.line)
		}
		return s
	}()})
	// kill points: entry of every syscall after BEGIN up to and including END (END = operation complete)
	for i := begin + 1; i <= end; i++ {
		k := i - begin - 1
		if onlyKill >= 0 && k != onlyKill {
			continue
		}
		ord := 0
		for j := 0; j <= i; j++ {
			if calls[j].name == calls[i].name {
				ord++
			}
		}
		cas := c19Case{Scenario: sc, Kill: k, Syscall: calls[i].line}
		okRun := false
		for attempt := 0; attempt < 3 && !okRun; attempt++ {
			if err := c19Prepare(c, sc, dir); err != nil {
				c.Infra("prepare: " + err.Error())
				return
			}
			klog, err := c19RunTraced(c, dir, args, fmt.Sprintf("%s:signal=KILL:when=%d", calls[i].name, ord))
			if err != nil {
				c.Infra(err.Error())
				return
			}
			kcalls, _, _, killed := c19Parse(klog)
			// the run must have followed the reference up to the kill point and died there
			same := killed && len(kcalls) == i+1
			for j := 0; same && j <= i; j++ {
				same = kcalls[j].name == calls[j].name
			}
			okRun = same
		}
		if !okRun {
			c.NotExhaustive(fmt.Sprintf("%s: kill point %d (%s) could not be reproduced deterministically", sc.Name, k, calls[i].name))
			continue
		}
		c.Eval(1)
		c.Class(fmt.Sprintf("%s/kill-before-%d:%s", sc.Name, k, calls[i].name))
		got, entErr := c19Observe(dir, keys)
		for _, key := range keys {
			g := got[key]
			if g == pre[key] || g == post[key] {
				continue
			}
			what := "mixture-or-other"
			switch {
			case g == "=":
				what = "empty"
			case g == "<absent>":
				what = "vanished"
			case strings.HasPrefix(post[key], g) || strings.HasPrefix(pre[key], g):
				what = "truncated"
			}
			role := "written-key"
			if pre[key] == post[key] {
				role = "other-key"
			}
			c.Report(fmt.Sprintf("%s/%s/%s/old=%s,new=%s/killed-before:%s#%d", sc.Name, role, what, c19ValClass(pre[key]), c19ValClass(post[key]), calls[i].name, k),
				fmt.Sprintf("killed before %q: key %q reads %s after restart — neither the previous (%s) nor the new value (%s)", calls[i].line, key, c19ValClass(g), c19ValClass(pre[key]), c19ValClass(post[key])), cas)
		}
		// life goes on after the crash: the restarted process writes every key again, with a SHORTER value; whatever the
		// killed write left behind must not leak into it
		if st2, err := util.NewFileStorage(dir); err == nil {
			for _, key := range keys {
				if key == "<entities>" || strings.HasPrefix(key, ".") {
					continue
				}
				short := []byte("s")
				if strings.HasSuffix(key, ".entity") {
					short = []byte(`{"Name":"n","PublicKey":"","PrivateKey":""}`)
				}
				if err := st2.Set(key, short); err != nil {
					c.Report(fmt.Sprintf("%s/rewrite-after-crash-fails/killed-before:%s#%d", sc.Name, calls[i].name, k), "after the crash a new Set fails: "+err.Error(), cas)
					break
				}
				if b, err := st2.Get(key); err != nil || !bytes.Equal(b, short) {
					c.Report(fmt.Sprintf("%s/rewrite-after-crash-differs/killed-before:%s#%d", sc.Name, calls[i].name, k),
						fmt.Sprintf("killed before %q, then key %q was set to a %d-byte value after restart: Get returns %d bytes %q", calls[i].line, key, len(short), len(b), trunc(b, 30)), cas)
					break
				}
			}
		}
		// … and a restarted process with the SAME process id (a container's pid 1, a service after a reboot) repeats
		// the operation from whatever the killed one left behind: it must complete and leave the new state
		{
			if err := c19Prepare(c, sc, dir); err != nil {
				c.Infra("prepare: " + err.Error())
				return
			}
			if _, err := c19RunTraced(c, dir, args, fmt.Sprintf("%s:signal=KILL:when=%d", calls[i].name, ord)); err != nil {
				c.Infra(err.Error())
				return
			}
			rlog, err := c19RunTraced(c, dir, args, "")
			if err != nil {
				c.Infra(err.Error())
				return
			}
			c.Eval(1)
			exit := "?"
			if m := regexp.MustCompile(`\+\+\+ exited with (\d+) \+\+\+`).FindAllStringSubmatch(rlog, -1); len(m) > 0 {
				exit = m[len(m)-1][1]
			}
			again, _ := c19Observe(dir, keys)
			if exit != "0" {
				c.Report(fmt.Sprintf("%s/repeat-with-same-pid-fails/killed-before:%s#%d", sc.Name, calls[i].name, k),
					fmt.Sprintf("killed before %q; a restarted process (with the process id of the killed one where PID namespaces are available) repeats the operation and it fails (exit status %s)", calls[i].line, exit), cas)
			} else {
				for _, key := range keys {
					if key == "version" && strings.HasPrefix(sc.Name, "transport/") {
						// a start that died after saving the new number but before saving the new hash may count once more
						a, _ := strconv.Atoi(strings.TrimPrefix(again[key], "="))
						p, _ := strconv.Atoi(strings.TrimPrefix(post[key], "="))
						if a == p+1 {
							continue
						}
					}
					if again[key] != post[key] {
						c.Report(fmt.Sprintf("%s/repeat-with-same-pid-differs/killed-before:%s#%d", sc.Name, calls[i].name, k),
							fmt.Sprintf("killed before %q; a restarted process (with the process id of the killed one where PID namespaces are available) repeated the operation successfully, but key %q reads %s instead of the new value (%s)", calls[i].line, key, c19ValClass(again[key]), c19ValClass(post[key])), cas)
						break
					}
				}
			}
		}
		if entErr != "" {
			c.Report(fmt.Sprintf("%s/entities-unreadable/killed-before:%s#%d", sc.Name, calls[i].name, k),
				fmt.Sprintf("killed before %q: Entities() fails after restart: %s", calls[i].line, entErr), cas)
		}
	}
	os.RemoveAll(dir)
}

func c19Scenarios(thorough bool) []c19Scenario {
	long := strings.Repeat("0123456789abcdef", 313)[:5000]
	vals := map[string]string{"absent": "", "len3": "abc", "len3b": "xyz", "len5000": long, "len10": "0123456789"}
	others := []c19KV{{"other", "OTHER-VALUE"}, {"entity:ctl", "PUBLIC-KEY-OF-CONTROLLER-32-BYTES"}}
	var out []c19Scenario
	for _, old := range []string{"absent", "len3", "len10", "len5000"} {
		for _, nw := range []string{"len3b", "len10", "len5000", "empty"} {
			pre := append([]c19KV{}, others...)
			if old != "absent" {
				pre = append(pre, c19KV{"k1", vals[old]})
			}
			nv := vals[nw]
			out = append(out, c19Scenario{Name: fmt.Sprintf("set/%s->%s", old, nw), Pre: pre, Args: []string{"set", "k1", "@" + nv}})
		}
	}
	out = append(out, c19Scenario{Name: "delete/len10", Pre: append(append([]c19KV{}, others...), c19KV{"k1", "0123456789"}), Args: []string{"delete", "k1"}})
	out = append(out, c19Scenario{Name: "save-entity/over-longer", Pre: append(append([]c19KV{}, others...), c19KV{"entity:peer", strings.Repeat("K", 64)}), Args: []string{"save-entity", "peer", "32"}})
	out = append(out, c19Scenario{Name: "save-entity/over-shorter", Pre: append(append([]c19KV{}, others...), c19KV{"entity:peer", strings.Repeat("K", 16)}), Args: []string{"save-entity", "peer", "64"}})
	out = append(out, c19Scenario{Name: "save-entity/new", Pre: others, Args: []string{"save-entity", "peer", "32"}})
	// an administrator adds a pairing that exists, with another key (longer, shorter) — through the pairing controller
	out = append(out, c19Scenario{Name: "add-pairing/existing-other-key", Pre: append(append([]c19KV{}, others...), c19KV{"entity:peer", strings.Repeat("K", 32)}), Args: []string{"add-pairing", "peer", "32"}})
	out = append(out, c19Scenario{Name: "add-pairing/existing-shorter-key", Pre: append(append([]c19KV{}, others...), c19KV{"entity:peer", strings.Repeat("K", 64)}), Args: []string{"add-pairing", "peer", "32"}})
	out = append(out, c19Scenario{Name: "add-pairing/new", Pre: others, Args: []string{"add-pairing", "peer", "32"}})
	// the key's file is a symbolic link to a file in another directory (a key pair kept on another volume)
	out = append(out, c19Scenario{Name: "set/symlinked-len10->len3", Prep: "symlink:k1", Pre: append(append([]c19KV{}, others...), c19KV{"k1", "0123456789"}), Args: []string{"set", "k1", "@abc"}})
	out = append(out, c19Scenario{Name: "set/symlinked-len3->len300", Prep: "symlink:k1", Pre: append(append([]c19KV{}, others...), c19KV{"k1", "abc"}), Args: []string{"set", "k1", "@" + strings.Repeat("n", 300)}})
	// look-ups: they write nothing today; whatever a look-up does on the way is subject to the same rule
	withPeer := append(append([]c19KV{}, others...), c19KV{"entity:peer", strings.Repeat("K", 32)})
	out = append(out, c19Scenario{Name: "get-entity/stored", Pre: withPeer, Args: []string{"get-entity", "peer"}})
	out = append(out, c19Scenario{Name: "get-entity/unknown", Pre: others, Args: []string{"get-entity", "peer"}})
	out = append(out, c19Scenario{Name: "get-entity/file-under-plain-name", Prep: "plainfile:peer", Pre: others, Args: []string{"get-entity", "peer"}})
	out = append(out, c19Scenario{Name: "list-entities/file-under-plain-name", Prep: "plainfile:peer", Pre: withPeer, Args: []string{"list-entities"}})
	out = append(out, c19Scenario{Name: "transport/restart-same", Prep: "transport", Pre: []c19KV{{"entity:ctl", "PUBLIC-KEY-OF-CONTROLLER-32-BYTES"}}, Args: []string{"transport"}})
	out = append(out, c19Scenario{Name: "transport/restart-changed", Prep: "transport", Pre: []c19KV{{"entity:ctl", "PUBLIC-KEY-OF-CONTROLLER-32-BYTES"}}, Args: []string{"transport", "changed"}})
	out = append(out, c19Scenario{Name: "transport/first-start", Pre: nil, Args: []string{"transport"}})
	return out
}

// c19FullFS: the storage directory is a file system of 64 kB (tmpfs mounted in a private mount namespace) that is full
// but for a few pages when a value is set again: the Set either stores the whole new value or fails and leaves the
// previous one — for every (old length, new length, free pages) of a small grid. No kill is involved: "disk full" is
// an answer of the environment like a short write.
func c19FullFS(c *fw.Ctx) {
	dir := filepath.Join(c.Scratch, "fullfs")
	os.MkdirAll(dir, 0755)
	defer os.RemoveAll(dir)
	probe := exec.Command("unshare", "-rm", "sh", "-c", `mount -t tmpfs -o size=64k tmpfs "$0"`, dir)
	if out, err := probe.CombinedOutput(); err != nil {
		c.Note("full-file-system cases skipped: a private mount namespace with a tmpfs is not available here: " + strings.TrimSpace(string(out)))
		return
	}
	for _, oldN := range []int{10, 3000, 20000} {
		for _, newN := range []int{10, 3000, 20000, 40000} {
			for _, free := range []int{0, 1, 2, 6, 11} {
				c.Eval(1)
				cas := c19Case{Scenario: c19Scenario{Name: fmt.Sprintf("full-file-system/old=%d,new=%d,free-pages=%d", oldN, newN, free), Args: []string{"fullfs", fmt.Sprint(oldN), fmt.Sprint(newN), fmt.Sprint(free)}}, Kill: -1}
				cmd := exec.Command("unshare", "-rm", "sh", "-c", `mount -t tmpfs -o size=64k tmpfs "$0" && exec "$1" "$0" fullfs "$2" "$3" "$4"`, dir, c19Child(), fmt.Sprint(oldN), fmt.Sprint(newN), fmt.Sprint(free))
				out, err := cmd.CombinedOutput()
				line := ""
				for _, l := range strings.Split(string(out), "\n") {
					if strings.HasPrefix(l, "RESULT ") {
						line = strings.TrimPrefix(l, "RESULT ")
					}
				}
				switch {
				case strings.HasPrefix(line, "ok"):
					c.Class("full-file-system/" + line)
				case strings.HasPrefix(line, "violation"):
					c.Report(fmt.Sprintf("full-file-system/old=%d,new=%d,free=%d", oldN, newN, free), fmt.Sprintf("storage on a 64 kB file system with %d free pages, previous value %d bytes, new value %d bytes: %s", free, oldN, newN, strings.TrimPrefix(line, "violation ")), cas)
				default:
					c.Infra(fmt.Sprintf("full-file-system child: %v %s", err, trunc(out, 200)))
					return
				}
			}
		}
	}
}

func c19Run(c *fw.Ctx) {
	if _, err := exec.LookPath("strace"); err != nil {
		c.Infra("strace not found")
		return
	}
	defer func() {
		if c19TmpOnce.dir != "" {
			os.RemoveAll(c19TmpOnce.dir)
		}
	}()
	if c.Shard == 0 {
		if c19PidNS() {
			c.Extra("pid_namespace_runs", 1)
		} else {
			c.Note("unshare -p is not available: the restarted process does not get the process id of the killed one")
		}
		if c19OtherDeviceTmp(c.Scratch) != "" {
			c.Extra("tmpdir_on_other_device", 1)
		}
	}
	if c.Shard == (c.NShards-1)/2 {
		c19FullFS(c)
	}
	if c.Shard == c.NShards-1 {
		// a write the operating system cuts short (no kill): success is only reported for a complete value
		c18Faults(c)
	}
	for i, sc := range c19Scenarios(c.Thorough()) {
		if !c.Mine(i) {
			continue
		}
		c19Scenario1(c, sc, -1)
	}
}

func init() {
	fw.Register(&fw.Check{
		ID:    "C19",
		Level: "fault_enumeration",
		Rule:  "for each scenario (Set for every (old,new) ∈ {absent,3,10,5000 bytes} × {3,10,5000 bytes,empty}; Delete; SaveEntity over a longer / shorter / no entity; a whole hc.NewIPTransport start on a fresh, a paired-unchanged and a paired-structurally-changed store) every file-system syscall the operation issues (listed by a reference strace run) is a kill point: the real child process is SIGKILLed at the entry of exactly that call, the directory is re-opened and every key is read through hc's API: each must equal its previous or its new value in full and Entities() must succeed and list the previous or the new set; then every key is written again with a shorter value and read back (nothing a killed write left behind may leak into later writes). distinct_nontrivial = distinct (scenario, kill point) pairs reached and verified to follow the reference trace Writes cut short by the operating system without a kill (RLIMIT_FSIZE: 0, 1, 9, 4096, 65536 bytes; Set and SaveEntity over absent / short / long values): success only with the complete value, failure leaves the previous one. After every kill point the operation is also REPEATED by a restarted process and must complete and leave the new state; where PID namespaces are available (unshare -p) killed and restarted process have the same process id, as a container's pid 1 has; the child's TMPDIR is on another file system than the store when /dev/shm is one. Added: an administrator's add-pairing for an existing controller with another (equal-length, shorter) key and for a new one, through the pairing controller; Set on a key whose file is a symbolic link to another directory. A storage directory that is a 64 kB file system of its own (tmpfs in a private mount namespace), full but for 0–11 pages when a value of 10 / 3000 / 20000 / 40000 bytes replaces one of 10 / 3000 / 20000: the Set stores the whole new value or fails and leaves the previous one, other keys untouched. Look-ups (EntityWithName of a stored / an unknown name, Entities) as operations, also on a directory that holds an entity file under the entity's plain name: a kill inside a look-up loses nothing either.",
		Run:   c19Run,
		Replay: func(c *fw.Ctx, raw json.RawMessage) {
			var fc c18Case
			if json.Unmarshal(raw, &fc) == nil && fc.Fault != "" {
				c18Faults(c)
				return
			}
			var cas c19Case
			json.Unmarshal(raw, &cas)
			if strings.HasPrefix(cas.Scenario.Name, "full-file-system/") {
				c19FullFS(c) // (the whole small grid: 60 cases)
				return
			}
			c19Scenario1(c, cas.Scenario, cas.Kill)
		},
		Budget:      func(string) time.Duration { return 20 * time.Minute },
		Assumptions: []string{"process kill only (the page cache survives): torn writes inside one write() and power loss are outside the property", "a SIGKILL delivered at syscall entry suppresses the call (strace inject semantics, verified)", "kill points are the syscall boundaries of the main thread; the operation is single-threaded (LockOSThread, GOMAXPROCS=1)"},
	})
	_ = bytes.Equal
}
