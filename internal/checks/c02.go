package checks

import (
	"bytes"
	crand "crypto/rand"
	"encoding/json"
	"fmt"
	"os"
	"os/signal"
	"sort"
	"strconv"
	"strings"
	"syscall"
	"time"

	"github.com/brutella/hc/db"

	"verif/internal/fw"
	"verif/internal/refctl"
	"verif/internal/world"
)

// C02 — pair-setup stores a controller key only after a valid setup-code proof.

var c02Alphabet = []string{
	"L:M1", "L:M3-valid", "L:M5-genuine", "X:M1", "X:M3-A-zero", "X:M5-zero-key",
	"X:M3-wrong-code", "X:M5-wrong-code-S", "X:M5-hkdf-empty-S", "X:M3-A-N", "X:M3-A-2N", "X:M3-no-proof", "X:M3-no-A",
	"X:M3-replay-L", "X:M5-random-key", "X:M5-replay-L", "X:M5-len0", "X:M5-len15", "X:M5-tag-flipped", "X:M5-zero-key-universal-signature",
	"X:M1-method1", "X:state-0", "X:state-7", "X:reopen", "L:reopen",
	"X:M3-A-zero-proof-for-empty-key", "L2:M5-of-L",
	// L's key exchange sealed under the right key, its signed payload cut off inside the signature item: refused, and
	// the exchange is over — a genuine key exchange that follows without a new start and proof stores nothing
	"L:M5-sealed-but-cut-inside",
}

// c02Deep is the adversary-only alphabet of the deep exploration around rejected SRP public keys.
var c02Deep = []string{"X:M1", "X:M3-A-zero", "X:M3-A-zero-proof-for-empty-key", "X:M5-zero-key", "X:M5-hkdf-empty-S", "X:M3-A-N"}

type failingReader struct{}

func (failingReader) Read([]byte) (int, error) { return 0, fmt.Errorf("entropy source unavailable") }

type c02Conn struct {
	k     *refctl.Ctl
	name  string
	dead  bool
	setup *refctl.Setup // context from the latest accepted M1 on this connection
	stage int           // L only: 0 nothing, 1 M1 accepted, 2 M3 accepted (proof verified)
	wrong *refctl.SRPClient
	m3    []byte // L's last M3 body
	m5    []byte // L's last M5 body
}

type c02Run struct {
	c         *fw.Ctx
	b         *bed
	conns     map[string]*c02Conn
	seq       int
	paired    bool
	wrongCode string
	idL       refctl.Identity // the legitimate controller's identity in this system
	fail      func(sig, desc string)
}

// with the second setup code the legitimate controller has a 124-byte identifier (the longest whose entity file
// name is legal) with letters of both cases
// and bytes that are not valid UTF-8 (the identifier in the key-exchange message is a byte string)
var c02LongL = refctl.NewIdentity(strings.Repeat("Controller-\xff\xfe\x80-A-Long-Name/", 5)[:124], "legit-L-long")

func (r *c02Run) conn(name string) *c02Conn {
	cn := r.conns[name]
	if cn == nil || cn.dead {
		k, err := r.b.Dial()
		if err != nil {
			r.c.Infra(err.Error())
			return nil
		}
		cn = &c02Conn{k: k, name: name}
		r.conns[name] = cn
	}
	return cn
}

func c02Class(m *refctl.Msg, err error) (cls string, isErr bool, t map[byte][]byte) {
	if err != nil {
		return "no-response", true, nil
	}
	if m.Status != 200 {
		return fmt.Sprintf("http-%d", m.Status), true, nil
	}
	t, perr := refctl.TLVMap(m.Body)
	if perr != nil {
		return "malformed-tlv", true, nil
	}
	if e := t[refctl.TagError]; len(e) > 0 {
		return fmt.Sprintf("tlv-error-%d", e[0]), true, t
	}
	st := byte(0)
	if len(t[refctl.TagState]) > 0 {
		st = t[refctl.TagState][0]
	}
	return fmt.Sprintf("ok-state-%d", st), false, t
}

func (r *c02Run) step(ev string) bool {
	r.seq++
	parts := strings.SplitN(ev, ":", 2)
	cn := r.conn(parts[0])
	if cn == nil {
		return false
	}
	op := parts[1]
	// "+rand-fails": while this one message is handled the accessory's source of randomness reports an error (an
	// environment answer like any other; the accessory runs in this process)
	randFails := false
	if base, ok := strings.CutSuffix(op, "+rand-fails"); ok {
		op, randFails = base, true
	}
	post := func(body []byte) (*refctl.Msg, error) {
		if randFails {
			saved := crand.Reader
			crand.Reader = failingReader{}
			defer func() { crand.Reader = saved }()
		}
		m, _, err := cn.k.Do("POST", "/pair-setup", refctl.CTPairing, body)
		if err != nil {
			cn.dead = true
		}
		return m, err
	}
	ctx := cn.setup
	if ctx == nil {
		ctx = &refctl.Setup{Salt: pat(16, 9), B: pat(384, 1)}
	}
	nHex := refctl.SRPN()
	stage := cn.stage
	cn.stage = 0
	var m *refctl.Msg
	var err error
	expectStore := false
	switch op {
	case "reopen":
		cn.k.Close()
		cn.dead = true
		r.conn(parts[0])
		return true
	case "M1", "M1-method1":
		body := refctl.SetupM1()
		if op == "M1-method1" {
			body = refctl.TLVEncode(refctl.T(refctl.TagState, []byte{1}), refctl.T(refctl.TagMethod, []byte{1}))
		}
		m, err = post(body)
		cls, isErr, _ := c02Class(m, err)
		r.c.Class(op + "→" + cls)
		if !isErr && op == "M1" {
			s := &refctl.Setup{}
			if perr := s.ParseM2(m.Body); perr != nil {
				r.fail("M2-invalid", "accepted start answered with an invalid M2: "+perr.Error())
				return false
			}
			cn.setup = s
			cn.stage = 1
			cn.wrong = nil
		} else if !isErr {
			r.fail("unknown-method-accepted", "a start request with method 1 was accepted")
			return false
		}
		return r.checkStore(ev)
	case "M3-valid":
		m3, berr := ctx.M3(refctl.Seed32(fmt.Sprintf("a:%d", r.seq)), r.b.Code)
		if berr != nil {
			m3 = refctl.TLVEncode(refctl.T(refctl.TagState, []byte{3}))
		}
		cn.m3 = m3
		m, err = post(m3)
		cls, isErr, t := c02Class(m, err)
		r.c.Class(op + "→" + cls)
		if isErr && stage == 1 && berr == nil && cls != "no-response" {
			// the proof for the CONFIGURED setup code, directly after a start this connection got accepted: what the
			// accessory checks the proof against is then not the configured code
			r.fail("right-code-proof-refused", "a verify request with the proof for the configured setup code ("+r.b.Code+"), directly after an accepted start, was answered with "+cls)
			return false
		}
		if !isErr && cls == "ok-state-4" {
			if stage != 1 || berr != nil {
				if len(t[refctl.TagProof]) > 0 {
					r.fail("proof-without-exchange", "an accessory proof was returned for a verify request that does not follow an accepted start")
					return false
				}
			} else if _, perr := ctx.ParseM4(m.Body); perr != nil {
				r.fail("M4-invalid", "right-code verify request answered with an M4 that does not verify: "+perr.Error())
				return false
			} else {
				cn.stage = 2
			}
		}
		return r.checkStore(ev)
	case "M5-genuine":
		var body []byte
		if ctx.SRP != nil && ctx.EncKey != nil {
			body = ctx.M5(r.idL)
		} else {
			body = refctl.M5Sealed(refctl.Seed32("no-key"), refctl.M5Sub(nil, r.idL))
		}
		cn.m5 = body
		expectStore = stage == 2
		m, err = post(body)
		cls, isErr, _ := c02Class(m, err)
		r.c.Class(op + "→" + cls)
		if expectStore {
			if isErr {
				r.fail("genuine-exchange-rejected", "a complete genuine exchange (M1, M3 with the right code, M5) was answered with "+cls)
				return false
			}
			if ec, perr := ctx.ParseM6(m.Body); perr != nil || ec != 0 {
				r.fail("M6-invalid", fmt.Sprintf("M6 after a genuine exchange does not verify: %v (error code %d)", perr, ec))
				return false
			}
			r.paired = true
		} else if !isErr {
			if t, _ := refctl.TLVMap(m.Body); len(t[refctl.TagEncrypted]) > 0 {
				r.fail("M6-without-valid-exchange", "a key-exchange request outside a valid exchange was answered with an M6 carrying encrypted data")
				return false
			}
		}
		return r.checkStore(ev)
	case "M5-sealed-but-cut-inside":
		var body []byte
		if ctx.SRP != nil && ctx.EncKey != nil {
			sub := refctl.M5Sub(ctx.SRP.K, r.idL)
			body = refctl.M5Sealed(ctx.EncKey, sub[:len(sub)-7])
		} else {
			body = refctl.M5Sealed(refctl.Seed32("no-key"), refctl.M5Sub(nil, r.idL)[:20])
		}
		m, err = post(body)
		if cls, isErr, t := c02Class(m, err); !isErr && len(t[refctl.TagEncrypted]) > 0 {
			r.c.Class(op + "→" + cls)
			r.fail("M6-for-damaged-key-exchange", "a key-exchange request whose signed payload is cut off was answered with an M6")
			return false
		}
	case "M3-wrong-code":
		cl := refctl.NewSRPClient(refctl.Seed32(fmt.Sprintf("xa:%d", r.seq)))
		cl.Compute(ctx.Salt, ctx.B, r.wrongCode)
		cn.wrong = cl
		m, err = post(refctl.TLVEncode(refctl.T(refctl.TagState, []byte{3}), refctl.T(refctl.TagPublicKey, cl.A), refctl.T(refctl.TagProof, cl.M1)))
	case "M3-A-zero":
		m, err = post(refctl.TLVEncode(refctl.T(refctl.TagState, []byte{3}), refctl.T(refctl.TagPublicKey, []byte{0}), refctl.T(refctl.TagProof, pat(64, 5))))
	case "M3-A-zero-proof-for-empty-key":
		// A = 0 together with the proof a server would expect if it went on with an empty premaster secret and an
		// empty session key: every input of that proof is public
		cl := &refctl.SRPClient{}
		m, err = post(refctl.TLVEncode(refctl.T(refctl.TagState, []byte{3}), refctl.T(refctl.TagPublicKey, []byte{0}), refctl.T(refctl.TagProof, cl.ProofFor(ctx.Salt, nil, ctx.B, nil))))
	case "M5-of-L":
		// the legitimate controller's genuine key-exchange message of its current exchange, delivered on ANOTHER
		// connection (L2): the proof was not given on that connection, nothing may be stored
		l := r.conns["L"]
		var body []byte
		if l != nil && l.setup != nil && l.setup.SRP != nil && l.setup.EncKey != nil {
			body = l.setup.M5(r.idL)
		} else {
			body = refctl.M5Sealed(refctl.Seed32("no-key"), refctl.M5Sub(nil, r.idL))
		}
		m, err = post(body)
		if cls, isErr, t := c02Class(m, err); !isErr && len(t[refctl.TagEncrypted]) > 0 {
			r.c.Class(op + "→" + cls)
			r.fail("M6-on-foreign-connection", "L's key-exchange message sent on a connection that never proved the setup code was answered with an M6")
			return false
		}
	case "M3-A-N":
		m, err = post(refctl.TLVEncode(refctl.T(refctl.TagState, []byte{3}), refctl.T(refctl.TagPublicKey, nHex.Bytes()), refctl.T(refctl.TagProof, pat(64, 5))))
	case "M3-A-2N":
		m, err = post(refctl.TLVEncode(refctl.T(refctl.TagState, []byte{3}), refctl.T(refctl.TagPublicKey, nHex.Lsh(nHex, 1).Bytes()), refctl.T(refctl.TagProof, pat(64, 5))))
	case "M3-no-proof":
		cl := refctl.NewSRPClient(refctl.Seed32(fmt.Sprintf("xa:%d", r.seq)))
		m, err = post(refctl.TLVEncode(refctl.T(refctl.TagState, []byte{3}), refctl.T(refctl.TagPublicKey, cl.A)))
	case "M3-no-A":
		m, err = post(refctl.TLVEncode(refctl.T(refctl.TagState, []byte{3}), refctl.T(refctl.TagProof, pat(64, 5))))
	case "M3-replay-L":
		body := refctl.TLVEncode(refctl.T(refctl.TagState, []byte{3}), refctl.T(refctl.TagPublicKey, pat(384, 7)), refctl.T(refctl.TagProof, pat(64, 5)))
		if l := r.conns["L"]; l != nil && l.m3 != nil {
			body = l.m3
		}
		m, err = post(body)
	case "M5-zero-key", "M5-hkdf-empty-S", "M5-wrong-code-S", "M5-random-key", "M5-len0", "M5-len15", "M5-tag-flipped", "M5-replay-L", "M5-zero-key-universal-signature":
		var K []byte // the adversary's idea of the SRP session key
		key := make([]byte, 32)
		switch op {
		case "M5-hkdf-empty-S":
			key = refctl.HKDF(nil, []byte("Pair-Setup-Encrypt-Salt"), []byte("Pair-Setup-Encrypt-Info"))
		case "M5-wrong-code-S":
			if cn.wrong != nil {
				K = cn.wrong.K
			} else {
				K = pat(64, 33)
			}
			key = refctl.HKDF(K, []byte("Pair-Setup-Encrypt-Salt"), []byte("Pair-Setup-Encrypt-Info"))
		case "M5-random-key":
			key = refctl.Seed32("random-key")
		}
		body := refctl.M5Sealed(key, refctl.M5Sub(K, idX))
		switch op {
		case "M5-len0":
			body = refctl.TLVEncode(refctl.T(refctl.TagState, []byte{5}), refctl.T(refctl.TagEncrypted, nil))
		case "M5-len15":
			body = refctl.TLVEncode(refctl.T(refctl.TagState, []byte{5}), refctl.T(refctl.TagEncrypted, pat(15, 2)))
		case "M5-tag-flipped":
			body[len(body)-1] ^= 1
		case "M5-replay-L":
			if l := r.conns["L"]; l != nil && l.m5 != nil {
				body = l.m5
			}
		case "M5-zero-key-universal-signature":
			// long-term key = the neutral element of the group, whose signature check passes for every message: the
			// adversary need not know what the accessory expects to be signed
			body = refctl.M5Sealed(key, refctl.UniversalM5Sub(idX.ID))
		}
		m, err = post(body)
		if cls, isErr, t := c02Class(m, err); !isErr && len(t[refctl.TagEncrypted]) > 0 {
			r.c.Class(op + "→" + cls)
			r.fail("M6-for-adversary/"+op, "a forged key-exchange request ("+op+") was answered with an M6 carrying encrypted data")
			return false
		}
	case "state-0":
		m, err = post(refctl.TLVEncode(refctl.T(refctl.TagState, []byte{0})))
	case "state-7":
		m, err = post(refctl.TLVEncode(refctl.T(refctl.TagState, []byte{7})))
	}
	cls, isErr, t := c02Class(m, err)
	r.c.Class(op + "→" + cls)
	if os.Getenv("C02_DEBUG") != "" {
		fmt.Fprintln(os.Stderr, "C02_DEBUG", ev, cls)
	}
	if !isErr && strings.HasPrefix(op, "M3") && len(t[refctl.TagProof]) > 0 {
		r.fail("proof-without-code/"+op, "a verify request without knowledge of the setup code ("+op+") was answered with an accessory proof")
		return false
	}
	return r.checkStore(ev)
}

// c02DiskFull: the storage refuses writes (RLIMIT_FSIZE 0: every write fails with EFBIG) exactly while a genuine
// key-exchange message is handled. Whatever the accessory answers, the stored pairings afterwards are a subset of
// what was delivered, and a pairing that existed before — under the same or another name — is still there.
func c02DiskFull(c *fw.Ctx) {
	signal.Ignore(syscall.SIGXFSZ)
	defer signal.Reset(syscall.SIGXFSZ)
	var orig syscall.Rlimit
	if syscall.Getrlimit(syscall.RLIMIT_FSIZE, &orig) != nil {
		return
	}
	for _, variant := range []string{"same-name-new-key", "another-name"} {
		c.Eval(1)
		cas := c02Case{Pin: c02Pins[0], Hist: []string{"disk-full:" + variant}}
		b, err := newBed(c, bedOpt{Pin: c02Pins[0]})
		if err != nil {
			c.Infra("bed: " + err.Error())
			return
		}
		func() {
			defer b.Close()
			k, err := b.Dial()
			if err != nil {
				c.Infra(err.Error())
				return
			}
			if _, ec, err := refctl.PairSetup(k, idL, b.Code, refctl.Seed32("df-a1")); err != nil || ec != 0 {
				c.Infra(fmt.Sprintf("first pairing fails: %v %d", err, ec))
				return
			}
			second := refctl.NewIdentity(idL.ID, "legit-L-second-key")
			if variant == "another-name" {
				second = refctl.NewIdentity("SECOND-CONTROLLER", "second")
			}
			k2, err := b.Dial()
			if err != nil {
				c.Infra(err.Error())
				return
			}
			s := &refctl.Setup{}
			m, _, err := k2.Do("POST", "/pair-setup", refctl.CTPairing, refctl.SetupM1())
			if err != nil || s.ParseM2(m.Body) != nil {
				c.Infra("second exchange: start fails")
				return
			}
			m3, _ := s.M3(refctl.Seed32("df-a2"), b.Code)
			if m, _, err = k2.Do("POST", "/pair-setup", refctl.CTPairing, m3); err != nil {
				c.Infra("second exchange: verify fails")
				return
			}
			if ec, err := s.ParseM4(m.Body); err != nil || ec != 0 {
				c.Infra("second exchange: verify rejected")
				return
			}
			lim := orig
			lim.Cur = 0
			syscall.Setrlimit(syscall.RLIMIT_FSIZE, &lim)
			m, _, err = k2.Do("POST", "/pair-setup", refctl.CTPairing, s.M5(second))
			syscall.Setrlimit(syscall.RLIMIT_FSIZE, &orig)
			answer := "no response"
			if err == nil {
				answer = fmt.Sprintf("status %d", m.Status)
				if ec, perr := s.ParseM6(m.Body); perr == nil {
					answer += fmt.Sprintf(" M6 error %d", ec)
				}
			}
			database, _ := db.NewDatabase(b.Dir)
			es, lerr := database.Entities()
			if lerr != nil {
				c.Report("disk-full/store-unreadable/"+variant, "after a key exchange during which the storage refused writes the stored pairings cannot be read: "+lerr.Error(), cas)
				return
			}
			stored := map[string][]byte{}
			for _, e := range es {
				stored[e.Name] = e.PublicKey
			}
			first, ok := stored[idL.ID]
			switch {
			case !ok:
				c.Report("disk-full/existing-pairing-lost/"+variant, fmt.Sprintf("a key exchange during which the storage refused writes (answered with %s) removed the pairing of %s that existed before", answer, idL.ID), cas)
			case variant == "another-name" && !bytes.Equal(first, idL.Pub):
				c.Report("disk-full/existing-pairing-changed/"+variant, "the existing pairing's key changed", cas)
			case variant == "same-name-new-key" && !bytes.Equal(first, idL.Pub) && !bytes.Equal(first, second.Pub):
				c.Report("disk-full/existing-pairing-changed/"+variant, "the existing pairing's key is neither the old nor the delivered one", cas)
			}
			if k2v, ok := stored["SECOND-CONTROLLER"]; ok && !bytes.Equal(k2v, second.Pub) {
				c.Report("disk-full/stored-key-differs/"+variant, "the new pairing is stored with a key that was not delivered", cas)
			}
			c.Class("disk-full:" + variant + ":" + answer)
		}()
	}
}

// checkStore compares the stored pairings with the model after every event.
func (r *c02Run) checkStore(ev string) bool {
	database, _ := db.NewDatabase(r.b.Dir)
	es, err := database.Entities()
	if err != nil {
		r.fail("store-unreadable", "stored pairings cannot be read after "+ev+": "+err.Error())
		return false
	}
	want := map[string][]byte{r.b.AccID: r.b.AccLTPK}
	if r.paired {
		want[r.idL.ID] = r.idL.Pub
	}
	var extra, changed []string
	got := map[string]bool{}
	for _, e := range es {
		got[e.Name] = true
		w, ok := want[e.Name]
		if !ok {
			extra = append(extra, e.Name)
		} else if !bytes.Equal(w, e.PublicKey) {
			changed = append(changed, e.Name)
		}
	}
	sort.Strings(extra)
	op := strings.SplitN(ev, ":", 2)[1]
	switch {
	case len(extra) > 0:
		who := "other"
		if extra[0] == idX.ID {
			who = "adversary"
		}
		r.fail("stored-without-proof/"+who+"/after-"+op, fmt.Sprintf("after %s a pairing for %q is stored although no valid setup-code proof preceded it", ev, extra[0]))
		return false
	case len(changed) > 0:
		r.fail("stored-key-changed/after-"+op, fmt.Sprintf("after %s the stored key of %q changed", ev, changed[0]))
		return false
	case len(got) != len(want):
		r.fail("pairing-lost/after-"+op, "after "+ev+" a stored pairing disappeared or the genuine pairing was not stored")
		return false
	}
	// the look-up pair-verify uses agrees with the listing: an identity is found exactly when it is stored here —
	// whatever other systems of this process have stored (the legitimate identities of the other setup codes included)
	for _, id := range []refctl.Identity{idL, c02LongL, c02NulL, idX} {
		e, lerr := database.EntityWithName(id.ID)
		_, stored := want[id.ID]
		switch {
		case lerr == nil && !stored:
			r.fail("lookup-finds-unstored-pairing/after-"+op, fmt.Sprintf("after %s a look-up of %q succeeds although no such pairing is stored in this accessory's database", ev, trunc([]byte(id.ID), 24)))
			return false
		case stored && (lerr != nil || !bytes.Equal(e.PublicKey, want[id.ID])):
			r.fail("lookup-misses-stored-pairing/after-"+op, fmt.Sprintf("after %s the stored pairing of %q is not found by a look-up (%v)", ev, trunc([]byte(id.ID), 24), lerr))
			return false
		}
	}
	return true
}

type c02Case struct {
	Pin  string   `json:"pin,omitempty"`
	Hist []string `json:"hist"`
}

// Successive systems in one worker process alternate between two setup codes, and the adversary's "wrong code" is
// always the OTHER one — a code that was valid for the previous system in the same process.
// (the third code is above 2^26: more than the 26 bits some descriptions of the setup payload give the code)
var c02Pins = []string{"00102003", "46637726", "90000001"}

// with the third setup code the legitimate controller's identifier ends in a NUL byte
var c02NulL = refctl.NewIdentity("controller-7\x00", "legit-L-nul")
var c02Seq int

// c02Previous: the setup code of the system that ran before the one with code pin in the same process.
func c02Previous(pin string) string {
	for i, p := range c02Pins {
		if p == pin {
			return c02Pins[(i+len(c02Pins)-1)%len(c02Pins)]
		}
	}
	return c02Pins[1]
}

func c02Exec(c *fw.Ctx, hist []string) bool {
	c02Seq++
	return c02ExecPin(c, c02Pins[c02Seq%3], hist)
}

func c02ExecPin(c *fw.Ctx, pin string, hist []string) bool {
	c.Eval(1)
	c.State(1)
	c.Trace(1)
	c.Transition(len(hist))
	world.ResetCapture()
	b, err := newBed(c, bedOpt{Pin: pin})
	if err != nil {
		c.Infra("bed: " + err.Error())
		return false
	}
	defer b.Close()
	other := c02Previous(pin)
	r := &c02Run{c: c, b: b, conns: map[string]*c02Conn{}, wrongCode: formatPin(other), idL: idL}
	if pin == c02Pins[1] {
		r.idL = c02LongL
	}
	if pin == c02Pins[2] {
		r.idL = c02NulL
	}
	failed := false
	cur := 0
	r.fail = func(sig, desc string) {
		failed = true
		upto := hist[:cur+1] // the history up to the event that failed
		shown := upto
		if len(shown) > 40 {
			shown = append(append([]string{shown[0], "…"}, shown[len(shown)-9:]...))
		}
		c.Report(sig, desc+" — history "+strings.Join(shown, ", "), c02Case{Pin: pin, Hist: upto})
	}
	for i, ev := range hist {
		cur = i
		if n, ok := strings.CutPrefix(ev, "refusals:"); ok {
			// a long run of refused setup-code proofs on connection X (a lock-out policy may start to answer differently)
			k, _ := strconv.Atoi(n)
			for i := 0; i < k && !failed; i++ {
				if !r.step("X:M1") || !r.step("X:M3-wrong-code") {
					break
				}
			}
			if failed {
				break
			}
			continue
		}
		if !r.step(ev) {
			break
		}
	}
	return !failed
}

// c02AfterRefusals: the non-initial state "n setup-code proofs were refused" (n = 101 quick: HAP asks an accessory to
// stop looking at proofs after 100 refusals; 300 thorough). In ONE system, after the refusals, every adversary history
// of length 3 over the deep alphabet runs on a fresh connection each, then L's genuine exchange; the store oracle
// runs after every event as everywhere else.
func c02AfterRefusals(c *fw.Ctx) {
	n := 101
	if c.Thorough() {
		n = 300
	}
	hist := []string{fmt.Sprintf("refusals:%d", n)}
	k := 0
	var rec func(h []string)
	rec = func(h []string) {
		if len(h) == 3 {
			k++
			for _, op := range h {
				hist = append(hist, fmt.Sprintf("Y%d:%s", k, op))
			}
			return
		}
		for _, s := range c02Deep {
			rec(append(append([]string{}, h...), strings.SplitN(s, ":", 2)[1]))
		}
	}
	rec(nil)
	hist = append(hist, "L:M1", "L:M3-valid", "L:M5-genuine", "X:M1", "X:M3-A-N", "X:M5-zero-key")
	c02ExecPin(c, c02Pins[0], hist)
}

func c02Run1(c *fw.Ctx) {
	{
		interfRun(c, "C02") // statement-level interleavings of operations on shared / disjoint objects (subprocess)
	}
	// interleavings of the pairing handlers of several connections, explored under the cooperative scheduler in a
	// subprocess (the last worker shards run one part each, next to their share of the trees)
	if part := c.NShards - 1 - c.Shard; part < 2*pschedParts || c.NShards == 1 {
		done := make(chan bool)
		go func() {
			defer close(done)
			if c.NShards == 1 {
				for p := 0; p < 2*pschedParts; p++ {
					pschedRun(c, "C02", p)
				}
				return
			}
			pschedRun(c, "C02", part)
		}()
		defer func() { <-done }()
	}
	if c.Shard == 0 {
		c02DiskFull(c)
	}
	if c.Shard == 1%c.NShards {
		c02AfterRefusals(c)
	}
	depth := 3
	n := 19
	alpha := append(append([]string{}, c02Alphabet[:20]...), c02Alphabet[len(c02Alphabet)-3:]...)
	if c.Thorough() {
		depth, alpha = 4, c02Alphabet
	}
	n = len(alpha)
	if c.Shard == 0 {
		c.Extra("depth_bound_completed", int64(depth))
		c.Extra("alphabet_size", int64(n))
	}
	// deep adversary-only tree (cheap: no successful SRP exchange in it)
	dd := 5
	if c.Thorough() {
		dd = 7
	}
	exploreTree(c, len(c02Deep), dd, func(h []int) bool {
		if len(h) < dd {
			return false
		}
		var hist []string
		for _, s := range h {
			hist = append(hist, c02Deep[s])
		}
		c02Exec(c, hist)
		return false
	})
	// the deep alphabet plus two verify requests during which the accessory's randomness fails, one level shallower
	deepR := append(append([]string{}, c02Deep...), "X:M3-A-zero+rand-fails", "X:M3-A-N+rand-fails")
	exploreTree(c, len(deepR), dd-1, func(h []int) bool {
		if len(h) < dd-1 {
			return false
		}
		var hist []string
		for _, s := range h {
			hist = append(hist, deepR[s])
		}
		c02Exec(c, hist)
		return false
	})
	// from the non-initial state "L has paired": every adversary history over the replay alphabet
	post := []string{"X:M1", "X:M3-replay-L", "X:M5-replay-L", "X:M3-wrong-code", "X:M5-zero-key", "X:M3-A-zero", "L2:M5-of-L"}
	pd := 2
	if c.Thorough() {
		pd = 3
	}
	exploreTree(c, len(post), pd, func(h []int) bool {
		if len(h) < pd {
			return false
		}
		hist := []string{"L:M1", "L:M3-valid", "L:M5-genuine"}
		for _, s := range h {
			hist = append(hist, post[s])
		}
		c02Exec(c, hist)
		return false
	})
	// from the non-initial state "L has proved the code (M1, M3) and not yet exchanged keys": the whole alphabet to
	// depth 2 (thorough 3) — whatever happens on other connections meanwhile, L's key exchange then completes iff it
	// directly follows on L's connection
	exploreTree(c, n, pd, func(h []int) bool {
		if len(h) < pd {
			return false
		}
		hist := []string{"L:M1", "L:M3-valid"}
		for _, s := range h {
			hist = append(hist, alpha[s])
		}
		c02Exec(c, hist)
		return false
	})
	// from the non-initial state "L proved the code, its key exchange was refused, L started again and proved the code
	// again" (two exchanges on one connection that both got as far as a verified proof): every symbol once — L's genuine
	// key exchange, sealed under the keys of the SECOND exchange, completes
	if c.Shard == 2%c.NShards {
		for _, refused := range []string{"L:M5-sealed-but-cut-inside", "L:M5-random-key", "L:M5-len15"} {
			for _, sym := range alpha {
				c02Exec(c, []string{"L:M1", "L:M3-valid", refused, "L:M1", "L:M3-valid", sym})
			}
		}
	}
	sampled := 0
	// only complete histories of maximal length are new work: the oracle runs after every event, so every
	// prefix is judged inside its extensions; leaves are what we execute, plus nothing is lost by skipping inner nodes
	exploreTree(c, n, depth, func(h []int) bool {
		if len(h) < depth {
			return false
		}
		var hist []string
		for _, s := range h {
			hist = append(hist, alpha[s])
		}
		if sampled < 2 {
			c.Sample(hist)
			sampled++
		}
		c02Exec(c, hist)
		return false
	})
}

func init() {
	fw.Register(&fw.Check{
		ID:    "C02",
		Level: "model_checking",
		Rule:  "every history of length 3 (quick, 23 symbols) / 4 (thorough, 28 symbols), plus every adversary-only history of length 5 (quick) / 7 (thorough) over 6 symbols around rejected SRP public keys, and of length 4 / 6 over those plus two verify requests during which the accessory's entropy source fails, plus — from the non-initial state 'L has completed pairing' — every adversary history of length 2 (quick) / 3 (thorough) over 7 replay symbols, and — from the state 'L has proved the code and not yet exchanged keys' — every history of length 2 / 3 over the whole alphabet; successive systems of a worker process rotate through three setup codes (one above 2^26) and the adversary's wrong code is another one of them, over the pair-setup alphabet on a legitimate connection L (knows the code) and an adversary connection X (sees all bytes, owns its keys, does not know the code): start; verify with right code, wrong code, A = 0 / N / 2N, proof missing, A missing, L's verify replayed, A = 0 with the proof for an empty session key; key-exchange genuine, L's genuine key-exchange delivered on another connection, sealed under the all-zero key / HKDF of an empty secret / the wrong-code secret / a random key, sealed under the all-zero key and presenting the neutral group element as long-term key with the signature that key accepts for every message, 0- and 15-byte payloads, tag flipped, L's key-exchange replayed; unknown method and states; reopen. Real transport over TCP with real SRP; a fresh system per history; after EVERY event the stored pairings (read through the database) must equal the model: the accessory's own entity plus exactly (L's id, L's key) iff L completed start → right-code verify → genuine key-exchange consecutively on its connection; proofs and M6 payloads must appear only when the model allows; the proof for the configured code directly after an accepted start is accepted; a look-up by name (what pair-verify uses) finds exactly the stored pairings, whatever earlier systems of the process stored. With the second code the legitimate controller has a 124-byte identifier with letters of both cases and bytes that are not valid UTF-8, with the third an identifier that ends in a NUL byte. L's key exchange sealed correctly but cut off inside ends the exchange; after it L starts and proves again on the same connection, then every symbol once (the genuine key exchange under the second exchange's keys completes). From the non-initial state '101 (thorough 300) setup-code proofs were refused', in one system: every adversary history of length 3 over the 6 deep symbols, each on a fresh connection, then L's genuine exchange. A genuine key exchange during which the storage refuses every write (RLIMIT_FSIZE 0) leaves the pairings that existed before in place. Plus interleavings of the real /pair-setup and /pair-verify handlers of two connections under a cooperative scheduler (subprocess built with the overlay; scheduling points = every log statement of the library, every mutex Lock in hap and crypto, and the arrival of each request), iterative preemption bounding to 2 (quick) / 3 (thorough), and once more with a scheduling point before EVERY statement of hc's packages and one preemption: two genuine key exchanges at once, a genuine key exchange next to a paired controller's pair-verify, next to an adversary's requests; after every schedule the stored pairings must be exactly those delivered. states = histories executed (each judges all its prefixes), distinct_nontrivial = distinct (event → response class) pairs",
		Run:   c02Run1,
		Replay: func(c *fw.Ctx, raw json.RawMessage) {
			var pc pschedCase
			if json.Unmarshal(raw, &pc) == nil && pc.Kind == "pairing-schedule" {
				pschedReplay(c, pc)
				return
			}
			var cas c02Case
			json.Unmarshal(raw, &cas)
			if len(cas.Hist) == 1 && strings.HasPrefix(cas.Hist[0], "disk-full:") {
				c02DiskFull(c)
				return
			}
			if cas.Pin == "" {
				cas.Pin = c02Pins[0]
			}
			// the previous system of the process used the other code
			c02ExecPin(c, c02Previous(cas.Pin), []string{"L:M1"})
			c02ExecPin(c, cas.Pin, cas.Hist)
		},
		Budget: func(t string) time.Duration {
			if t == "thorough" {
				return 25 * time.Minute
			}
			return 4 * time.Minute
		},
		Assumptions: []string{"whether a start is accepted is observed, not predicted; the model predicts only what may be stored and which responses may carry a proof / an M6 payload", "a connection dropped without a response (handler panic) is judged by C13, here it only must not change the store"},
	})
}
