package checks

import (
	"bytes"
	"crypto/ed25519"
	"encoding/hex"
	"encoding/json"
	"fmt"
	"github.com/brutella/hc/db"
	"os"
	"path/filepath"
	"strconv"
	"strings"
	"time"

	"verif/internal/fw"
	"verif/internal/refctl"
	"verif/internal/world"
)

// C03 — a connection becomes verified only by a valid long-term-key signature.

var (
	idL = refctl.NewIdentity("1111AAAA-2222-3333-4444-5555bbbb6666", "legit-L")
	idX = refctl.NewIdentity("EEEEEEEE-0000-0000-0000-EEEEEEEEEEEE", "adversary-X")
)

// stored pairing sets also contain degenerate entities: one without a key, one with a 5-byte key
var idAdmin = refctl.NewIdentity("AAAAAAAA-1111-2222-3333-444444444444", "admin-A")

var (
	idKeyless  = refctl.Identity{ID: "keyless-entity"}
	idShortKey = refctl.Identity{ID: "shortkey-entity", Pub: []byte{1, 2, 3, 4, 5}}
)

var c03Alphabet = []string{
	"L:start", "L:finish-genuine", "X:start", "X:finish-signed-by-X-naming-L",
	"X:start-31", "X:start-33", "X:start-empty", "X:start-zero-point",
	"X:finish-unknown-name", "X:finish-naming-accessory", "X:finish-zero-key", "X:finish-wrong-key",
	"X:finish-len0", "X:finish-len15", "X:finish-replay-L", "X:finish-tag-flipped",
	"L:finish-reordered", "L:finish-stale", "X:state-7", "X:method-1", "X:reopen", "L:reopen",
	"X:finish-naming-keyless-entity", "X:finish-naming-shortkey-entity",
	"X:start-replay-L", "L:finish-genuine-begin", "L:finish-genuine-end",
	"L:finish-signed-by-L-naming-case-variant", "L:finish-signed-by-L-naming-prefix-of-L",
	"X:finish-reflecting-accessory-signature", "X:start-with-accessory-key", "X:finish-echoing-start-response",
	"L:finish-genuine-plus-cut-off-item", "L:finish-genuine-plus-lone-tag", "L:finish-genuine-then-pipelined-failed-verify",
	// a finish shorter than an authentication tag on L's own connection: the exchange is over, a genuine finish that
	// follows (without a new start) must be refused
	"L:finish-len15",
	"X:finish-signed-by-X-naming-L-with-own-key-item", "X:finish-with-error-item",
}

func swapCase(s string) string {
	b := []byte(s)
	for i, c := range b {
		switch {
		case c >= 'a' && c <= 'z':
			b[i] = c - 32
		case c >= 'A' && c <= 'Z':
			b[i] = c + 32
		}
	}
	return string(b)
}

// connection state in the reference model
type c03Conn struct {
	k         *refctl.Ctl
	name      string
	pending   *refctl.Verify // exchange whose start was the immediately preceding verify message and was accepted
	last      *refctl.Verify // most recent accepted exchange (context for forged finishes)
	prev      *refctl.Verify // the accepted exchange before last (for "stale")
	verified  bool
	lastM3    []byte         // L's most recent genuine finish bytes (visible to X on the wire)
	lastM1    []byte         // L's most recent start bytes
	split     *refctl.Verify // L: finish request whose head was sent (handler waits for the body)
	splitBody []byte
	dead      bool
}

type c03Run struct {
	lUnpaired bool // L's pairing was removed
	c         *fw.Ctx
	b         *bed
	conns     map[string]*c03Conn
	hist      []string
	seq       int
	fail      func(sig, desc string)
}

func (r *c03Run) conn(name string) *c03Conn {
	cn := r.conns[name]
	if cn == nil || cn.dead {
		k, err := r.b.Dial()
		if err != nil {
			r.c.Infra(err.Error())
			return nil
		}
		cn = &c03Conn{k: k, name: name}
		r.conns[name] = cn
	}
	return cn
}

func c03Class(m *refctl.Msg, err error) (cls string, isErr bool, tlvErr byte) {
	if err != nil {
		return "no-response", true, 0
	}
	if m.Status != 200 {
		return fmt.Sprintf("http-%d", m.Status), true, 0
	}
	t, perr := refctl.TLVMap(m.Body)
	if perr != nil {
		return "malformed-tlv", true, 0
	}
	if e := t[refctl.TagError]; len(e) > 0 {
		return fmt.Sprintf("tlv-error-%d", e[0]), true, e[0]
	}
	st := byte(0)
	if len(t[refctl.TagState]) > 0 {
		st = t[refctl.TagState][0]
	}
	return fmt.Sprintf("ok-state-%d", st), false, 0
}

// step executes one event and checks the response against the model.
func (r *c03Run) step(ev string) bool {
	r.seq++
	parts := strings.SplitN(ev, ":", 2)
	cn := r.conn(parts[0])
	if cn == nil {
		return false
	}
	op := parts[1]
	if cn.split != nil && op != "finish-genuine-end" {
		return true // the connection is in the middle of a request
	}
	post := func(body []byte) (*refctl.Msg, error) {
		m, _, err := cn.k.Do("POST", "/pair-verify", refctl.CTPairing, body)
		if err != nil {
			cn.dead = true
		}
		return m, err
	}
	ctxv := cn.last
	if ctxv == nil { // no accepted exchange yet: the adversary makes one up
		ctxv = refctl.NewVerify(refctl.Seed32(fmt.Sprintf("fake:%d", r.seq)))
		ctxv.AccEph = refctl.Seed32("fake-acc-eph")
		ctxv.Shared = refctl.Seed32("fake-shared")
		ctxv.EncKey = refctl.HKDF(ctxv.Shared, []byte("Pair-Verify-Encrypt-Salt"), []byte("Pair-Verify-Encrypt-Info"))
	}
	pending := cn.pending
	cn.pending = nil
	expectVerify := false
	var m *refctl.Msg
	var err error
	isFinish := false
	switch op {
	case "reopen":
		cn.k.Close()
		cn.dead = true
		r.conn(parts[0])
		return true
	case "start-replay-L":
		// X sends the bytes of L's most recent start request (it saw them on the wire); it does not know L's
		// ephemeral secret, so whatever comes back it cannot derive the exchange keys
		body := refctl.VerifyM1(pat(32, 77))
		if l := r.conns["L"]; l != nil && l.lastM1 != nil {
			body = l.lastM1
		}
		m, err = post(body)
		cls, isErr, _ := c03Class(m, err)
		r.c.Class(op + "→" + cls)
		if !isErr {
			z := refctl.NewVerify(refctl.Seed32("replayed"))
			t, _ := refctl.TLVMap(m.Body)
			z.AccEph = t[refctl.TagPublicKey]
			z.Shared = refctl.Seed32("unknown-to-X")
			z.EncKey = refctl.Seed32("unknown-to-X-enc")
			cn.prev, cn.last, cn.pending = cn.last, z, nil
		}
		return true
	case "finish-genuine-begin":
		if cn.verified || cn.split != nil {
			cn.pending = pending // not enabled: nothing is sent, the model state is unchanged
			return true
		}
		if pending == nil { // no accepted start directly before: make one, so that the symbol is a complete "verify, first half"
			v := refctl.NewVerify(refctl.Seed32(fmt.Sprintf("%s:eph:%d", cn.name, r.seq)))
			cn.lastM1 = refctl.VerifyM1(v.EphPub)
			sm, serr := post(cn.lastM1)
			if _, isErr, _ := c03Class(sm, serr); isErr || v.ParseM2(sm.Body, r.b.AccLTPK) != nil {
				return true // the start was rejected (e.g. after an earlier rejected message): nothing to split
			}
			cn.prev, cn.last = cn.last, v
			pending = v
		}
		isFinish = true
		body := pending.M3(idL)
		cn.lastM3 = body
		if berr := cn.k.BeginRequest("POST", "/pair-verify", refctl.CTPairing, len(body)); berr != nil {
			cn.dead = true
			return true
		}
		cn.split, cn.splitBody = pending, body
		cn.pending = pending
		return true
	case "finish-genuine-end":
		if cn.split == nil {
			cn.pending = pending // not enabled: nothing is sent
			return true
		}
		pending = cn.split
		cn.split = nil
		isFinish = true
		expectVerify = !r.lUnpaired
		m, _, err = cn.k.FinishRequest(cn.splitBody)
		if err != nil {
			cn.dead = true
		}
	case "start", "start-31", "start-33", "start-empty", "start-zero-point":
		v := refctl.NewVerify(refctl.Seed32(fmt.Sprintf("%s:eph:%d", cn.name, r.seq)))
		pub := v.EphPub
		switch op {
		case "start-31":
			pub = pub[:31]
		case "start-33":
			pub = append(append([]byte{}, pub...), 0)
		case "start-empty":
			pub = nil
		case "start-zero-point":
			pub = make([]byte, 32)
		}
		if op == "start" {
			cn.lastM1 = refctl.VerifyM1(pub)
		}
		m, err = post(refctl.VerifyM1(pub))
		cls, isErr, _ := c03Class(m, err)
		r.c.Class(op + "→" + cls)
		if !isErr && op == "start" {
			if perr := v.ParseM2(m.Body, r.b.AccLTPK); perr != nil {
				r.fail("start-response-invalid", "accepted start answered with an M2 that does not verify: "+perr.Error())
				return false
			}
			cn.prev, cn.last, cn.pending = cn.last, v, v
		} else if !isErr && op == "start-zero-point" {
			// accepted with a low-order point: the shared secret is all-zero and known to everybody
			z := refctl.NewVerify(refctl.Seed32("z"))
			z.EphPub = make([]byte, 32)
			t, _ := refctl.TLVMap(m.Body)
			z.AccEph = t[refctl.TagPublicKey]
			z.Shared = make([]byte, 32)
			z.EncKey = refctl.HKDF(z.Shared, []byte("Pair-Verify-Encrypt-Salt"), []byte("Pair-Verify-Encrypt-Info"))
			cn.prev, cn.last, cn.pending = cn.last, z, nil
			cn.pending = z // a following forged finish still must not verify (signature under L's key is impossible)
		} else if !isErr {
			r.fail("malformed-start-accepted/"+op, "a start request with a malformed public key was accepted ("+cls+")")
			return false
		}
		return true
	case "finish-genuine":
		isFinish = true
		if pending != nil && cn.name == "L" {
			expectVerify = !r.lUnpaired
			m, err = post(pending.M3(idL))
			cn.lastM3 = pending.RawM3
		} else {
			body := ctxv.M3(idL) // genuine in form, but not answering an immediately preceding accepted start
			cn.lastM3 = body
			m, err = post(body)
		}
	case "finish-genuine-then-pipelined-failed-verify":
		// L's genuine finish, and in the same TCP segment (appended by somebody on the path, no secret needed) a complete
		// pair-verify that fails: a start with a fresh key and a finish naming nobody. The genuine exchange stays valid:
		// L is verified and its encrypted requests are served.
		if pending == nil || cn.name != "L" || cn.verified {
			cn.pending = pending // not enabled: nothing is sent
			return true
		}
		isFinish = true
		expectVerify = !r.lUnpaired
		z := refctl.NewVerify(refctl.Seed32(fmt.Sprintf("pipelined:%d", r.seq)))
		z.AccEph = refctl.Seed32("pipelined-acc")
		raw := refctl.BuildRequest("POST", "/pair-verify", refctl.CTPairing, pending.M3(idL))
		raw = append(raw, refctl.BuildRequest("POST", "/pair-verify", refctl.CTPairing, refctl.VerifyM1(z.EphPub))...)
		raw = append(raw, refctl.BuildRequest("POST", "/pair-verify", refctl.CTPairing, refctl.VerifyM3Sealed(refctl.Seed32("pipelined-key"), z.M3Sub("nobody", idX.Priv)))...)
		cn.lastM3 = pending.RawM3
		if err = cn.k.SendRaw(raw); err == nil {
			m, err = cn.k.ReadMsg()
		}
		if err != nil {
			cn.dead = true
		} else {
			// the answers to the two appended requests; an accessory that drops the connection instead is within its rights
			for i := 0; i < 2; i++ {
				if _, e := cn.k.ReadMsg(); e != nil {
					cn.dead = true
					r.c.Class(op + "→connection dropped after the finish response")
					return true
				}
			}
		}
	case "finish-genuine-then-pipelined-start-by-X":
		// L's genuine finish, and in the same TCP segment a verify START with a key of somebody on the path. L's exchange
		// succeeds; the session that follows belongs to L's exchange: frames the injector seals under the keys of ITS
		// start (it can compute them from the plaintext answer) are not served.
		if pending == nil || cn.name != "L" || cn.verified {
			cn.pending = pending // not enabled: nothing is sent
			return true
		}
		isFinish = true
		expectVerify = !r.lUnpaired
		z := refctl.NewVerify(refctl.Seed32(fmt.Sprintf("injected:%d", r.seq)))
		raw := refctl.BuildRequest("POST", "/pair-verify", refctl.CTPairing, pending.M3(idL))
		raw = append(raw, refctl.BuildRequest("POST", "/pair-verify", refctl.CTPairing, refctl.VerifyM1(z.EphPub))...)
		cn.lastM3 = pending.RawM3
		if err = cn.k.SendRaw(raw); err == nil {
			m, err = cn.k.ReadMsg()
		}
		if err != nil {
			cn.dead = true
		} else {
			cn.dead = true // (whatever follows, this connection is spent on the probe)
			if m2, e := cn.k.ReadMsg(); e == nil && z.ParseM2(m2.Body, nil) == nil {
				a2c, c2a := refctl.SessionKeys(z.Shared)
				if pr := cn.k.ProbeEncrypted(a2c, c2a, refctl.BuildRequest("GET", "/accessories", "", nil)); pr.Decrypted != nil {
					r.fail("served-under-injected-exchange-keys", fmt.Sprintf("after L's genuine finish, a request sealed under the keys of a verify start that somebody injected behind it was answered (status %d, %d bytes) under those keys", pr.Decrypted.Status, len(pr.Decrypted.Body)))
					return false
				}
				r.c.Class(op + "→injected keys not served")
			} else {
				r.c.Class(op + "→injected start not answered")
			}
		}
	case "finish-genuine-plus-cut-off-item", "finish-genuine-plus-lone-tag":
		// L's genuine payload followed by bytes that do not form an item: a malformed message
		isFinish = true
		x := ctxv
		if pending != nil {
			x = pending
		}
		tail := []byte{refctl.TagSignature, 64, 1, 2, 3}
		if strings.HasSuffix(op, "lone-tag") {
			tail = []byte{0x0b}
		}
		m, err = post(refctl.VerifyM3Sealed(x.EncKey, append(x.M3Sub(idL.ID, idL.Priv), tail...)))
	case "finish-signed-by-X-naming-L":
		isFinish = true
		m, err = post(refctl.VerifyM3Sealed(ctxv.EncKey, ctxv.M3Sub(idL.ID, idX.Priv)))
	case "finish-signed-by-L-naming-case-variant", "finish-signed-by-L-naming-prefix-of-L":
		// L's own key and a well-formed exchange, but the claimed name is not a stored one: no key is stored
		// for it, so it must be refused like any unknown name
		isFinish = true
		name := swapCase(idL.ID)
		if strings.Contains(op, "prefix") {
			name = idL.ID[:len(idL.ID)-1]
		}
		x := ctxv
		if pending != nil {
			x = pending
		}
		m, err = post(refctl.VerifyM3Sealed(x.EncKey, x.M3Sub(name, idL.Priv)))
	case "finish-reflecting-accessory-signature":
		// X cannot sign; it sends the accessory's own identifier and signature (taken from the start response it
		// decrypted) back as its finish
		isFinish = true
		name, sig := r.b.AccID, pat(64, 9)
		if ctxv.AccSig != nil {
			name, sig = ctxv.AccID, ctxv.AccSig
		}
		m, err = post(refctl.VerifyM3Sealed(ctxv.EncKey, refctl.TLVEncode(refctl.T(refctl.TagIdentifier, []byte(name)), refctl.T(refctl.TagSignature, sig))))
	case "start-with-accessory-key":
		// X starts an exchange with the accessory's own ephemeral public key as its key (learnt from an earlier
		// start response on this connection); a rejected start is retried once, as a controller would
		pub := pat(32, 55)
		if cn.last != nil && len(cn.last.AccEph) == 32 {
			pub = cn.last.AccEph
		}
		for attempt := 0; attempt < 2; attempt++ {
			m, err = post(refctl.VerifyM1(pub))
			if _, isErr, _ := c03Class(m, err); !isErr || err != nil {
				break
			}
		}
		cls, isErr, _ := c03Class(m, err)
		r.c.Class(op + "→" + cls)
		if !isErr {
			z := refctl.NewVerify(refctl.Seed32("acc-key"))
			t, _ := refctl.TLVMap(m.Body)
			z.EphPub = pub
			z.AccEph = t[refctl.TagPublicKey]
			z.Shared = refctl.Seed32("unknown-to-X")
			z.EncKey = refctl.Seed32("unknown-to-X-enc")
			z.RawM2 = t[refctl.TagEncrypted] // the sealed part of the start response, which X cannot open
			cn.prev, cn.last, cn.pending = cn.last, z, z
		}
		return true
	case "finish-echoing-start-response":
		// the sealed part of the most recent start response, sent back unchanged as the finish
		isFinish = true
		blob := pat(80, 3)
		if cn.last != nil && cn.last.RawM2 != nil && len(cn.last.RawM2) < 200 {
			blob = cn.last.RawM2
		} else if cn.last != nil && cn.last.RawM2 != nil {
			if t, perr := refctl.TLVMap(cn.last.RawM2); perr == nil && t[refctl.TagEncrypted] != nil {
				blob = t[refctl.TagEncrypted]
			}
		}
		m, err = post(refctl.TLVEncode(refctl.T(refctl.TagState, []byte{3}), refctl.T(refctl.TagEncrypted, blob)))
	case "finish-signed-by-X-naming-L-with-own-key-item":
		// the finish names L, is signed with X's key and carries X's public key as an extra item (the pair-setup key
		// exchange has such an item, pair-verify has not): the key to check against is the stored one
		isFinish = true
		mat := append(append(append([]byte{}, ctxv.EphPub...), idL.ID...), ctxv.AccEph...)
		sub := refctl.TLVEncode(refctl.T(refctl.TagIdentifier, []byte(idL.ID)), refctl.T(refctl.TagPublicKey, idX.Pub), refctl.T(refctl.TagSignature, ed25519.Sign(idX.Priv, mat)))
		m, err = post(refctl.VerifyM3Sealed(ctxv.EncKey, sub))
	case "finish-with-error-item":
		// a "finish" that carries nothing but an error item, as if the controller aborted
		isFinish = true
		m, err = post(refctl.TLVEncode(refctl.T(refctl.TagState, []byte{3}), refctl.T(refctl.TagError, []byte{2})))
	case "finish-naming-path-into-neighbour-store":
		// the name X presents is a path: it leads from this accessory's store to the entity file X has in the store of
		// the accessory next door. Names are names, not paths: unknown here, refused.
		isFinish = true
		m, err = post(refctl.VerifyM3Sealed(ctxv.EncKey, ctxv.M3Sub("../nb-"+filepath.Base(r.b.Dir)+"/"+hex.EncodeToString([]byte(idX.ID)), idX.Priv)))
	case "finish-unknown-name":
		isFinish = true
		m, err = post(refctl.VerifyM3Sealed(ctxv.EncKey, ctxv.M3Sub("nobody", idX.Priv)))
	case "finish-naming-accessory":
		isFinish = true
		m, err = post(refctl.VerifyM3Sealed(ctxv.EncKey, ctxv.M3Sub(r.b.AccID, idX.Priv)))
	case "finish-naming-keyless-entity": // a stored entity without a long-term key must not verify anybody
		isFinish = true
		m, err = post(refctl.VerifyM3Sealed(ctxv.EncKey, ctxv.M3Sub(idKeyless.ID, idX.Priv)))
	case "finish-naming-shortkey-entity":
		isFinish = true
		m, err = post(refctl.VerifyM3Sealed(ctxv.EncKey, ctxv.M3Sub(idShortKey.ID, idX.Priv)))
	case "finish-zero-key":
		isFinish = true
		m, err = post(refctl.VerifyM3Sealed(make([]byte, 32), ctxv.M3Sub(idL.ID, idX.Priv)))
	case "finish-wrong-key":
		isFinish = true
		m, err = post(refctl.VerifyM3Sealed(refctl.Seed32("wrong-key"), ctxv.M3Sub(idL.ID, idX.Priv)))
	case "finish-len0":
		isFinish = true
		m, err = post(refctl.TLVEncode(refctl.T(refctl.TagState, []byte{3}), refctl.T(refctl.TagEncrypted, nil)))
	case "finish-len15":
		isFinish = true
		m, err = post(refctl.TLVEncode(refctl.T(refctl.TagState, []byte{3}), refctl.T(refctl.TagEncrypted, pat(15, 1))))
	case "finish-tag-flipped":
		isFinish = true
		body := refctl.VerifyM3Sealed(ctxv.EncKey, ctxv.M3Sub(idL.ID, idX.Priv))
		body[len(body)-1] ^= 1
		m, err = post(body)
	case "finish-replay-L":
		isFinish = true
		body := []byte(nil)
		if l := r.conns["L"]; l != nil && l.lastM3 != nil {
			body = l.lastM3
		} else {
			body = refctl.VerifyM3Sealed(ctxv.EncKey, ctxv.M3Sub(idL.ID, idX.Priv))
		}
		m, err = post(body)
	case "finish-reordered": // L signs acc eph | name | ctl eph
		isFinish = true
		mat := append(append(append([]byte{}, ctxv.AccEph...), idL.ID...), ctxv.EphPub...)
		sub := refctl.TLVEncode(refctl.T(refctl.TagIdentifier, []byte(idL.ID)), refctl.T(refctl.TagSignature, ed25519.Sign(idL.Priv, mat)))
		m, err = post(refctl.VerifyM3Sealed(ctxv.EncKey, sub))
	case "finish-stale": // L's signature over the material of the previous exchange, sealed for the current one
		isFinish = true
		old := cn.prev
		if old == nil {
			old = refctl.NewVerify(refctl.Seed32("stale"))
			old.AccEph = refctl.Seed32("stale-acc")
		}
		m, err = post(refctl.VerifyM3Sealed(ctxv.EncKey, old.M3Sub(idL.ID, idL.Priv)))
	case "state-7":
		m, err = post(refctl.TLVEncode(refctl.T(refctl.TagState, []byte{7})))
	default:
		if !strings.HasPrefix(op, "finish-genuine-malformed:") {
			r.c.Infra("unknown symbol " + ev)
			return false
		}
		isFinish = true
		x := ctxv
		if pending != nil {
			x = pending
		}
		m, err = post(c03Malformed(x, strings.TrimPrefix(op, "finish-genuine-malformed:")))
	case "method-1":
		m, err = post(refctl.TLVEncode(refctl.T(refctl.TagMethod, []byte{1}), refctl.T(refctl.TagState, []byte{1}), refctl.T(refctl.TagPublicKey, pat(32, 3))))
	}
	cls, isErr, _ := c03Class(m, err)
	r.c.Class(op + "→" + cls)
	if expectVerify {
		if isErr || cls != "ok-state-4" {
			r.fail("genuine-finish-rejected", "a genuine finish directly after an accepted start was answered with "+cls)
			return false
		}
		a2c, c2a := refctl.SessionKeys(pending.Shared)
		cn.k.Secure(a2c, c2a)
		cn.verified = true
		return true
	}
	if !isErr && (isFinish || cls == "ok-state-4") {
		r.fail("invalid-finish-not-answered-with-error/"+op, fmt.Sprintf("%s on connection %s must not verify but was answered with %s (no error)", op, cn.name, cls))
		return false
	}
	if !isErr && !isFinish {
		r.fail("invalid-message-accepted/"+op, fmt.Sprintf("%s was answered with %s (no error)", op, cls))
		return false
	}
	return true
}

// probe decides, destructively, whether each connection is verified / encrypted and compares with the model.
func (r *c03Run) probe() {
	aid, iid := r.b.SwitchOn()
	path := fmt.Sprintf("/characteristics?id=%d.%d", aid, iid)
	for _, name := range []string{"X", "L"} {
		cn := r.conns[name]
		if cn == nil || cn.dead || cn.split != nil { // a connection in the middle of a request cannot be probed
			continue
		}
		if cn.verified {
			m, _, err := cn.k.Do("GET", "/accessories", "", nil)
			if err != nil || m.Status != 200 || !bytes.Contains(m.Body, []byte(canaryName)) {
				r.fail("verified-connection-not-served", fmt.Sprintf("connection %s completed a valid pair-verify but its encrypted request fails: %v", name, err))
			}
			continue
		}
		// (a) still in plaintext, and refused
		m, _, err := cn.k.Do("GET", path, "", nil)
		if err != nil {
			r.fail("unverified-connection-left-plaintext", fmt.Sprintf("connection %s is unverified but no longer answers plaintext requests: %v", name, err))
			continue
		}
		if m.Status/100 == 2 || hasCanary(m.Body) {
			r.fail("unverified-connection-served", fmt.Sprintf("connection %s is unverified but a protected read is served (status %d)", name, m.Status))
			continue
		}
		// (b) ciphertext under the keys of its latest exchange must not be served
		shared := refctl.Seed32("fake-shared")
		if cn.last != nil {
			shared = cn.last.Shared
		}
		a2c, c2a := refctl.SessionKeys(shared)
		pr := cn.k.ProbeEncrypted(a2c, c2a, refctl.BuildRequest("GET", "/accessories", "", nil))
		cn.dead = true
		if pr.Decrypted != nil {
			r.fail("unverified-connection-encrypted", fmt.Sprintf("connection %s is unverified but serves requests sealed under the keys of its own (unauthenticated) exchange: status %d", name, pr.Decrypted.Status))
		}
	}
}

// c03Malformed: L's genuine finish of exchange x, damaged. Variants: "cut:<k>" the signed payload cut to its first
// k bytes before sealing; "tail:<hex>" the payload followed by bytes that do not form an item; "outer-tail:<hex>" /
// "outer-cut:<k>" the same damage to the request body itself.
func c03Malformed(x *refctl.Verify, variant string) []byte {
	sub := x.M3Sub(idL.ID, idL.Priv)
	kind, arg, _ := strings.Cut(variant, ":")
	switch kind {
	case "cut":
		k, _ := strconv.Atoi(arg)
		if k > len(sub) {
			k = len(sub)
		}
		return refctl.VerifyM3Sealed(x.EncKey, sub[:k])
	case "tail":
		t, _ := hex.DecodeString(arg)
		return refctl.VerifyM3Sealed(x.EncKey, append(sub, t...))
	case "outer-tail":
		t, _ := hex.DecodeString(arg)
		return append(refctl.VerifyM3Sealed(x.EncKey, sub), t...)
	case "outer-cut":
		k, _ := strconv.Atoi(arg)
		b := refctl.VerifyM3Sealed(x.EncKey, sub)
		if k > len(b) {
			k = len(b)
		}
		return b[:len(b)-k]
	}
	return nil
}

// c03MalformedVariants: every cut of the genuine signed payload (it is 2+36+2+64 bytes long), and tails that do not
// form an item, inside the sealed payload and after the request body.
func c03MalformedVariants() []string {
	var out []string
	for k := 0; k < 2+len(idL.ID)+2+64; k++ {
		out = append(out, fmt.Sprintf("cut:%d", k))
	}
	for _, t := range []string{"0b", "0a40010203", "0a", "0140", "ff01", "0aff" + strings.Repeat("00", 254)} {
		out = append(out, "tail:"+t, "outer-tail:"+t)
	}
	for _, k := range []int{1, 2, 15, 16, 17} {
		out = append(out, fmt.Sprintf("outer-cut:%d", k))
	}
	return out
}

type c03Case struct {
	Prefix string   `json:"prefix,omitempty"`
	Hist   []string `json:"hist"`
}

func c03Exec(c *fw.Ctx, hist []string) (ok bool) { return c03ExecFrom(c, "", hist) }

// c03ExecFrom runs a history from one of the initial states:
//
//	""                    L is paired and has not connected yet
//	"L-verified"          L has completed a genuine pair-verify on its connection (its messages are on record)
//	"L-used-then-removed" L verified once and disconnected, then an administrator removed L's pairing
func c03ExecFrom(c *fw.Ctx, prefix string, hist []string) (ok bool) {
	c.Eval(1)
	c.State(1)
	c.Trace(1)
	c.Transition(len(hist))
	world.ResetCapture()
	b, err := newBed(c, bedOpt{Seed: []refctl.Identity{idL, idKeyless, idShortKey, idAdmin}})
	if err == nil {
		// another accessory's store next to this one (one working directory, two accessories): X is paired THERE
		nb := filepath.Join(filepath.Dir(b.Dir), "nb-"+filepath.Base(b.Dir))
		if ndb, derr := db.NewDatabase(nb); derr == nil {
			ndb.SaveEntity(db.NewEntity(idX.ID, idX.Pub, nil))
			defer os.RemoveAll(nb)
		}
	}
	if err != nil {
		c.Infra("bed: " + err.Error())
		return false
	}
	defer b.Close()
	r := &c03Run{c: c, b: b, conns: map[string]*c03Conn{}, hist: hist}
	failed := false
	r.fail = func(sig, desc string) {
		failed = true
		where := ""
		if prefix != "" {
			where = " from state " + prefix
			sig += "/from:" + prefix
		}
		c.Report(sig, desc+" — history"+where+" "+strings.Join(hist, ", "), c03Case{Prefix: prefix, Hist: hist})
	}
	if prefix == "X-refused-once" {
		if !r.step("X:start") || !r.step("X:finish-unknown-name") {
			return !failed
		}
	}
	switch prefix {
	case "L-verified", "L-used-then-removed":
		if !r.step("L:start") || !r.step("L:finish-genuine") {
			if !failed {
				c.Infra("prefix " + prefix + " could not be established")
			}
			return !failed
		}
		if prefix == "L-used-then-removed" {
			r.conns["L"].k.Close()
			r.conns["L"].dead = true
			k, err := b.Dial()
			if err != nil {
				c.Infra(err.Error())
				return false
			}
			if _, ec, err := refctl.PairVerify(k, idAdmin, refctl.Seed32("admin"), b.AccLTPK); err != nil || ec != 0 {
				c.Infra(fmt.Sprintf("admin verify: %v %d", err, ec))
				return false
			}
			m, _, err := k.Do("POST", "/pairings", refctl.CTPairing, refctl.TLVEncode(refctl.T(refctl.TagState, []byte{1}), refctl.T(refctl.TagMethod, []byte{4}), refctl.T(refctl.TagIdentifier, []byte(idL.ID))))
			if err != nil || m.Status != 200 {
				c.Infra(fmt.Sprintf("remove pairing: %v %v", m, err))
				return false
			}
			k.Close()
			r.lUnpaired = true
		}
	}
	for _, ev := range hist {
		if !r.step(ev) {
			return !failed
		}
	}
	r.probe()
	return !failed
}

func c03Run1(c *fw.Ctx) {
	{
		interfRun(c, "C03") // statement-level interleavings of handlers on several connections (subprocess)
	}
	// interleavings of the pairing handlers of several connections, explored under the cooperative scheduler in a
	// subprocess (the last worker shards run one part each, next to their share of the trees)
	if part := c.NShards - 1 - c.Shard; part < 2*pschedParts || c.NShards == 1 {
		done := make(chan bool)
		go func() {
			defer close(done)
			if c.NShards == 1 {
				for p := 0; p < 2*pschedParts; p++ {
					pschedRun(c, "C03", p)
				}
				return
			}
			pschedRun(c, "C03", part)
		}()
		defer func() { <-done }()
	}
	// every damaged form of L's genuine finish, sent where the genuine one would be accepted (directly after an
	// accepted start) and after L has verified: answered with an error, connection not verified
	for i, v := range c03MalformedVariants() {
		if i%c.NShards != c.Shard {
			continue
		}
		c03Exec(c, []string{"L:start", "L:finish-genuine-malformed:" + v})
	}
	depth := 3
	if c.Thorough() {
		depth = 4
	}
	n := len(c03Alphabet)
	if !c.Thorough() {
		n = 16 // quick: the first 16 symbols (simplest first) …
	}
	// … plus the two degenerate-entity symbols
	alpha := append(append([]string{}, c03Alphabet[:n]...), "X:finish-naming-keyless-entity", "X:finish-naming-shortkey-entity", "L:finish-genuine-begin", "L:finish-genuine-end", "L:finish-signed-by-L-naming-case-variant", "X:finish-reflecting-accessory-signature", "X:start-with-accessory-key", "X:finish-echoing-start-response", "L:finish-genuine-plus-cut-off-item", "L:finish-genuine-then-pipelined-failed-verify", "L:finish-len15", "X:finish-signed-by-X-naming-L-with-own-key-item", "X:finish-with-error-item", "X:finish-naming-path-into-neighbour-store", "L:finish-genuine-then-pipelined-start-by-X")
	if c.Thorough() {
		// thorough: the quick alphabet to depth 4, and the full alphabet to depth 3
		full := c03Alphabet
		exploreTree(c, len(full), 3, func(h []int) bool {
			var hist []string
			for _, s := range h {
				hist = append(hist, full[s])
			}
			return !c03Exec(c, hist)
		})
	}
	n = len(alpha)
	if c.Shard == 0 {
		c.Extra("depth_bound_completed", int64(depth))
		c.Extra("alphabet_size", int64(n))
	}
	sampled := 0
	exploreTree(c, n, depth, func(h []int) bool {
		var hist []string
		for _, s := range h {
			hist = append(hist, alpha[s])
		}
		if len(h) == depth && sampled < 2 {
			c.Sample(hist)
			sampled++
		}
		return !c03Exec(c, hist) // a violating history is not extended (its extensions fail for the same reason)
	})
	// the same alphabet from non-initial states (depth 2 quick / 3 thorough)
	full := c03Alphabet
	d2 := 2
	if c.Thorough() {
		d2 = 3
	}
	for _, prefix := range []string{"L-verified", "L-used-then-removed", "X-refused-once"} {
		prefix := prefix
		alpha := full
		if prefix == "L-used-then-removed" && !c.Thorough() {
			// establishing this state costs a second (hc announces the unpairing over mDNS inside the handler): quick uses
			// the symbols that matter after a removal
			alpha = []string{"L:start", "L:finish-genuine", "L:reopen", "X:start", "X:finish-replay-L", "X:finish-signed-by-X-naming-L", "X:start-replay-L"}
		}
		exploreTree(c, len(alpha), d2, func(h []int) bool {
			var hist []string
			for _, s := range h {
				hist = append(hist, alpha[s])
			}
			return !c03ExecFrom(c, prefix, hist)
		})
	}
}

func init() {
	fw.Register(&fw.Check{
		ID:    "C03",
		Level: "model_checking",
		Rule:  "every history of length ≤3 (quick) / ≤4 (thorough) over 29 symbols, in thorough also every history of length ≤3 over all 38 symbols, of the pair-verify alphabet on an adversary connection X and a legitimate connection L (start valid / 31 / 33 / 0-byte key / all-zero point; finish genuine, signed by X naming L, unknown name, naming the accessory, sealed under zero / wrong key, 0 and 15 byte payloads, tag flipped, L's captured finish replayed, L's signature over reordered or stale material, naming a stored entity that has no key / a 5-byte key, signed by L's own key but naming the case-swapped spelling / a prefix of its name, the accessory's own identifier and signature reflected, a start with the accessory's own ephemeral key followed by a finish that echoes the sealed part of the start response; unknown state; unknown method; reopen; L's start replayed by X; L's genuine finish split with Expect: 100-continue so that its handler overlaps with later events; L's genuine payload followed by bytes that do not form a TLV8 item; L's genuine finish with a complete failing pair-verify appended in the same TCP segment — L is verified all the same; a finish shorter than an authentication tag on L's own connection, after which a genuine finish without a new start is refused; a finish naming L, signed by X and carrying X's public key as an extra item; a finish that carries only an error item). From the further non-initial state 'X started and was refused once (unknown name)' every history of length 2 (thorough 3) over all symbols. Directly after an accepted start, also every damaged form of L's genuine finish: the signed payload cut to each of its 0…103-byte prefixes, six tails that do not form an item appended inside the sealed payload or after the request body, the body cut by 1, 2, 15, 16, 17 bytes — each must be answered with an error and leave the connection unverified. All against the real transport over TCP; each node is replayed on a fresh system; after every event the response is compared with the reference model (verified ⇔ genuine finish by L directly after an accepted start, computed by the independent controller), and at the end of every history each connection is probed destructively: an unverified one must answer plaintext, refuse protected reads and not serve ciphertext under its own exchange keys; a verified one must serve encrypted requests. The same alphabet (all 38 symbols) is also explored to depth 2 (thorough 3) from two non-initial states: L already verified on its connection, and L verified once and then removed by an administrator through /pairings (its genuine finish must then be refused). Plus interleavings of the real pair-verify / pair-setup handlers of two connections under a cooperative scheduler (scheduling points = every log statement of the library, every mutex Lock in hap and crypto, the arrival of each request; preemption bound 2 quick / 3 thorough; and once more with a scheduling point before every statement of hc's packages and one preemption): a genuine and a forged pair-verify naming the same controller, a pair-verify next to another connection's key exchange — exactly the genuine one ends verified. states = tree nodes, distinct_nontrivial = distinct (event → response class) pairs The adversary is paired with ANOTHER accessory whose store lies next to this one's; it presents a name that is a relative path to its entity file there (names are not paths: refused). L's genuine finish with a verify START of somebody on the path in the same segment: what the injector seals under the keys of its start is not served.",
		Run:   c03Run1,
		Replay: func(c *fw.Ctx, raw json.RawMessage) {
			var pc pschedCase
			if json.Unmarshal(raw, &pc) == nil && pc.Kind == "pairing-schedule" {
				pschedReplay(c, pc)
				return
			}
			var cas c03Case
			json.Unmarshal(raw, &cas)
			c03ExecFrom(c, cas.Prefix, cas.Hist)
		},
		Budget: func(t string) time.Duration {
			if t == "thorough" {
				return 25 * time.Minute
			}
			return 4 * time.Minute
		},
		Assumptions: []string{"a connection dropped without a response (handler panic) counts as 'not verified' here; the panic itself is judged by C13", "whether a start is accepted is observed, not predicted (the step policy after a rejected message is the accessory's choice); only the verified status is predicted by the model"},
	})
}
