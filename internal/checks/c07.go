package checks

import (
	"bytes"
	"encoding/json"
	"fmt"
	"io"
	"net"
	"time"

	hccrypto "github.com/brutella/hc/crypto"
	"github.com/brutella/hc/hap"

	"verif/internal/dlcheck"
	"verif/internal/fw"
	"verif/internal/refctl"
)

// C07 — reads on an encrypted connection deliver exactly the bytes sent.
//
// The environment seam is a scripted net.Conn: the ciphertext stream of a message sequence (sealed by the
// reference framing) is cut into segments; every underlying Read returns the next segment (or the part that
// fits), an injected timeout, or — when the script is exhausted — "would block" (surfaced as a timeout so the
// reading loop can end). Default environment: one segment per message. Deviations: split, coalesce, timeout.

type timeoutErr struct{}

func (timeoutErr) Error() string   { return "i/o timeout" }
func (timeoutErr) Timeout() bool   { return true }
func (timeoutErr) Temporary() bool { return true }

type c07Seg struct {
	data    []byte
	timeout bool
	before  func() // runs once when the delivery of this segment starts (something else happens in the world)
}

type scriptedConn struct {
	segs      []c07Seg
	pos, off  int
	delivered int
	asks      []int // ciphertext bytes delivered so far at each underlying Read
	blocked   int   // Reads issued with nothing left
	closed    bool
	remote    string // remote address as the accessory sees it ("" = 10.0.0.2:2)
}

func (s *scriptedConn) Read(b []byte) (int, error) {
	s.asks = append(s.asks, s.delivered)
	if s.closed {
		return 0, io.ErrClosedPipe
	}
	if s.pos >= len(s.segs) {
		s.blocked++
		return 0, timeoutErr{}
	}
	sg := &s.segs[s.pos]
	if sg.before != nil && s.off == 0 {
		f := sg.before
		sg.before = nil
		f()
	}
	if sg.timeout {
		s.pos++
		return 0, timeoutErr{}
	}
	n := copy(b, sg.data[s.off:])
	s.off += n
	s.delivered += n
	if s.off == len(sg.data) {
		s.pos++
		s.off = 0
	}
	return n, nil
}
func (s *scriptedConn) Write(b []byte) (int, error) { return len(b), nil }
func (s *scriptedConn) Close() error                { s.closed = true; return nil }
func (s *scriptedConn) LocalAddr() net.Addr         { return fakeAddr("10.0.0.1:1") }
func (s *scriptedConn) RemoteAddr() net.Addr {
	if s.remote != "" {
		return fakeAddr(s.remote)
	}
	return fakeAddr("10.0.0.2:2")
}
func (s *scriptedConn) SetDeadline(time.Time) error      { return nil }
func (s *scriptedConn) SetReadDeadline(time.Time) error  { return nil }
func (s *scriptedConn) SetWriteDeadline(time.Time) error { return nil }

type c07Case struct {
	Lens     []int `json:"lens"`                      // message lengths
	Cuts     []int `json:"cuts,omitempty"`            // extra segment boundaries (absolute ciphertext offsets)
	Coalesce []int `json:"coalesce,omitempty"`        // message indices i whose segment is merged with message i+1's
	Timeouts []int `json:"timeouts,omitempty"`        // segment indices before which a read timeout is injected
	Bufs     []int `json:"bufs"`                      // caller buffer sizes, cycled
	Writes   bool  `json:"writes,omitempty"`          // the application writes (a response / an event) on the connection after every caller Read
	TwoConns bool  `json:"two_connections,omitempty"` // the scenario of c07TwoConns (lens = {closes, buffer})
}

var c07Secret = [32]byte{9, 8, 7, 6, 5, 4, 3, 2, 1}

func c07Exec(c *fw.Ctx, cas c07Case) {
	c.Eval(1)
	_, c2a := refctl.SessionKeys(c07Secret[:])
	var ctr uint64
	var stream, plain []byte
	var frameEnd, plainAt []int
	bounds := map[int]bool{}
	coal := map[int]bool{}
	for _, i := range cas.Coalesce {
		coal[i] = true
	}
	for i, n := range cas.Lens {
		msg := pat(n, byte(13*i+1))
		base := len(stream)
		pl := len(plain)
		if n == 0 {
			// an explicit frame WITHOUT data (length 0, valid tag): well-formed, carries nothing, consumes a counter
			hdr := []byte{0, 0}
			stream = append(stream, hdr...)
			stream = append(stream, refctl.Seal(c2a, refctl.CounterNonce(ctr), nil, hdr)...)
			ctr++
			frameEnd = append(frameEnd, len(stream))
			plainAt = append(plainAt, pl)
		}
		stream = append(stream, refctl.Frames(c2a, &ctr, msg)...)
		plain = append(plain, msg...)
		for _, sp := range refctl.FrameSpans(n) {
			pl += sp[1] - sp[0] - 18
			frameEnd = append(frameEnd, base+sp[1])
			plainAt = append(plainAt, pl)
		}
		if !coal[i] {
			bounds[len(stream)] = true
		}
	}
	bounds[len(stream)] = true
	for _, x := range cas.Cuts {
		if x > 0 && x < len(stream) {
			bounds[x] = true
		}
	}
	tmo := map[int]bool{}
	for _, t := range cas.Timeouts {
		tmo[t] = true
	}
	sc := &scriptedConn{}
	start, idx := 0, 0
	for i := 1; i <= len(stream); i++ {
		if bounds[i] {
			if tmo[idx] {
				sc.segs = append(sc.segs, c07Seg{timeout: true})
			}
			sc.segs = append(sc.segs, c07Seg{data: stream[start:i]})
			start = i
			idx++
		}
	}
	server, err := hccrypto.NewSecureSessionFromSharedKey(c07Secret)
	if err != nil {
		c.Infra(err.Error())
		return
	}
	ctx := hap.NewContextForSecuredDevice(nil)
	conn := hap.NewConnection(sc, ctx)
	sess := ctx.GetSessionForConnection(sc)
	sess.SetCryptographer(server)

	dev := ""
	if len(cas.Cuts) > 0 {
		dev += fmt.Sprintf("split%d+", len(cas.Cuts))
	}
	if len(cas.Coalesce) > 0 {
		dev += "coalesce+"
	}
	if len(cas.Timeouts) > 0 {
		dev += "timeout+"
	}
	if cas.Writes {
		dev += "writes+"
	}
	if dev == "" {
		dev = "default"
	}
	avail := func(d int) int {
		a := 0
		for i, fe := range frameEnd {
			if fe <= d {
				a = plainAt[i]
			}
		}
		return a
	}
	var got []byte
	pi, timeouts, zeros := 0, 0, 0
	fail := func(sym, desc string) {
		c.Report(sym+"/"+dev, desc, cas)
	}
	for len(got) < len(plain) {
		bs := cas.Bufs[pi%len(cas.Bufs)]
		pi++
		buf := make([]byte, bs)
		nAsk := len(sc.asks)
		var n int
		var rerr error
		if p := guard(func() { n, rerr = conn.Read(buf) }); p != nil {
			fail("panic", fmt.Sprintf("Read panics: %v", p))
			return
		}
		if n < 0 || n > bs {
			fail("bad-count", fmt.Sprintf("Read returned n=%d for a %d-byte buffer", n, bs))
			return
		}
		got = append(got, buf[:n]...)
		before := len(got) - n
		if cas.Writes && (pi <= 6 || pi%97 == 0) {
			// an event notification or a response is written between two reads (possibly of the same frame): after each of
			// the first six reads, then after every 97th
			conn.Write(pat(40+pi%3*600, byte(pi)))
		}
		if !bytes.HasPrefix(plain, got) {
			fail("bytes-differ", fmt.Sprintf("after %d bytes the data returned differs from what was sent (lost, duplicated or reordered bytes)", before))
			return
		}
		// promptness: the implementation may ask the network for more only when every complete frame delivered so
		// far has been handed to the caller
		for _, d := range sc.asks[nAsk:] {
			if a := avail(d); a > before {
				fail("stall", fmt.Sprintf("asked the network for more while %d plaintext bytes of completely received frames were undelivered", a-before))
				return
			}
		}
		if rerr != nil {
			if ne, ok := rerr.(net.Error); ok && ne.Timeout() {
				timeouts++
				if sc.blocked > 0 {
					if len(got) < len(plain) {
						fail("lost", fmt.Sprintf("network idle and peer still connected, but only %d of %d plaintext bytes were delivered", len(got), len(plain)))
					}
					break
				}
				if timeouts > len(cas.Timeouts)+2 {
					fail("timeout-loop", "Read keeps returning timeouts although segments are available")
					return
				}
				continue
			}
			what := "error"
			if rerr == io.EOF {
				what = "eof"
			}
			fail(what, fmt.Sprintf("Read returned %v after %d of %d bytes while the peer is connected and sent well-formed frames", rerr, len(got), len(plain)))
			return
		}
		if n == 0 {
			zeros++
			if avail(sc.delivered) > len(got) || zeros > 100 {
				fail("zero-read", "Read returned (0, nil) while a complete frame is available")
				return
			}
		}
	}
	if sc.closed {
		fail("closed", "the connection was closed although the peer sent only well-formed frames")
		return
	}
	c.Class(fmt.Sprintf("%s/msgs=%d/reads=%d", dev, len(cas.Lens), len(sc.asks)))
}

// ---- session switch scenarios ------------------------------------------------------------------------
//
// The switch from plaintext to the encrypted session happens while net/http may have a read pending in the
// background. World steps, in their only possible order: S = the pair-verify handler installs the
// cryptographer, W = the plaintext response is written, D = the controller's first encrypted request arrives.
// A reader issues Read calls that start at any point relative to S/W/D; a blocked Read either stays blocked
// until D or is aborted with a timeout (net/http's abortPendingRead) at a later point, after which a new Read
// starts at any later point. All such placements are enumerated.

type c07SwitchCase struct {
	Reads [][2]int `json:"reads"` // per Read call: {start position, abort position or -1}; positions 0:<S 1:<W 2:<D 3:>D
	Len   int      `json:"len"`
	Buf   int      `json:"buf"`
	// Again: the connection is already encrypted (an earlier pair-verify, one request delivered under its keys) and
	// the steps are those of a SECOND pair-verify on the same connection: the new keys take over for what follows
	Again bool `json:"again,omitempty"`
}

var c07Secret0 = [32]byte{1, 1, 2, 3, 5, 8, 13, 21, 34, 55, 89, 144, 233}

type switchConn struct {
	queue   []byte
	onEmpty func() bool // runs world steps while the Read is blocked; false = abort with timeout
	wire    [][]byte
	closed  bool
}

func (s *switchConn) Read(b []byte) (int, error) {
	if s.closed {
		return 0, io.ErrClosedPipe
	}
	if len(s.queue) == 0 {
		if s.onEmpty == nil || !s.onEmpty() || len(s.queue) == 0 {
			return 0, timeoutErr{}
		}
	}
	n := copy(b, s.queue)
	s.queue = s.queue[n:]
	return n, nil
}
func (s *switchConn) Write(b []byte) (int, error) {
	s.wire = append(s.wire, append([]byte{}, b...))
	return len(b), nil
}
func (s *switchConn) Close() error                     { s.closed = true; return nil }
func (s *switchConn) LocalAddr() net.Addr              { return fakeAddr("10.0.0.1:1") }
func (s *switchConn) RemoteAddr() net.Addr             { return fakeAddr("10.0.0.2:2") }
func (s *switchConn) SetDeadline(time.Time) error      { return nil }
func (s *switchConn) SetReadDeadline(time.Time) error  { return nil }
func (s *switchConn) SetWriteDeadline(time.Time) error { return nil }

func c07SwitchExec(c *fw.Ctx, cas c07SwitchCase) {
	c.Eval(1)
	_, c2a := refctl.SessionKeys(c07Secret[:])
	var ctr uint64
	plain := pat(cas.Len, 77)
	cipher := refctl.Frames(c2a, &ctr, plain)
	response := []byte("HTTP/1.1 200 OK\r\nContent-Type: application/pairing+tlv8\r\nContent-Length: 3\r\n\r\n\x06\x01\x04")
	server, err := hccrypto.NewSecureSessionFromSharedKey(c07Secret)
	if err != nil {
		c.Infra(err.Error())
		return
	}
	sc := &switchConn{}
	ctx := hap.NewContextForSecuredDevice(nil)
	conn := hap.NewConnection(sc, ctx)
	sess := ctx.GetSessionForConnection(sc)
	label := fmt.Sprint(cas.Reads)
	if cas.Again {
		label = "again:" + label
	}
	fail := func(sym, desc string) { c.Report("switch/"+sym+"/reads="+label, desc, cas) }
	var a2c0 []byte
	if cas.Again {
		// first session: installed, and one request of 30 bytes delivered under its keys
		first, err := hccrypto.NewSecureSessionFromSharedKey(c07Secret0)
		if err != nil {
			c.Infra(err.Error())
			return
		}
		var c2a0 []byte
		a2c0, c2a0 = refctl.SessionKeys(c07Secret0[:])
		sess.SetCryptographer(first)
		var ctr0 uint64
		p0 := pat(30, 5)
		sc.queue = append(sc.queue, refctl.Frames(c2a0, &ctr0, p0)...)
		var got0 []byte
		for i := 0; len(got0) < len(p0) && i < 100; i++ {
			buf := make([]byte, cas.Buf)
			n, rerr := conn.Read(buf)
			got0 = append(got0, buf[:n]...)
			if rerr != nil {
				fail("first-session-read-error", fmt.Sprintf("Read under the first session returned %v", rerr))
				return
			}
		}
		if !bytes.Equal(got0, p0) {
			fail("first-session-differs", "the request under the first session was not delivered as its plaintext")
			return
		}
	}
	pos := 0
	advance := func(to int) {
		for pos < to {
			switch pos {
			case 0:
				sess.SetCryptographer(server)
			case 1:
				conn.Write(response)
			case 2:
				sc.queue = append(sc.queue, cipher...)
			}
			pos++
		}
	}
	var got []byte
	doRead := func(start, abort int) bool {
		if start > pos {
			advance(start)
		}
		sc.onEmpty = func() bool {
			if abort >= 0 {
				advance(abort)
				return false
			}
			advance(3)
			return true
		}
		buf := make([]byte, cas.Buf)
		var n int
		var rerr error
		if p := guard(func() { n, rerr = conn.Read(buf) }); p != nil {
			fail("panic", fmt.Sprintf("Read panics: %v", p))
			return false
		}
		got = append(got, buf[:n]...)
		if rerr != nil {
			if ne, ok := rerr.(net.Error); ok && ne.Timeout() && abort >= 0 {
				return true
			}
			fail("read-error", fmt.Sprintf("Read returned %v", rerr))
			return false
		}
		return true
	}
	for _, r := range cas.Reads {
		if !doRead(r[0], r[1]) {
			return
		}
	}
	for i := 0; len(got) < len(plain) && i < 3*len(plain)+10; i++ {
		if !doRead(3, -1) {
			return
		}
	}
	advance(3)
	switch {
	case cas.Again && func() bool { // the response of the second pair-verify travels under the keys of the first session
		var ctr uint64
		pts, err := refctl.OpenFrames(a2c0, &ctr, bytes.Join(sc.wire, nil))
		return err != nil || !bytes.Equal(bytes.Join(pts, nil), response)
	}():
		fail("response-not-under-first-session", "the response of the second pair-verify did not reach the wire sealed under the keys of the running session")
	case !cas.Again && (len(sc.wire) != 1 || !bytes.Equal(sc.wire[0], response)):
		fail("response-not-plaintext", "the pair-verify response did not reach the wire as the plaintext bytes written (the session switched before the response was written)")
	case !bytes.Equal(got, plain):
		what := "differs"
		if len(got) > 0 && bytes.HasPrefix(cipher, got[:1]) && !bytes.HasPrefix(plain, got[:1]) {
			what = "ciphertext-handed-out-as-plaintext"
		}
		fail("request-"+what, fmt.Sprintf("the first encrypted request was not delivered as its plaintext (%d of %d bytes match)", commonPrefix(got, plain), len(plain)))
	default:
		c.Class("switch/reads=" + label)
	}
}

func commonPrefix(a, b []byte) int {
	n := 0
	for n < len(a) && n < len(b) && a[n] == b[n] {
		n++
	}
	return n
}

// c07TwoConns: connections come and go (one is closed twice, as a transport that stops does), then two connections of
// one accessory, each with its own session, receive their own streams and are read alternately with small buffers:
// each delivers exactly what ITS peer sent.
func c07TwoConns(c *fw.Ctx) {
	laters := []int{0, 20}
	if c.Thorough() {
		laters = []int{0, 20, 300, 70000}
	}
	for _, later := range laters {
		for _, closes := range []int{0, 1, 2, 3} {
			for _, buf := range []int{1, 7, 4096} {
				c.Eval(1)
				cas := c07Case{Lens: []int{closes, buf, later}, Bufs: []int{buf}, TwoConns: true}
				ctx := hap.NewContextForSecuredDevice(nil)
				// earlier connections of the same accessory
				for i := 0; i < 2; i++ {
					old := hap.NewConnection(&scriptedConn{remote: fmt.Sprintf("10.0.0.7:%d", 4000+i)}, ctx)
					old.Read(make([]byte, 8))
					for k := 0; k < closes; k++ {
						old.Close()
					}
				}
				type side struct {
					conn  *hap.Connection
					plain []byte
					got   []byte
				}
				var sides []*side
				for i := 0; i < 2; i++ {
					var secret [32]byte
					copy(secret[:], pat(32, byte(90+i)))
					_, c2a := refctl.SessionKeys(secret[:])
					var ctr uint64
					var stream, plain []byte
					for j, n := range []int{40, 1025, 3} {
						msg := pat(n, byte(50*i+j))
						plain = append(plain, msg...)
						stream = append(stream, refctl.Frames(c2a, &ctr, msg)...)
					}
					var segs []c07Seg
					for off := 0; off < len(stream); off += 300 {
						end := off + 300
						if end > len(stream) {
							end = len(stream)
						}
						segs = append(segs, c07Seg{data: stream[off:end]})
					}
					sc := &scriptedConn{segs: segs, remote: fmt.Sprintf("10.0.0.8:%d", 5000+i)}
					conn := hap.NewConnection(sc, ctx)
					cs, err := hccrypto.NewSecureSessionFromSharedKey(secret)
					if err != nil {
						c.Infra(err.Error())
						return
					}
					ctx.GetSessionForConnection(sc).SetCryptographer(cs)
					sides = append(sides, &side{conn: conn, plain: plain})
				}
				failed := false
				for round := 0; round < 5000 && !failed; round++ {
					progress := false
					if round == 3 {
						// while both are in the middle of their streams `later` more connections come and go (each accepted, read
						// once, closed): a long-lived connection is not what pays for them
						for i := 0; i < later; i++ {
							lc := hap.NewConnection(&scriptedConn{remote: fmt.Sprintf("10.0.%d.9:%d", 1+i/60000, 1000+i%60000)}, ctx)
							lc.Read(make([]byte, 8))
							lc.Close()
						}
					}
					for i, sd := range sides {
						if len(sd.got) >= len(sd.plain) {
							continue
						}
						b := make([]byte, buf)
						var n int
						var err error
						if p := guard(func() { n, err = sd.conn.Read(b) }); p != nil {
							c.Report("two-connections/panic", fmt.Sprintf("Read panics: %v", p), cas)
							failed = true
							break
						}
						sd.got = append(sd.got, b[:n]...)
						if n > 0 {
							progress = true
						}
						if err != nil {
							if ne, ok := err.(net.Error); ok && ne.Timeout() {
								continue
							}
							c.Report(fmt.Sprintf("two-connections/error/closes=%d", closes), fmt.Sprintf("connection %d of two that are read alternately (after %d earlier connections were closed %d times each): Read returned %v after %d of %d bytes", i, 2, closes, err, len(sd.got), len(sd.plain)), cas)
							failed = true
							break
						}
					}
					if !progress {
						break
					}
				}
				if failed {
					continue
				}
				for i, sd := range sides {
					if !bytes.Equal(sd.got, sd.plain) {
						c.Report(fmt.Sprintf("two-connections/differs/closes=%d", closes), fmt.Sprintf("connection %d of two that are read alternately delivered %d bytes, %d of them as sent (its peer sent %d)", i, len(sd.got), commonPrefix(sd.got, sd.plain), len(sd.plain)), cas)
						break
					}
				}
				c.Class(fmt.Sprintf("two-connections/closes=%d/later=%d", closes, later))
			}
		}
	}
}

func c07SwitchCases() []c07SwitchCase {
	var out []c07SwitchCase
	for _, ln := range []int{60, 1500} {
		for _, buf := range []int{1, 4096} {
			for p := 0; p <= 3; p++ {
				out = append(out, c07SwitchCase{Reads: [][2]int{{p, -1}}, Len: ln, Buf: buf})
				for a := p; a <= 2; a++ { // aborted at a (before D), next read starts at r ≥ a
					for r := a; r <= 3; r++ {
						out = append(out, c07SwitchCase{Reads: [][2]int{{p, a}, {r, -1}}, Len: ln, Buf: buf})
						for a2 := r; a2 <= 2; a2++ { // a second abort
							for r2 := a2; r2 <= 3; r2++ {
								out = append(out, c07SwitchCase{Reads: [][2]int{{p, a}, {r, a2}, {r2, -1}}, Len: ln, Buf: buf})
							}
						}
					}
				}
			}
		}
	}
	n := len(out)
	for i := 0; i < n; i++ {
		x := out[i]
		if len(x.Reads) <= 2 {
			x.Again = true
			out = append(out, x)
		}
	}
	return out
}

var c07Lens = []int{1, 2, 17, 1023, 1024, 1025, 2048, 4095, 4096, 4097}
var c07Policies = [][]int{{1}, {7}, {1024}, {4096}, {8192}, {1, 4096}}

func ctLen(n int) int { return n + ((n+1023)/1024)*18 }

func c07Run(c *fw.Ctx) {
	{
		interfRun(c, "C07") // statement-level interleavings of handlers / connection users (subprocess)
	}
	idx := 0
	do := func(cas c07Case) {
		idx++
		if !c.Mine(idx) || c.Expired() {
			return
		}
		if idx%40000 == 11 {
			c.Sample(cas)
		}
		c07Exec(c, cas)
	}
	th := c.Thorough()
	if c.Shard == 0 {
		c07TwoConns(c)
	}
	// the opposite corner of the deviation space: EVERY segment boundary deviates — a message stream cut into equal
	// pieces that do not line up with frames, an idle period (read timeout) before every single piece
	if c.Shard == 2%c.NShards {
		for _, lens := range [][]int{{3000}, {1500, 700}, {1024, 1024, 5}} {
			total := 0
			for _, n := range lens {
				total += n + 18*((n+1023)/1024)
			}
			for _, piece := range []int{100, 333, 1000} {
				var cuts, tmos []int
				for x := piece; x < total; x += piece {
					cuts = append(cuts, x)
				}
				for i := 0; i <= len(cuts)+len(lens); i++ {
					tmos = append(tmos, i)
				}
				for _, bufs := range [][]int{{4096}, {1, 4096}, {1024}} {
					c07Exec(c, c07Case{Lens: lens, Cuts: cuts, Timeouts: tmos, Bufs: bufs})
				}
			}
		}
	}
	if c.Shard == 3%c.NShards {
		// a long-lived connection: 300 one-frame messages and then boundary lengths (frame counters 0…303), read with
		// net/http's buffer policy; every frame in a segment of its own, and all coalesced
		long := make([]int, 300)
		for i := range long {
			long[i] = 1 + i%3
		}
		long = append(long, 1024, 1025)
		c07Exec(c, c07Case{Lens: long, Bufs: []int{1, 4096}})
		var all []int
		for i := 0; i < len(long)-1; i++ {
			all = append(all, i)
		}
		c07Exec(c, c07Case{Lens: long, Coalesce: all, Bufs: []int{4096}})
	}
	if c.Shard == 1%c.NShards {
		// idle periods are read deadlines set by the connection's user (net/http sets and clears them around every
		// request): whatever sequence of deadline calls it makes, the socket ends up with the deadlines it asked for —
		// a read deadline that stays in force makes later reads fail although well-formed frames arrive
		depth := 3
		if th {
			depth = 4
		}
		n := dlcheck.Explore(depth, func(sig, desc string, cas dlcheck.Case) { c.Report(sig, desc, cas) })
		c.Eval(n)
		c.State(n)
		c.Extra("deadline_call_sequences", int64(n))
	}
	for i, sw := range c07SwitchCases() {
		if c.Mine(i) {
			if i == 5 {
				c.Sample(sw)
			}
			c07SwitchExec(c, sw)
		}
	}
	// deviation bound 0: every sequence of 1..2 (thorough: 1..3) messages, default segmentation
	var seqs [][]int
	for _, a := range c07Lens {
		seqs = append(seqs, []int{a})
		for _, b := range c07Lens {
			seqs = append(seqs, []int{a, b})
			if th {
				for _, d := range c07Lens {
					seqs = append(seqs, []int{a, b, d})
				}
			}
		}
	}
	for _, s := range seqs {
		for _, p := range c07Policies {
			do(c07Case{Lens: s, Bufs: p})
			do(c07Case{Lens: s, Bufs: p, Writes: true})
		}
	}
	// frames without data between and around messages (an independent peer may send them)
	for _, a := range []int{1, 1024, 1025} {
		for _, b := range []int{1, 1024} {
			for _, sq := range [][]int{{a, 0, b}, {0, a}, {a, 0}, {a, 0, 0, b}} {
				total := 0
				for _, n := range sq {
					total += ctLen(n)
					if n == 0 {
						total += 18
					}
				}
				for _, p := range c07Policies {
					do(c07Case{Lens: sq, Bufs: p})
					do(c07Case{Lens: sq, Bufs: p, Coalesce: []int{0, 1, 2}})
				}
				for x := 1; x < total; x++ {
					do(c07Case{Lens: sq, Cuts: []int{x}, Bufs: []int{4096}})
				}
			}
		}
	}
	// deviation bound 1
	for _, s := range seqs {
		if len(s) > 2 {
			continue
		}
		total := 0
		for _, n := range s {
			total += ctLen(n)
		}
		for _, p := range c07Policies {
			if len(s) == 1 || th || (s[0] <= 1025 && s[1] <= 1025) {
				for x := 1; x < total; x++ { // split at every byte offset
					do(c07Case{Lens: s, Cuts: []int{x}, Bufs: p})
					if len(s) == 1 && (p[0] < 1024 && s[0] <= 2048 || th) {
						do(c07Case{Lens: s, Cuts: []int{x}, Bufs: p, Writes: true})
					}
				}
			}
			nseg := len(s)
			for t := 0; t < nseg; t++ { // timeout before segment t
				do(c07Case{Lens: s, Timeouts: []int{t}, Bufs: p})
			}
			if len(s) == 2 {
				do(c07Case{Lens: s, Coalesce: []int{0}, Bufs: p})
			}
		}
	}
	if th {
		for _, s := range seqs {
			if len(s) != 3 {
				continue
			}
			for _, p := range c07Policies {
				do(c07Case{Lens: s, Coalesce: []int{0}, Bufs: p})
				do(c07Case{Lens: s, Coalesce: []int{1}, Bufs: p})
				do(c07Case{Lens: s, Coalesce: []int{0, 1}, Bufs: p}) // two deviations
			}
		}
	}
	// deviation bound 2: split + timeout in the middle (single messages; the timeout lands between the two parts),
	// coalesce + split (two messages), and — thorough — every pair of splits for messages up to 1025 bytes
	for _, n := range c07Lens {
		for _, p := range c07Policies {
			for x := 1; x < ctLen(n); x++ {
				do(c07Case{Lens: []int{n}, Cuts: []int{x}, Timeouts: []int{1}, Bufs: p})
			}
		}
	}
	for _, a := range c07Lens {
		for _, b := range c07Lens {
			if !th && (a > 1025 || b > 1025) {
				continue
			}
			for _, p := range c07Policies {
				for x := 1; x < ctLen(a)+ctLen(b); x++ {
					do(c07Case{Lens: []int{a, b}, Coalesce: []int{0}, Cuts: []int{x}, Bufs: p})
				}
			}
		}
	}
	if th {
		for _, n := range []int{1, 17, 1023, 1024, 1025} {
			for _, p := range c07Policies {
				for x := 1; x < ctLen(n); x++ {
					for y := x + 1; y < ctLen(n); y++ {
						do(c07Case{Lens: []int{n}, Cuts: []int{x, y}, Bufs: p})
					}
				}
			}
		}
	}
	if c.Expired() {
		c.NotExhaustive("deadline reached; cases are enumerated in a fixed order, the completed part is a prefix")
	}
}

func init() {
	fw.Register(&fw.Check{
		ID:    "C07",
		Level: "model_checking",
		Rule:  "deviation-bounded exhaustive exploration of network behaviours for a real hap.Connection over a scripted net.Conn: message sequences of length 1–2 (thorough 1–3) over lengths {1,2,17,1023,1024,1025,2048,4095,4096,4097} × 6 caller-buffer policies (1, 7, 1024, 4096, 8192, net/http's 1-then-4096); 0 deviations = one segment per message; deviations = split at every byte offset, coalesce adjacent segments, read timeout before a segment, the application writing on the connection between caller reads; bound 1 completely, bound 2 for split+timeout, coalesce+split (thorough: all length pairs; every pair of splits for messages ≤1025). Plus the session-switch scenarios: every placement of 1–3 Read calls (blocked until data or aborted by a timeout) relative to the world steps install-cryptographer / write-response / first-ciphertext-arrives: the response must reach the wire in plaintext and the request must be delivered as its plaintext. Oracle per execution: exact byte equality, no EOF/error/close while the peer sends well-formed frames, and the promptness invariant (the network is asked for more only when every completely received frame has been handed to the caller). states = executions, distinct_nontrivial = distinct (deviation kind, message count, number of underlying reads) classes Frames WITHOUT data (length 0, valid tag) between and around messages, at every split offset. Two connections of one accessory read alternately after earlier connections were closed 0–3 times each: each delivers exactly what its peer sent. Session-switch scenarios are repeated for a SECOND pair-verify on a connection that is already encrypted (one request delivered under the first keys; the second exchange's response leaves under the first keys, what follows is read under the new ones). Plus, in a subprocess built with a scheduling point before EVERY statement of hc's packages (textual insertion through go build -overlay): every interleaving with at most 1 (thorough 2) preemptions of pairs of handlers / users of connections on one accessory (a verified and a newly accepted unverified connection; two writers, a writer and the reader of one encrypted connection, writers on two connections) — each side must observe exactly what it observes when the two run one after the other. Plus a long-lived connection (302 messages, frame counters up to 303). Plus the opposite corner: streams of 1–3 messages cut into equal pieces of 100, 333, 1000 bytes that do not line up with frames, with a read timeout before EVERY piece (up to 31 timeouts in one stream), for three buffer policies. Plus every sequence of ≤3 (thorough ≤4) SetDeadline / SetReadDeadline / SetWriteDeadline calls over the values {none, net/http's long-ago, two future instants} on the hap.Connection: after every call the read and write deadlines in force on the underlying socket are those a direct caller would have left (net/http sets and clears read deadlines around every request; one that stays in force makes later reads fail while frames arrive); the alphabet of these sequences also holds the three kinds of write (a response piece, a notification on an idle connection, a notification kept during a response and flushed at its end): none of them changes the read deadline. The two alternately read connections also survive 20 (thorough 300, 70000) further connections that come and go while both are in mid-stream.",
		Run:   c07Run,
		Replay: func(c *fw.Ctx, raw json.RawMessage) {
			var dc dlcheck.Case
			if json.Unmarshal(raw, &dc) == nil && dc.Kind == "deadline-sequence" {
				c.Eval(1)
				if d := dlcheck.Run(dc.Ops); d != "" {
					c.Report("deadline-not-forwarded/replayed", d, dc)
				}
				return
			}
			var sw c07SwitchCase
			if json.Unmarshal(raw, &sw) == nil && len(sw.Reads) > 0 {
				c07SwitchExec(c, sw)
				return
			}
			var cas c07Case
			json.Unmarshal(raw, &cas)
			if cas.TwoConns {
				c07TwoConns(c)
				return
			}
			c07Exec(c, cas)
		},
		Budget: func(t string) time.Duration {
			if t == "thorough" {
				return 25 * time.Minute
			}
			return 3 * time.Minute
		},
		PostMerge: func(r *fw.Result) {
			r.States, r.Traces = r.Evaluations, r.Evaluations
			r.Transitions = r.Evaluations
		},
		Assumptions: []string{"a Read on an exhausted script models blocking; it is surfaced as a timeout error so the reading loop can stop", "sender = reference framing (refctl); zero-length messages produce no frame and are not part of the alphabet"},
	})
}
