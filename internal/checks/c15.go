package checks

import (
	"encoding/base64"
	"encoding/json"
	"fmt"
	"math"
	"os"
	"path/filepath"
	"reflect"
	"regexp"
	"sort"
	"strings"
	"time"

	"github.com/brutella/hc/accessory"
	"github.com/brutella/hc/characteristic"
	"github.com/brutella/hc/service"

	"verif/internal/catalog"
	"verif/internal/fw"
)

// C15 — the characteristic and service catalog matches the HomeKit metadata.

func repoDir() string {
	if r := os.Getenv("VERIF_REPO"); r != "" {
		return r
	}
	return "/repo"
}

type mdChar struct {
	UUID        string
	Name        string
	Format      string
	Unit        string
	Properties  []string
	Constraints map[string]interface{}
}
type mdSvc struct {
	UUID                    string
	Name                    string
	RequiredCharacteristics []string
	OptionalCharacteristics []string
}
type metadata struct {
	Characteristics []mdChar
	Services        []mdSvc
}

var uuidHead = regexp.MustCompile(`^([0-9a-fA-F]*)`)

func minify(u string) string {
	if s := uuidHead.FindString(u); len(s) > 0 {
		return strings.TrimLeft(s, "0")
	}
	return u
}

func camel(s string) string {
	s = strings.NewReplacer(".", "_", ",", "", "-", "", "(", "", ")", "").Replace(strings.TrimSpace(s))
	return strings.Replace(strings.Title(s), " ", "", -1)
}

func loadMetadata() (*metadata, error) {
	b, err := os.ReadFile(filepath.Join(repoDir(), "gen", "metadata.json"))
	if err != nil {
		return nil, err
	}
	var m metadata
	return &m, json.Unmarshal(b, &m)
}

func num(v interface{}) (float64, bool) {
	switch x := v.(type) {
	case int:
		return float64(x), true
	case int64:
		return float64(x), true
	case uint64:
		return float64(x), true
	case float64:
		return x, true
	case float32:
		return float64(x), true
	}
	return 0, false
}

func constraintCI(c map[string]interface{}, key string) (interface{}, bool) {
	for k, v := range c {
		if strings.EqualFold(k, key) {
			return v, true
		}
	}
	return nil, false
}

// goTypeOK says whether v is the Go representation hc uses for a format.
func goTypeOK(format string, v interface{}) bool {
	switch format {
	case characteristic.FormatBool:
		_, ok := v.(bool)
		return ok
	case characteristic.FormatFloat:
		f, ok := v.(float64)
		return ok && !math.IsNaN(f) && !math.IsInf(f, 0)
	case characteristic.FormatUInt8, characteristic.FormatUInt16, characteristic.FormatUInt32, characteristic.FormatUInt64, characteristic.FormatInt32:
		_, ok := v.(int)
		return ok
	case characteristic.FormatString, characteristic.FormatTLV8, characteristic.FormatData:
		_, ok := v.(string)
		return ok
	}
	return false
}

func inBounds(ch *characteristic.Characteristic, v interface{}) bool {
	if iv, ok := v.(int); ok { // exact for integers (float64 cannot tell 2^53+3 from 2^53+4)
		if mn, ok := ch.MinValue.(int); ok && iv < mn {
			return false
		}
		if mx, ok := ch.MaxValue.(int); ok && iv > mx {
			return false
		}
	}
	f, ok := num(v)
	if !ok {
		return true
	}
	if mn, ok := num(ch.MinValue); ok && f < mn {
		return false
	}
	if mx, ok := num(ch.MaxValue); ok && f > mx {
		return false
	}
	return true
}

type c15Case struct {
	What string `json:"what"`
	Name string `json:"name"`
}

// c15InHandler: constructors are called from inside a change handler of another characteristic.
var c15InHandler, c15Toggle bool
var c15Trigger = characteristic.NewBool("F0000099-0000-1000-8000-0123456789AB")

var c15Job func()

func init() {
	c15Trigger.OnValueUpdate(func(*characteristic.Characteristic, interface{}, interface{}) {
		if c15Job != nil {
			c15Job()
		}
	})
}

func c15Build(ct catalog.Ctor) (v interface{}, err error) {
	if !c15InHandler {
		return ct.Build()
	}
	inside := ""
	c15Job = func() {
		v, err = ct.Build()
		if err == nil {
			inside = c15ValuesOf(v) // what the caller sees when the constructor returns
		}
	}
	c15Toggle = !c15Toggle
	c15Trigger.SetValue(c15Toggle)
	c15Job = nil
	if err == nil {
		if ref, rerr := ct.Build(); rerr == nil {
			if want := c15ValuesOf(ref); inside != want {
				c15Incomplete = append(c15Incomplete, fmt.Sprintf("%s: built inside a change handler it holds %s when the constructor returns; built outside %s", ct.Name, trunc([]byte(inside), 150), trunc([]byte(want), 150)))
			}
		}
	}
	return
}

var c15Incomplete []string

// c15ValuesOf lists type=value of every characteristic of a characteristic / service / accessory object.
func c15ValuesOf(v interface{}) string {
	var chs []*characteristic.Characteristic
	switch {
	case catalog.Char(v) != nil:
		chs = append(chs, catalog.Char(v))
	case catalog.Svc(v) != nil:
		chs = append(chs, catalog.Svc(v).Characteristics...)
	case catalog.Acc(v) != nil:
		for _, sv := range catalog.Acc(v).Services {
			chs = append(chs, sv.Characteristics...)
		}
	}
	var out []string
	for _, ch := range chs {
		if ch == nil {
			out = append(out, "<nil>")
			continue
		}
		out = append(out, fmt.Sprintf("%s=%v", ch.Type, ch.Value))
	}
	return strings.Join(out, " ")
}

// c15VendorPrelude creates what a vendor's own code creates before it touches the catalog.
func c15VendorPrelude(md *metadata) {
	n := 0
	for _, m := range md.Characteristics {
		// a vendor type id whose first group is the catalog type's, on another base UUID
		short := minify(m.UUID)
		vendor := fmt.Sprintf("%08s-0000-1000-8000-0123456789AB", short)
		vendor = strings.ReplaceAll(vendor, " ", "0")
		b := characteristic.NewBool(vendor)
		b.SetValue(true)
		for _, key := range []string{"MinimumValue", "MaximumValue", "StepValue"} {
			if x, ok := constraintCI(m.Constraints, key); ok {
				if f, ok := num(x); ok {
					n++
					fl := characteristic.NewFloat(fmt.Sprintf("F%07d-0000-1000-8000-0123456789AB", n))
					r := float64(float32(f)) // a bound that went through a float32 (a sensor library, a config file)
					fl.SetMinValue(r)
					fl.SetMaxValue(r + 1)
					fl.SetStepValue(r)
					fl.SetValue(r)
				}
			}
		}
	}
}

func c15Run(c *fw.Ctx) {
	md, err := loadMetadata()
	if err != nil {
		c.Infra("metadata: " + err.Error())
		return
	}
	rep := func(sig, desc string) { c.Report(sig, desc, c15Case{What: sig, Name: desc}) }
	order := "catalog-first"
	if c.Shard == 1 {
		// The second worker process models a program in which application code ran BEFORE the catalog was used: vendor
		// characteristics configured from float32 values next to every catalog bound, vendor type ids that share their
		// first group with a catalog type, and every constructor called from inside a change handler.
		order = "application-code-first"
		c15VendorPrelude(md)
		c15InHandler = true
		defer func() { c15InHandler = false }()
		orig := rep
		rep = func(sig, desc string) {
			orig(sig+"/after-application-code", desc+" (application code ran first: vendor characteristics, constructors called from a change handler)")
		}
	}
	c.Class("order:" + order)

	// 1. every constructor returns a usable object; Type constants agree
	charByType := map[string][]string{}
	chars := map[string]*characteristic.Characteristic{}
	objs := map[string]interface{}{}
	for _, ct := range catalog.CharacteristicCtors {
		c.Eval(1)
		v, err := c15Build(ct)
		if err != nil {
			rep("ctor-panic/characteristic."+ct.Name, ct.Name+": "+err.Error())
			continue
		}
		ch := catalog.Char(v)
		if ch == nil {
			rep("ctor-unusable/characteristic."+ct.Name, ct.Name+" does not yield a characteristic")
			continue
		}
		c.Class("characteristic." + ct.Name)
		chars[ct.Name] = ch
		objs[ct.Name] = v
		charByType[ch.Type] = append(charByType[ch.Type], ct.Name)
		cn := "Type" + strings.TrimPrefix(ct.Name, "New")
		if want, ok := catalog.CharacteristicTypeConsts[cn]; ok {
			c.Eval(1)
			if want != ch.Type {
				rep("type-const/characteristic."+ct.Name, fmt.Sprintf("%s builds type %q but %s = %q", ct.Name, ch.Type, cn, want))
			}
		}
		if ch.Format == "" {
			rep("no-format/characteristic."+ct.Name, ct.Name+" has no format")
		}
	}
	// 2. metadata characteristics
	for _, m := range md.Characteristics {
		c.Eval(1)
		t := minify(m.UUID)
		names := charByType[t]
		if len(names) == 0 {
			rep("metadata-char-missing/"+t, fmt.Sprintf("metadata characteristic %q (type %s) has no constructor yielding that type id", m.Name, t))
			continue
		}
		sort.Strings(names)
		id := names[0]
		for _, n := range names { // prefer the constructor generated from this metadata entry's name
			if n == "New"+camel(m.Name) {
				id = n
			}
		}
		ch := chars[id]
		if ch.Format != m.Format {
			rep("metadata-format/"+id, fmt.Sprintf("%s format %q, metadata %q", id, ch.Format, m.Format))
		}
		var want []string
		for _, p := range m.Properties {
			switch p {
			case "read":
				want = append(want, characteristic.PermRead)
			case "write":
				want = append(want, characteristic.PermWrite)
			case "cnotify":
				want = append(want, characteristic.PermEvents)
			}
		}
		got := append([]string{}, ch.Perms...)
		sort.Strings(got)
		sort.Strings(want)
		if strings.Join(got, ",") != strings.Join(want, ",") {
			rep("metadata-perms/"+id, fmt.Sprintf("%s perms %v, metadata %v", id, got, want))
		}
		readable := false
		for _, p := range m.Properties {
			readable = readable || p == "read"
		}
		if readable {
			c.Eval(1)
			if ch.Value == nil {
				rep("default-missing/"+id, id+" is readable but has no default value")
			} else if !goTypeOK(ch.Format, ch.Value) {
				rep("default-type/"+id, fmt.Sprintf("%s default %T(%v) is not of format %s", id, ch.Value, ch.Value, ch.Format))
			} else if !inBounds(ch, ch.Value) {
				rep("default-range/"+id, fmt.Sprintf("%s default %v outside [%v,%v]", id, ch.Value, ch.MinValue, ch.MaxValue))
			}
			if _, err := catalog.TypedGet(objs[id]); err != nil {
				rep("getter/"+id, id+": "+err.Error())
			}
		}
		if ch.Unit != m.Unit {
			rep("metadata-unit/"+id, fmt.Sprintf("%s unit %q, metadata %q", id, ch.Unit, m.Unit))
		}
		for _, kv := range []struct {
			key string
			got interface{}
		}{{"MinimumValue", ch.MinValue}, {"MaximumValue", ch.MaxValue}, {"StepValue", ch.StepValue}} {
			c.Eval(1)
			w, has := constraintCI(m.Constraints, kv.key)
			wf, wok := num(w)
			gf, gok := num(kv.got)
			switch {
			case has && wok && !gok:
				rep("metadata-"+strings.ToLower(kv.key)+"-missing/"+id, fmt.Sprintf("%s lacks %s (metadata %v)", id, kv.key, w))
			case has && wok && gf != wf:
				rep("metadata-"+strings.ToLower(kv.key)+"/"+id, fmt.Sprintf("%s %s = %v, metadata %v", id, kv.key, kv.got, w))
			case !has && gok:
				rep("metadata-"+strings.ToLower(kv.key)+"-extra/"+id, fmt.Sprintf("%s declares %s = %v, metadata has none", id, kv.key, kv.got))
			}
		}
	}
	// 3. services
	svcByType := map[string][]string{}
	svcChars := map[string][]string{}
	for _, ct := range catalog.ServiceCtors {
		c.Eval(1)
		v, err := c15Build(ct)
		if err != nil {
			rep("ctor-panic/service."+ct.Name, ct.Name+": "+err.Error())
			continue
		}
		s := catalog.Svc(v)
		if s == nil {
			rep("ctor-unusable/service."+ct.Name, ct.Name+" does not yield a service")
			continue
		}
		c.Class("service." + ct.Name)
		svcByType[s.Type] = append(svcByType[s.Type], ct.Name)
		cn := "Type" + strings.TrimPrefix(ct.Name, "New")
		if want, ok := catalog.ServiceTypeConsts[cn]; ok {
			if want != s.Type {
				rep("type-const/service."+ct.Name, fmt.Sprintf("%s builds type %q but %s = %q", ct.Name, s.Type, cn, want))
			}
		}
		seen := map[string]bool{}
		for _, ch := range s.Characteristics {
			if ch == nil {
				rep("nil-characteristic/service."+ct.Name, ct.Name+" holds a nil characteristic")
				continue
			}
			if seen[ch.Type] {
				rep("duplicate-characteristic/service."+ct.Name, fmt.Sprintf("%s holds two characteristics of type %s", ct.Name, ch.Type))
			}
			seen[ch.Type] = true
			svcChars[ct.Name] = append(svcChars[ct.Name], ch.Type)
		}
	}
	for _, m := range md.Services {
		c.Eval(1)
		t := minify(m.UUID)
		names := svcByType[t]
		if len(names) == 0 {
			rep("metadata-service-missing/"+t, fmt.Sprintf("metadata service %q (type %s) has no constructor", m.Name, t))
			continue
		}
		sort.Strings(names)
		have := map[string]bool{}
		for _, ct := range svcChars[names[0]] {
			have[ct] = true
		}
		for _, r := range m.RequiredCharacteristics {
			if !have[minify(r)] {
				rep("metadata-required/"+names[0]+"/"+minify(r), fmt.Sprintf("%s lacks required characteristic type %s", names[0], minify(r)))
			}
		}
	}
	for _, d := range c15Incomplete {
		rep("built-in-handler-incomplete/"+strings.SplitN(d, ":", 2)[0], d)
	}
	c15Incomplete = nil
	// 3b. interference between constructions: all services (and accessories) are built again, kept alive together,
	// and each is inspected only after all the others exist
	type kept struct {
		name  string
		svc   interface{}
		types []string
	}
	var all []kept
	for round := 0; round < 2; round++ {
		for _, ct := range catalog.ServiceCtors {
			v, err := c15Build(ct)
			if err != nil || catalog.Svc(v) == nil {
				continue
			}
			all = append(all, kept{name: ct.Name, svc: v})
		}
		for _, ct := range catalog.AccessoryCtors {
			if v, err := c15Build(ct); err == nil && catalog.Acc(v) != nil {
				for i, sv := range catalog.Acc(v).Services {
					all = append(all, kept{name: fmt.Sprintf("%s.Services[%d]", ct.Name, i), svc: sv})
				}
			}
		}
	}
	solo := map[string]string{}
	for _, ct := range catalog.ServiceCtors {
		if v, err := c15Build(ct); err == nil && catalog.Svc(v) != nil {
			var ts []string
			for _, ch := range catalog.Svc(v).Characteristics {
				ts = append(ts, ch.Type)
			}
			solo[ct.Name] = strings.Join(ts, ",") // inspected right after its own construction
		}
	}
	for _, k := range all {
		c.Eval(1)
		sv := catalog.Svc(k.svc)
		var ts []string
		seen := map[string]bool{}
		for _, ch := range sv.Characteristics {
			if ch == nil {
				rep("interference/nil-characteristic/"+k.name, k.name+": holds a nil characteristic once other services exist")
				continue
			}
			if seen[ch.Type] {
				rep("interference/duplicate-characteristic/"+k.name, fmt.Sprintf("%s: after other services were constructed it holds two characteristics of type %s", k.name, ch.Type))
			}
			seen[ch.Type] = true
			ts = append(ts, ch.Type)
		}
		if want, ok := solo[k.name]; ok && want != strings.Join(ts, ",") {
			rep("interference/characteristics-changed/"+k.name, fmt.Sprintf("%s: its characteristics are [%s] right after construction but [%s] once other services have been constructed", k.name, want, strings.Join(ts, ",")))
		}
	}
	// 4. accessories — built from a complete Info and from an Info that has nothing but a name
	fullInfo := catalog.InfoTemplate
	defer func() { catalog.InfoTemplate = fullInfo }()
	for pass, info := range []accessory.Info{fullInfo, {Name: "Bare"}} {
		catalog.InfoTemplate = info
		if pass == 1 {
			orig := rep
			rep = func(sig, desc string) {
				orig(sig+"/info-with-name-only", desc+" (built from an Info with nothing but a name)")
			}
		}
		c15Accessories(c, md, rep)
	}
	catalog.InfoTemplate = fullInfo
	c15Usable(c, rep)
	c.Sample(map[string]interface{}{"constructor": "characteristic.NewOn", "type": chars["NewOn"]})
	c.Extra("metadata_characteristics", int64(len(md.Characteristics)))
	c.Extra("metadata_services", int64(len(md.Services)))
	c.Extra("characteristic_constructors", int64(len(catalog.CharacteristicCtors)))
	c.Extra("service_constructors", int64(len(catalog.ServiceCtors)))
	c.Extra("accessory_constructors", int64(len(catalog.AccessoryCtors)))
}

func c15Accessories(c *fw.Ctx, md *metadata, rep func(sig, desc string)) {
	for _, ct := range catalog.AccessoryCtors {
		c.Eval(1)
		v, err := c15Build(ct)
		if err != nil {
			rep("ctor-panic/accessory."+ct.Name, ct.Name+": "+err.Error())
			continue
		}
		if ct.Name == "NewContainer" {
			continue
		}
		a := catalog.Acc(v)
		if a == nil || a.Info == nil || len(a.Services) == 0 {
			rep("ctor-unusable/accessory."+ct.Name, ct.Name+" does not yield a usable accessory")
			continue
		}
		c.Class("accessory." + ct.Name)
		// every service of the accessory (the information service included, as accessory.New builds it from an Info)
		// holds the characteristics the metadata requires for its type
		for si, sv := range a.Services {
			have := map[string]bool{}
			for _, ch := range sv.Characteristics {
				if ch != nil {
					have[ch.Type] = true
				}
			}
			for _, m := range md.Services {
				if minify(m.UUID) != sv.Type {
					continue
				}
				for _, r := range m.RequiredCharacteristics {
					c.Eval(1)
					if !have[minify(r)] {
						rep("metadata-required/accessory."+ct.Name+"/"+minify(r), fmt.Sprintf("%s: service %d (type %s) lacks required characteristic type %s", ct.Name, si, sv.Type, minify(r)))
					}
				}
			}
		}
		if _, err := json.Marshal(a); err != nil {
			rep("ctor-unencodable/accessory."+ct.Name, ct.Name+": "+err.Error())
		}
	}
}

// c15Usable: "returns a usable object".
//   - every characteristic takes and gives back valid values of its format: numbers at both bounds given as int and as
//     float64 (what a JSON write delivers), locally and — when writable — from a connection; strings, tlv8 and data
//     payloads of 0, 1, 48, 49, 64, 65 and 300 bytes come back unchanged;
//   - the typed handles a service / accessory constructor returns next to the generic object ARE the objects in the
//     generic lists: service.X.Field's characteristic is an element of X.Characteristics, accessory.Y.Field's service
//     an element of Y.Services (an update through one is seen through the other).
func c15Usable(c *fw.Ctx, rep func(sig, desc string)) {
	try := func(f func()) (p interface{}) {
		defer func() { p = recover() }()
		f()
		return nil
	}
	for _, ct := range catalog.CharacteristicCtors {
		v, err := c15Build(ct)
		if err != nil || catalog.Char(v) == nil {
			continue
		}
		ch := catalog.Char(v)
		var vals []interface{}
		switch ch.Format {
		case characteristic.FormatBool:
			vals = []interface{}{true, false}
		case characteristic.FormatString, characteristic.FormatTLV8, characteristic.FormatData:
			for _, n := range []int{0, 1, 48, 49, 64, 65, 300} {
				if ch.Format == characteristic.FormatString {
					vals = append(vals, strings.Repeat("s", n))
				} else {
					vals = append(vals, base64.StdEncoding.EncodeToString(pat(n, 7)))
				}
			}
		default:
			mn, okn := num(ch.MinValue)
			mx, okx := num(ch.MaxValue)
			if !okn {
				mn = 0
			}
			if !okx {
				mx = mn + 100
			}
			for _, f := range []float64{mn, mx} {
				if ch.Format == characteristic.FormatFloat {
					vals = append(vals, f)
				} else {
					vals = append(vals, int(f), float64(int(f)))
				}
			}
		}
		for _, val := range vals {
			for _, remote := range []bool{false, true} {
				if remote && !c11Has(ch, characteristic.PermWrite) {
					continue
				}
				c.Eval(1)
				how := "UpdateValue"
				if remote {
					how = "UpdateValueFromConnection"
				}
				if p := try(func() {
					if remote {
						ch.UpdateValueFromConnection(val, nullConn{})
					} else {
						ch.UpdateValue(val)
					}
				}); p != nil {
					rep("unusable/update-panics/characteristic."+ct.Name, fmt.Sprintf("%s: %s(%T %v) panics: %v", ct.Name, how, val, trunc([]byte(fmt.Sprint(val)), 20), p))
					break
				}
				if !c11Has(ch, characteristic.PermRead) {
					continue
				}
				got := ch.Value
				gf, gok := num(got)
				wf, wok := num(val)
				same := reflect.DeepEqual(got, val) || (gok && wok && gf == wf)
				if !same {
					rep("unusable/value-not-kept/characteristic."+ct.Name, fmt.Sprintf("%s: after %s(%T of %d bytes / %v) the value is %v", ct.Name, how, val, len(fmt.Sprint(val)), trunc([]byte(fmt.Sprint(val)), 20), string(trunc([]byte(fmt.Sprint(got)), 40))))
					break
				}
				if _, err := catalog.TypedGet(v); err != nil {
					rep("unusable/getter-panics/characteristic."+ct.Name, fmt.Sprintf("%s: typed getter after %s(%T): %v", ct.Name, how, val, err))
					break
				}
			}
		}
	}
	// A typed field is "detached" when its object is not in the generic list although the list holds an object of the
	// same type that no field refers to: the constructor put one object into the list and handed another one to the
	// application. (A field whose object is simply not part of the list — accessory.Camera.StreamManagement2, left
	// out on purpose upstream — is not judged.)
	checkSvc := func(owner string, sv interface{}) {
		s := catalog.Svc(sv)
		if s == nil {
			return
		}
		// the accessor gives what the field holds, on a freshly constructed service too
		c.Eval(1)
		if acc := s.GetCharacteristics(); len(acc) != len(s.Characteristics) {
			rep("unusable/accessor-differs/"+owner, fmt.Sprintf("%s: GetCharacteristics() returns %d characteristics, the service holds %d", owner, len(acc), len(s.Characteristics)))
		} else {
			for i := range acc {
				if acc[i] != s.Characteristics[i] {
					rep("unusable/accessor-differs/"+owner, fmt.Sprintf("%s: GetCharacteristics()[%d] is not the characteristic the service holds at that position", owner, i))
					break
				}
			}
		}
		names, vals := catalog.Fields(sv)
		claimed := map[*characteristic.Characteristic]bool{}
		for _, fv := range vals {
			if ch := catalog.Char(fv); ch != nil {
				claimed[ch] = true
			}
		}
		for i, fv := range vals {
			ch := catalog.Char(fv)
			if ch == nil {
				continue
			}
			c.Eval(1)
			in, orphan := false, false
			for _, x := range s.Characteristics {
				in = in || x == ch
				orphan = orphan || (x != nil && x.Type == ch.Type && !claimed[x])
			}
			if !in && orphan {
				rep("unusable/detached-field/"+owner+"."+names[i], fmt.Sprintf("%s: the characteristic behind field %s is not the one of that type in the service's list — an update through the field is never served, a controller's write never reaches its handlers", owner, names[i]))
			}
		}
	}
	for _, ct := range catalog.ServiceCtors {
		if v, err := c15Build(ct); err == nil {
			checkSvc("service."+ct.Name, v)
		}
	}
	for _, ct := range catalog.AccessoryCtors {
		v, err := c15Build(ct)
		if err != nil || catalog.Acc(v) == nil {
			continue
		}
		a := catalog.Acc(v)
		names, vals := catalog.Fields(v)
		claimed := map[*service.Service]bool{}
		for _, fv := range vals {
			if s := catalog.Svc(fv); s != nil {
				claimed[s] = true
			}
		}
		for i, fv := range vals {
			s := catalog.Svc(fv)
			if s == nil {
				continue
			}
			c.Eval(1)
			in, orphan := false, false
			for _, x := range a.Services {
				in = in || x == s
				orphan = orphan || (x != nil && x != a.Info.Service && x.Type == s.Type && !claimed[x])
			}
			if !in && orphan {
				rep("unusable/detached-field/accessory."+ct.Name+"."+names[i], fmt.Sprintf("%s: the service behind field %s is not the one of that type in the accessory's list", ct.Name, names[i]))
			}
			checkSvc("accessory."+ct.Name+"."+names[i], fv)
		}
	}
}

func init() {
	fw.Register(&fw.Check{
		ID:          "C15",
		Level:       "exploration",
		Rule:        "depth-1 exhaustive enumeration of the finite catalog: every exported New* constructor found by go/parser in /repo's characteristic, service and accessory packages at check time is called; every characteristic and service entry of gen/metadata.json is matched by type id and compared field by field (format, permissions, unit, min/max/step with case-insensitive keys, default value type and range, required characteristics, duplicate types, Type* constants); all services and accessories are then constructed again, kept alive together and re-inspected (a constructor must not disturb objects built before it). A second worker process repeats everything in a program where application code ran first: vendor characteristics whose bounds went through float32 next to every catalog bound, vendor type ids sharing their first group with each catalog type, and every constructor called from inside a change handler. Every service of every accessory constructor's result holds the characteristics required for its type. Usability: every characteristic takes and gives back both bounds of its range given as int and as float64 (locally and, when writable, from a connection) and strings / tlv8 / data payloads of 0, 1, 48, 49, 64, 65, 300 bytes; GetCharacteristics() of a fresh service returns what the service holds; a typed field of a service / accessory constructor's result refers to the object of its type in the generic list (not to a second object while the listed one is referred to by no field). distinct_nontrivial = distinct constructors that returned a usable object",
		Shards:      func(string) int { return 2 },
		Run:         c15Run,
		Replay:      func(c *fw.Ctx, raw json.RawMessage) { c15Run(c) },
		Budget:      func(string) time.Duration { return 5 * time.Minute },
		Assumptions: []string{"gen/metadata.json in the working tree is the reference table", "type ids are compared in the minified form the library uses"},
	})
}
