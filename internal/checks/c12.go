package checks

import (
	"encoding/json"
	"fmt"
	"math"
	"net"
	"reflect"
	"sort"
	"strings"
	"time"

	"github.com/brutella/hc/characteristic"

	"verif/internal/catalog"
	"verif/internal/fw"
)

// C12 — a characteristic's value always has its declared type and range.

type jval struct {
	Label string
	V     interface{}
}

func c12Values() []jval {
	return []jval{
		{"0", 0.0}, {"1", 1.0}, {"-1", -1.0}, {"0.5", 0.5}, {"2", 2.0}, {"50", 50.0}, {"100", 100.0}, {"101", 101.0},
		{"255", 255.0}, {"256", 256.0}, {"360.5", 360.5}, {"1e10", 1e10}, {"-1e10", -1e10}, {"2^31", 2147483648.0}, {"2^32", 4294967296.0},
		{"2^53", 9007199254740992.0}, {"2^63", 9223372036854775808.0}, {"2^64", 18446744073709551616.0}, {"1e300", 1e300}, {"-1e300", -1e300},
		{"int:7", 7}, {"int:-7", -7}, {"int:2^53+4", 9007199254740996}, {"int:2^53+6", 9007199254740998}, {"int:MaxInt64", math.MaxInt64}, {"str:MaxInt64", "9223372036854775807"},
		{"str:empty", ""}, {"str:abc", "abc"}, {"str:12", "12"}, {"str:1.5", "1.5"}, {"str:-3", "-3"}, {"str:NaN", "NaN"},
		{"str:Inf", "Inf"}, {"str:-Inf", "-Inf"}, {"str:1e999", "1e999"}, {"str:true", "true"},
		{"true", true}, {"false", false}, {"null", nil},
		{"arr:empty", []interface{}{}}, {"arr:1", []interface{}{1.0}}, {"obj", map[string]interface{}{"a": 1.0}}, {"arr:nested", []interface{}{[]interface{}{1.0}}},
	}
}

type c12Subject struct {
	Name  string
	Build func() (obj interface{}, ch *characteristic.Characteristic)
}

type fakeAddr string

func (a fakeAddr) Network() string { return "fake" }
func (a fakeAddr) String() string  { return string(a) }

type nullConn struct{ net.Conn }

func (nullConn) RemoteAddr() net.Addr { return fakeAddr("203.0.113.9:1") }

func c12Subjects() []c12Subject {
	var out []c12Subject
	for _, ct := range catalog.CharacteristicCtors {
		ct := ct
		if v, err := ct.Build(); err != nil || catalog.Char(v) == nil {
			continue // a constructor that panics is C15's business
		}
		out = append(out, c12Subject{"characteristic." + ct.Name, func() (interface{}, *characteristic.Characteristic) {
			v, _ := ct.Build()
			return v, catalog.Char(v)
		}})
	}
	type gen struct {
		name   string
		format string
		min    interface{}
		max    interface{}
		step   int
	}
	for _, g := range []gen{
		{"Int/uint8", characteristic.FormatUInt8, nil, nil, 0}, {"Int/uint8[0,100]", characteristic.FormatUInt8, 0, 100, 0},
		{"Int/uint16", characteristic.FormatUInt16, nil, nil, 0}, {"Int/uint32", characteristic.FormatUInt32, nil, nil, 0},
		{"Int/uint64", characteristic.FormatUInt64, nil, nil, 0}, {"Int/int32", characteristic.FormatInt32, nil, nil, 0},
		{"Int/int32[-50,50]", characteristic.FormatInt32, -50, 50, 0}, {"Int/uint32[1,1]", characteristic.FormatUInt32, 1, 1, 0},
		{"Int/uint64[0,2^53+3]", characteristic.FormatUInt64, 0, 9007199254740995, 0}, {"Int/uint64[0,MaxInt64]", characteristic.FormatUInt64, 0, math.MaxInt64, 0},
		// a declared step that does not divide the range
		{"Int/uint8[0,100]step40", characteristic.FormatUInt8, 0, 100, 40}, {"Int/int32[-90,90]step50", characteristic.FormatInt32, -90, 90, 50},
	} {
		g := g
		out = append(out, c12Subject{"generic." + g.name, func() (interface{}, *characteristic.Characteristic) {
			c := characteristic.NewInt("F001")
			c.Format = g.format
			c.Perms = characteristic.PermsAll()
			if g.min != nil {
				c.SetMinValue(g.min.(int))
				c.SetMaxValue(g.max.(int))
			}
			if g.step > 0 {
				c.SetStepValue(g.step)
			}
			c.SetValue(1)
			return c, c.Characteristic
		}})
	}
	for _, g := range []gen{{"Float", "", nil, nil, 0}, {"Float[-10.5,10.5]", "", -10.5, 10.5, 0}, {"Float[0,1e-3]", "", 0.0, 1e-3, 0}} {
		g := g
		out = append(out, c12Subject{"generic." + g.name, func() (interface{}, *characteristic.Characteristic) {
			c := characteristic.NewFloat("F002")
			c.Format = characteristic.FormatFloat
			c.Perms = characteristic.PermsAll()
			if g.min != nil {
				c.SetMinValue(g.min.(float64))
				c.SetMaxValue(g.max.(float64))
			}
			c.SetValue(0)
			return c, c.Characteristic
		}})
	}
	out = append(out, c12Subject{"generic.Bool", func() (interface{}, *characteristic.Characteristic) {
		c := characteristic.NewBool("F003")
		c.Perms = characteristic.PermsAll()
		c.SetValue(false)
		return c, c.Characteristic
	}})
	out = append(out, c12Subject{"generic.String", func() (interface{}, *characteristic.Characteristic) {
		c := characteristic.NewString("F004")
		c.Perms = characteristic.PermsAll()
		c.SetValue("x")
		return c, c.Characteristic
	}})
	out = append(out, c12Subject{"generic.Bytes", func() (interface{}, *characteristic.Characteristic) {
		c := characteristic.NewBytes("F005")
		c.Perms = characteristic.PermsAll()
		c.SetValue([]byte{1, 2})
		return c, c.Characteristic
	}})
	out = append(out, c12Subject{"generic.Data", func() (interface{}, *characteristic.Characteristic) {
		c := characteristic.NewString("F006")
		c.Format = characteristic.FormatData
		c.Perms = characteristic.PermsAll()
		c.SetValue("AQI=")
		return c, c.Characteristic
	}})
	return out
}

type c12Step struct {
	Val    string `json:"val"`
	Remote bool   `json:"remote"`
	// GetCB: the value is not written but supplied by an application read callback (OnValueGet) when the value is
	// read, locally (Remote false: the typed getter) or by a controller (Remote true)
	GetCB bool `json:"getcb,omitempty"`
	// Nested: the value is written by an application change handler of the SAME characteristic, while that handler is
	// being notified of another (valid) change — a handler that corrects its own characteristic
	Nested bool `json:"nested,omitempty"`
}

// c12Other is a valid value different from the current one (to trigger a change notification).
func c12Other(ch *characteristic.Characteristic) interface{} {
	switch cur := ch.Value.(type) {
	case bool:
		return !cur
	case int:
		if mx, ok := ch.MaxValue.(int); ok && cur >= mx {
			if mn, ok := ch.MinValue.(int); ok {
				return mn
			}
			return cur - 1
		}
		return cur + 1
	case float64:
		if mx, ok := num(ch.MaxValue); ok && cur >= mx {
			if mn, ok := num(ch.MinValue); ok {
				return mn
			}
			return cur - 1
		}
		if st, ok := num(ch.StepValue); ok && st > 0 {
			return cur + st
		}
		return cur + 1
	case string:
		if ch.Format == characteristic.FormatString {
			return cur + "x"
		}
		if cur == "AQID" {
			return "BAUG"
		}
		return "AQID"
	}
	return nil
}

type c12Case struct {
	Subject string    `json:"subject"`
	Steps   []c12Step `json:"steps"`
}

// behaviour class of a characteristic: update behaviour depends only on these fields.
func c12ClassKey(ch *characteristic.Characteristic) string {
	p := append([]string{}, ch.Perms...)
	sort.Strings(p)
	return fmt.Sprintf("%s|%v|%v|%T|%v", ch.Format, ch.MinValue, ch.MaxValue, ch.Value, p)
}

func c12Exec(c *fw.Ctx, sub c12Subject, steps []c12Step, vals map[string]interface{}) {
	c.Eval(1)
	c.State(1)
	c.Trace(1)
	c.Transition(len(steps))
	obj, ch := sub.Build()
	cas := c12Case{Subject: sub.Name, Steps: steps}
	format := ch.Format
	for i, st := range steps {
		v := vals[st.Val]
		mode := "local"
		if st.Remote {
			mode = "remote"
		}
		prevNil := ch.Value == nil
		var upd interface{}
		if st.GetCB {
			mode = "getcb-" + mode
		}
		if st.Nested {
			mode = "nested-" + mode
		}
		if p := guard(func() {
			if st.Nested {
				trigger := c12Other(ch)
				if trigger == nil {
					return
				}
				done := false
				ch.OnValueUpdate(func(_ *characteristic.Characteristic, _, _ interface{}) {
					if !done {
						done = true
						ch.UpdateValue(v)
					}
				})
				if st.Remote {
					ch.UpdateValueFromConnection(trigger, nullConn{})
				} else {
					ch.UpdateValue(trigger)
				}
				done = true
			} else if st.GetCB {
				ch.OnValueGet(func() interface{} { return v })
				defer ch.OnValueGet(nil)
				if st.Remote {
					ch.GetValueFromConnection(nullConn{})
				} else if !ch.IsReadable() || prevNil {
					ch.GetValue() // no value stored so far (no read permission, or no default): the typed getter has nothing to convert
				} else if _, err := catalog.TypedGet(obj); err != nil {
					panic(err)
				}
			} else if st.Remote {
				ch.UpdateValueFromConnection(v, nullConn{})
			} else {
				ch.UpdateValue(v)
			}
		}); p != nil {
			upd = p
		}
		sigTail := fmt.Sprintf("%s/%s/%s", format, st.Val, mode)
		if upd != nil {
			prev := "-"
			if i > 0 {
				prev = steps[i-1].Val
			}
			c.Report("update-panic/"+sigTail+"/after:"+prev, fmt.Sprintf("%s: update with %s panics: %v", sub.Name, st.Val, upd), cas)
			return
		}
		val := ch.Value
		switch {
		case val == nil && !prevNil:
			c.Report("value-became-nil/"+sigTail, fmt.Sprintf("%s: stored value became nil after %s", sub.Name, st.Val), cas)
			return
		case val == nil:
		case !goTypeOK(format, val):
			what := fmt.Sprintf("%T", val)
			if f, ok := val.(float64); ok && (math.IsNaN(f) || math.IsInf(f, 0)) {
				what = "non-finite"
			}
			c.Report("wrong-type/"+sigTail+"/stored="+what, fmt.Sprintf("%s: after %s the stored value is %T(%v), format %s", sub.Name, st.Val, val, val, format), cas)
			return
		case !inBounds(ch, val):
			c.Report("out-of-range/"+sigTail, fmt.Sprintf("%s: after %s the stored value %v is outside [%v,%v]", sub.Name, st.Val, val, ch.MinValue, ch.MaxValue), cas)
			return
		}
		if val != nil {
			if _, err := catalog.TypedGet(obj); err != nil {
				c.Report("getter-panic/"+sigTail, fmt.Sprintf("%s: after %s: %v", sub.Name, st.Val, err), cas)
				return
			}
		}
		if _, err := json.Marshal(ch); err != nil {
			c.Report("unencodable/"+sigTail, fmt.Sprintf("%s: after %s the characteristic does not encode: %v", sub.Name, st.Val, err), cas)
			return
		}
	}
	c.Class(format + "/" + fmt.Sprintf("%T", ch.Value))
}

// c12Twins: two live instances built by the same constructor, one with narrowed bounds; updates alternate.
// Each instance must respect ITS OWN declared bounds.
func c12Twins(c *fw.Ctx) {
	for si, ct := range catalog.CharacteristicCtors {
		if !c.Mine(si) {
			continue
		}
		va, err := ct.Build()
		if err != nil || catalog.Char(va) == nil {
			continue
		}
		a := catalog.Char(va)
		mn, okMin := num(a.MinValue)
		mx, okMax := num(a.MaxValue)
		if !okMin || !okMax || mx-mn < 4 {
			continue
		}
		vb, _ := ct.Build()
		b := catalog.Char(vb)
		narrowMin, narrowMax := mn+1, mx-2
		setBounds := func(obj interface{}, lo, hi float64) {
			for _, m := range []struct {
				name string
				v    float64
			}{{"SetMinValue", lo}, {"SetMaxValue", hi}} {
				meth := reflect.ValueOf(obj).MethodByName(m.name)
				if !meth.IsValid() {
					continue
				}
				arg := reflect.ValueOf(m.v)
				if meth.Type().In(0).Kind() == reflect.Int {
					arg = reflect.ValueOf(int(m.v))
				}
				meth.Call([]reflect.Value{arg})
			}
		}
		setBounds(vb, narrowMin, narrowMax)
		cas := c12Case{Subject: "twins:characteristic." + ct.Name}
		for round := 0; round < 3; round++ {
			c.Eval(1)
			c.State(1)
			c.Trace(1)
			c.Transition(4)
			// wide instance first, then the narrow one, values beyond the narrow bounds but inside the wide ones
			for _, step := range []struct {
				ch  *characteristic.Characteristic
				val float64
			}{{a, mx}, {b, mx}, {a, mn}, {b, mn}, {b, mx + 100}, {a, mx + 100}, {b, mn - 100}} {
				var v interface{} = step.val
				if p := guard(func() {
					if round%2 == 0 {
						step.ch.UpdateValue(v)
					} else {
						step.ch.UpdateValueFromConnection(v, nullConn{})
					}
				}); p != nil {
					c.Report("twins/panic/"+a.Format, fmt.Sprintf("%s: update panics: %v", ct.Name, p), cas)
					break
				}
				if step.ch.Value != nil && !inBounds(step.ch, step.ch.Value) {
					which := "narrow"
					if step.ch == a {
						which = "default"
					}
					c.Report("twins/out-of-range/"+a.Format+"/"+which, fmt.Sprintf("%s: with two live instances (bounds [%v,%v] and [%v,%v]) the %s one stores %v after an update with %v", ct.Name, mn, mx, narrowMin, narrowMax, which, step.ch.Value, step.val), cas)
					break
				}
			}
		}
		c.Class("twins:" + a.Format)
	}
}

func c12Run(c *fw.Ctx) {
	{
		interfRun(c, "C12") // statement-level interleavings of operations on disjoint objects (subprocess)
	}
	c12Twins(c)
	subs := c12Subjects()
	base := c12Values()
	idx := 0
	seenClass := map[string]bool{}
	expired := false
	for _, sub := range subs {
		if expired {
			break
		}
		_, ch := sub.Build()
		vals := map[string]interface{}{}
		var labels []string
		for _, v := range base {
			vals[v.Label] = v.V
			labels = append(labels, v.Label)
		}
		// constructor-specific boundary values
		if mn, ok := num(ch.MinValue); ok {
			vals["min-1"], vals["min"] = mn-1, mn
			labels = append(labels, "min-1", "min")
		}
		if mx, ok := num(ch.MaxValue); ok {
			vals["max+1"], vals["max"] = mx+1, mx
			labels = append(labels, "max+1", "max")
		}
		if ch.Format == characteristic.FormatFloat {
			// just outside the bounds: by one float64 step and by less than a float32 step
			if mx, ok := num(ch.MaxValue); ok {
				vals["max+ulp"], vals["max+1e-8rel"] = math.Nextafter(mx, math.Inf(1)), mx+math.Abs(mx)*1e-8+1e-40
				labels = append(labels, "max+ulp", "max+1e-8rel")
			}
			if mn, ok := num(ch.MinValue); ok {
				vals["min-ulp"], vals["min-1e-8rel"] = math.Nextafter(mn, math.Inf(-1)), mn-math.Abs(mn)*1e-8-1e-40
				labels = append(labels, "min-ulp", "min-1e-8rel")
			}
		}
		var events []c12Step
		for _, l := range labels {
			events = append(events, c12Step{Val: l}, c12Step{Val: l, Remote: true})
		}
		depth := 2
		key := c12ClassKey(ch)
		// values supplied by a read callback: every value once per behaviour class, six values for the other constructors
		for i, l := range labels {
			if !seenClass[key] || i%8 == 0 || strings.HasPrefix(l, "m") {
				events = append(events, c12Step{Val: l, GetCB: true}, c12Step{Val: l, Remote: true, GetCB: true})
				events = append(events, c12Step{Val: l, Nested: true}, c12Step{Val: l, Remote: true, Nested: true})
			}
		}
		if c.Thorough() && !seenClass[key] {
			depth = 3 // depth 3 once per behaviour class (format, bounds, default type, permissions)
		}
		seenClass[key] = true
		var rec func(steps []c12Step)
		rec = func(steps []c12Step) {
			if expired {
				return
			}
			if len(steps) > 0 {
				idx++
				if idx%8192 == 0 && c.Expired() {
					expired = true
					c.NotExhaustive(fmt.Sprintf("deadline: the sequences of subject %s and of the subjects after it are not complete", sub.Name))
					return
				}
				if c.Mine(idx) {
					if idx%200000 == 3 {
						c.Sample(c12Case{Subject: sub.Name, Steps: steps})
					}
					c12Exec(c, sub, steps, vals)
				}
			}
			if len(steps) == depth {
				return
			}
			for _, e := range events {
				rec(append(append([]c12Step{}, steps...), e))
			}
		}
		rec(nil)
		if c.Shard == 0 {
			c.Extra("subjects", 1)
		}
	}
}

func c12Replay(c *fw.Ctx, raw json.RawMessage) {
	var cas c12Case
	json.Unmarshal(raw, &cas)
	if strings.HasPrefix(cas.Subject, "twins:") {
		c12Twins(c)
		return
	}
	for _, sub := range c12Subjects() {
		if sub.Name != cas.Subject {
			continue
		}
		_, ch := sub.Build()
		vals := map[string]interface{}{}
		for _, v := range c12Values() {
			vals[v.Label] = v.V
		}
		if mn, ok := num(ch.MinValue); ok {
			vals["min-1"], vals["min"] = mn-1, mn
		}
		if mx, ok := num(ch.MaxValue); ok {
			vals["max+1"], vals["max"] = mx+1, mx
		}
		c12Exec(c, sub, cas.Steps, vals)
		return
	}
	c.Infra("unknown subject " + cas.Subject)
}

func init() {
	fw.Register(&fw.Check{
		ID:     "C12",
		Level:  "model_checking",
		Rule:   "every characteristic constructor found in /repo plus 18 generic constructor × format × bounds configurations (two with a declared step that does not divide the range); every update sequence of length ≤2 (thorough: ≤3 once per behaviour class = (format, min, max, default type, permissions)) over ≈40 JSON-like values (numbers of every magnitude and sign, numeric / NaN / Inf strings, booleans, null, arrays, objects, the constructor's own min−1/min/max/max+1, and for floats the neighbours of the bounds one float64 step and a 10^-8 fraction outside), each applied locally or from a connection, or supplied by an application read callback when the value is read locally (typed getter) or by a controller, or written by a change handler of the same characteristic while it is being notified of another change; plus, for every constructor with declared bounds, two live instances (one with narrowed bounds) updated alternately; after every update: no panic, stored value has the Go type of the format, is finite and within declared bounds, typed getter and JSON encoding succeed. states = executed sequences, distinct_nontrivial = distinct (format, stored Go type) classes Plus, in a subprocess built with a scheduling point before EVERY statement of hc's packages (textual insertion through go build -overlay): every interleaving with at most 1 (thorough 2) preemptions of pairs of operations on disjoint objects — and, where the property is about served requests, of pairs of handlers on two verified connections of one accessory touching different characteristics — each side must observe exactly what it observes when the two run one after the other (module-level mutable state is what makes them differ).",
		Run:    c12Run,
		Replay: c12Replay,
		Budget: func(tier string) time.Duration {
			if tier == "thorough" {
				return 8 * time.Minute // (the depth-3 sequences have outgrown an hour; what is completed is reported)
			}
			return 25 * time.Minute
		},
		Assumptions: []string{"only declared minimum/maximum are judged (not the intrinsic width of uint8/uint16 without declared bounds)", "values are JSON-like Go values as encoding/json produces them, plus Go ints for local updates"},
	})
	_ = strings.Join
}
