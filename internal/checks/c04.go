package checks

import (
	"bytes"
	"crypto/ecdh"
	crand "crypto/rand"
	"encoding/json"
	"fmt"
	"io"
	"math/big"
	"net"
	"sort"
	"strings"
	"time"

	"github.com/brutella/hc/db"
	"github.com/brutella/hc/hap/pair"

	"verif/internal/fw"
	"verif/internal/refctl"
	"verif/internal/world"
)

type netConn = net.Conn

// C04 — a specification-conformant controller can pair, verify and talk.

type c04Cell struct {
	Pin      string `json:"pin"`
	IDKind   string `json:"id"`                  // controller identifier shape
	KeySeed  string `json:"key"`                 // Ed25519 identity seed
	EphSeed  string `json:"eph"`                 // X25519 seed label ("highbit" = public key with the top bit set)
	SRP      string `json:"srp"`                 // "" | "A-leading-zero" | "S-leading-zero" | "B-leading-zero"
	Restart  bool   `json:"restart"`             // verify against a restarted transport on the same storage
	ReVerify bool   `json:"re_verify,omitempty"` // after the encrypted requests the controller runs pair-verify again on the same connection
	NewPin   string `json:"new_pin,omitempty"`   // the restarted transport is configured with this setup code; a second controller pairs with it
	ReqSize  int    `json:"req"`                 // total size of the encrypted PUT request (0 = small)
	WrongPin bool   `json:"wrong_pin"`
	SameConn bool   `json:"same_conn"`         // pair-verify on the connection that did pair-setup
	Retry    bool   `json:"retry"`             // first a complete attempt with a wrong code on the same connection, then the right code
	Segment  int    `json:"segment,omitempty"` // every pairing request body arrives in two TCP segments cut here (negative: from the end)
	RePair   bool   `json:"repair,omitempty"`  // afterwards the same identifier pairs again with a new key pair and verifies with it
	// Before is something that happens before the conformant controller's exchange:
	//   "abort-after-M1" / "abort-after-M3": another connection starts pair-setup, gets that far and goes away
	//   "rejected-M5": on the SAME connection a complete exchange whose key-exchange message is sealed under a wrong key
	//   "rejected-verify": (after pairing) on the verify connection a complete pair-verify with a foreign signature first
	Before string `json:"before,omitempty"`
	// Peer "link-local": the controller connects through the host's link-local IPv6 address (fe80::…%iface)
	Peer string `json:"peer,omitempty"`
	// Bridged: the accessory is a bridge with that many more accessories, so that the encrypted answers are large
	// (12 ≈ 20 kB, 60 ≈ 80 kB: more than one 64 kB write, 150 ≈ 200 kB)
	Bridged int `json:"bridged,omitempty"`
}

func c04ID(kind string) string {
	switch kind {
	case "1byte":
		return "A"
	case "uuid":
		return "7D2A5B5C-3F1E-4B7A-9C0D-1E2F3A4B5C6D"
	case "64bytes":
		return strings.Repeat("0123456789abcdef", 4)
	case "63bytes":
		return strings.Repeat("k", 63)
	case "utf8":
		return "контроллер-ü✓-🔑"
	case "96bytes":
		return strings.Repeat("abcdefghijkl", 8)
	case "97bytes":
		return strings.Repeat("abcdefghijkl", 8) + "m"
	case "124bytes": // the longest name whose hex form plus ".entity" still is a legal file name (255 bytes)
		return strings.Repeat("N", 124)
	}
	return kind
}

func c04EphSeed(label string) []byte {
	if label != "highbit" {
		return refctl.Seed32("eph:" + label)
	}
	for i := 0; ; i++ {
		s := refctl.Seed32(fmt.Sprintf("eph:highbit:%d", i))
		k, _ := ecdh.X25519().NewPrivateKey(s)
		if k.PublicKey().Bytes()[31]&0x80 != 0 || k.PublicKey().Bytes()[0]&0x80 != 0 {
			return s
		}
	}
}

// srpExponent finds a private exponent with the requested property (deterministic search).
func c04Exponent(kind string, salt, B []byte, code string) ([]byte, bool) {
	n := refctl.SRPN()
	for i := 0; i < 4000; i++ {
		a := refctl.Seed32(fmt.Sprintf("srp-a:%s:%d", kind, i))
		switch kind {
		case "":
			return a, true
		case "A-leading-zero":
			A := new(big.Int).Exp(big.NewInt(5), new(big.Int).SetBytes(a), n)
			if len(A.Bytes()) < 384 {
				return a, true
			}
		case "S-leading-zero":
			cl := refctl.NewSRPClient(a)
			if cl.Compute(salt, B, code) == nil && len(cl.S) < 384 {
				return a, true
			}
		}
	}
	return nil, false
}

// detStream is a deterministic replacement for crypto/rand.Reader used to steer the accessory's SRP value B.
type detStream struct {
	seed int
	n    uint64
}

func (d *detStream) Read(p []byte) (int, error) {
	for i := range p {
		d.n++
		x := d.n*0x9E3779B97F4A7C15 + uint64(d.seed)*0xD1B54A32D192ED03
		x ^= x >> 29
		x *= 0xBF58476D1CE4E5B9
		x ^= x >> 32
		p[i] = byte(x)
	}
	return len(p), nil
}

var c04BSeed = map[string]int{}

// c04FindBSeed searches (deterministically) a random stream under which the accessory's SRP session for code
// gets a public value B with a leading zero byte. It uses hc's own session constructor, exactly as the
// pair-setup endpoint does on the first start request of a connection.
func c04FindBSeed(code string) (int, bool) {
	if s, ok := c04BSeed[code]; ok {
		return s, true
	}
	saved := crand.Reader
	defer func() { crand.Reader = saved }()
	for seed := 1; seed < 3000; seed++ {
		crand.Reader = &detStream{seed: seed}
		sess, err := pair.NewSetupServerSession("x", code)
		if err == nil && (len(sess.PublicKey) < 384 || sess.PublicKey[0] == 0) { // (judged by value: a padded B counts)
			c04BSeed[code] = seed
			return seed, true
		}
	}
	return 0, false
}

var _ io.Reader = &detStream{}

func c04Exec(c *fw.Ctx, cell c04Cell) {
	c.Eval(1)
	name := fmt.Sprintf("before=%s peer=%s ", cell.Before, cell.Peer) + fmt.Sprintf("segment=%d repair=%v pin=%s id=%s key=%s eph=%s srp=%s restart=%v req=%d wrong=%v same=%v retry=%v newpin=%s reverify=%v", cell.Segment, cell.RePair, cell.Pin, cell.IDKind, cell.KeySeed, cell.EphSeed, cell.SRP, cell.Restart, cell.ReqSize, cell.WrongPin, cell.SameConn, cell.Retry, cell.NewPin, cell.ReVerify)
	sigCell := fmt.Sprintf("id=%s,srp=%s,restart=%v,req=%d,wrong=%v,same=%v,retry=%v", cell.IDKind, cell.SRP, cell.Restart, cell.ReqSize, cell.WrongPin, cell.SameConn, cell.Retry)
	if cell.Segment != 0 {
		sigCell += fmt.Sprintf(",segment=%d", cell.Segment)
	}
	if cell.RePair {
		sigCell += ",repair"
	}
	if cell.Before != "" {
		sigCell += ",before=" + cell.Before
	}
	if cell.Peer != "" {
		sigCell += ",peer=" + cell.Peer
	}
	variant := ""
	if cell.Bridged > 0 {
		sigCell += fmt.Sprintf(",bridged=%d", cell.Bridged)
		name = fmt.Sprintf("bridged=%d ", cell.Bridged) + name
		variant = fmt.Sprintf("bridged:%d", cell.Bridged)
	}
	fail := func(step, desc string) {
		c.Report(step+"/"+sigCell, name+": "+desc, cell)
	}
	world.ResetCapture()
	b, err := newBed(c, bedOpt{Pin: cell.Pin, Variant: variant})
	if err != nil {
		c.Infra("bed: " + err.Error())
		return
	}
	defer func() { b.Close() }()
	id := refctl.NewIdentity(c04ID(cell.IDKind), cell.KeySeed)
	before := strings.Join(world.EntityFiles(b.Dir), ";")
	dial := func() (*refctl.Ctl, error) {
		if cell.Peer != "link-local" {
			return b.Dial()
		}
		_, port, _ := net.SplitHostPort(b.W.Addr)
		k, err := refctl.Dial("[" + c04LinkLocal() + "]:" + port)
		if err == nil {
			b.conns = append(b.conns, k)
		}
		return k, err
	}
	if cell.Peer == "link-local" && c04LinkLocal() == "" {
		c.Note("no link-local IPv6 address on this host: the link-local peer cell is not exercised")
		c.Eval(-1)
		return
	}
	if strings.HasPrefix(cell.Before, "abort-after-") {
		// somebody else starts pairing and goes away in the middle
		ka, err := dial()
		if err != nil {
			c.Infra(err.Error())
			return
		}
		as := &refctl.Setup{}
		if m, _, err := ka.Do("POST", "/pair-setup", refctl.CTPairing, refctl.SetupM1()); err == nil && as.ParseM2(m.Body) == nil && cell.Before == "abort-after-M3" {
			if m3, err := as.M3(refctl.Seed32("abort-a"), b.Code); err == nil {
				ka.Do("POST", "/pair-setup", refctl.CTPairing, m3)
			}
		}
		ka.Close()
		time.Sleep(20 * time.Millisecond)
	}
	k, err := dial()
	if err != nil {
		c.Infra(err.Error())
		return
	}
	if cell.Before == "rejected-M5" {
		// a complete exchange on this connection whose key-exchange message is sealed under a wrong key: error, then again
		rs := &refctl.Setup{}
		m, _, err := k.Do("POST", "/pair-setup", refctl.CTPairing, refctl.SetupM1())
		if err == nil && rs.ParseM2(m.Body) == nil {
			if m3, err := rs.M3(refctl.Seed32("rej-a"), b.Code); err == nil {
				if m, _, err = k.Do("POST", "/pair-setup", refctl.CTPairing, m3); err == nil {
					if ec, err := rs.ParseM4(m.Body); err == nil && ec == 0 {
						k.Do("POST", "/pair-setup", refctl.CTPairing, refctl.M5Sealed(refctl.Seed32("wrong-key"), refctl.M5Sub(rs.SRP.K, id)))
					}
				}
			}
		}
	}
	k.SegmentBodyAt = cell.Segment
	code := b.Code
	if cell.WrongPin {
		code = "123-45-678"
		if code == b.Code {
			code = "876-54-321"
		}
	}
	// pair-setup, step by step so that the SRP exponent can depend on salt and B
	s := &refctl.Setup{}
	post := func(body []byte) ([]byte, bool) {
		m, _, err := k.Do("POST", "/pair-setup", refctl.CTPairing, body)
		if err != nil {
			fail("pair-setup-transport", "no response: "+err.Error())
			return nil, false
		}
		if m.Status != 200 {
			fail("pair-setup-status", fmt.Sprintf("HTTP status %d", m.Status))
			return nil, false
		}
		return m.Body, true
	}
	if cell.SRP == "B-leading-zero" {
		seed, found := c04FindBSeed(code)
		if !found {
			c.Infra("no random stream found that gives B a leading zero")
			return
		}
		saved := crand.Reader
		crand.Reader = &detStream{seed: seed}
		defer func() { crand.Reader = saved }()
	}
	if cell.Retry {
		// a mistyped code first: start, verify with a wrong code → authentication error, nothing stored
		ws := &refctl.Setup{}
		wb, ok := post(refctl.SetupM1())
		if !ok {
			return
		}
		if err := ws.ParseM2(wb); err != nil {
			fail("M2", err.Error())
			return
		}
		wm3, _ := ws.M3(refctl.Seed32("retry-a"), "111-22-333")
		if wb, ok = post(wm3); !ok {
			return
		}
		if ec, err := ws.ParseM4(wb); err != nil || ec != 2 {
			fail("wrong-code-not-rejected", fmt.Sprintf("wrong code answered with error %d %v", ec, err))
			return
		}
	}
	body, ok := post(refctl.SetupM1())
	if !ok {
		return
	}
	if err := s.ParseM2(body); err != nil {
		fail("M2", err.Error())
		return
	}
	if cell.SRP == "B-leading-zero" {
		if len(s.B) == 384 && s.B[0] != 0 { // (a B that is sent padded to the group's length counts by its value)
			c.Note("B-leading-zero cell: steering crypto/rand.Reader did not produce a short B (cell not exercised)")
			c.Eval(-1)
			return
		}
		c.Extra("cells_with_short_B", 1)
	}
	a, found := c04Exponent(strings.TrimPrefix(cell.SRP, "B-leading-zero"), s.Salt, s.B, code)
	if !found {
		c.Infra("no exponent found for " + cell.SRP)
		return
	}
	m3, err := s.M3(a, code)
	if err != nil {
		fail("M3-build", err.Error())
		return
	}
	if body, ok = post(m3); !ok {
		return
	}
	ec, err := s.ParseM4(body)
	if err != nil {
		fail("M4", err.Error())
		return
	}
	if cell.WrongPin {
		if ec != 2 {
			fail("wrong-code-not-rejected", fmt.Sprintf("a wrong setup code is answered with TLV error %d instead of 2 (authentication)", ec))
			return
		}
		if after := strings.Join(world.EntityFiles(b.Dir), ";"); after != before {
			fail("wrong-code-stored", "a failed pair-setup changed the stored pairings")
			return
		}
		c.Class("wrong-code-rejected: " + name)
		return
	}
	if ec != 0 {
		fail("M4-error", fmt.Sprintf("right setup code answered with TLV error %d", ec))
		return
	}
	if body, ok = post(s.M5(id)); !ok {
		return
	}
	ec, err = s.ParseM6(body)
	if err != nil || ec != 0 {
		fail("M6", fmt.Sprintf("error code %d, %v", ec, err))
		return
	}
	// what is stored is what was sent
	database, _ := db.NewDatabase(b.Dir)
	e, err := database.EntityWithName(id.ID)
	if err != nil || !bytes.Equal(e.PublicKey, id.Pub) || e.Name != id.ID {
		fail("stored-entity", fmt.Sprintf("after M6 the stored pairing differs from (identifier, LTPK) sent: err=%v", err))
		return
	}
	if s.AccID != b.AccID || !bytes.Equal(s.AccLTPK, b.AccLTPK) {
		fail("M6-identity", "the identity in M6 is not the accessory's stored identity")
		return
	}
	if es, lerr := database.Entities(); lerr == nil {
		var names []string
		for _, x := range es {
			names = append(names, x.Name)
		}
		sort.Strings(names)
		want := []string{b.AccID, id.ID}
		sort.Strings(want)
		if strings.Join(names, "\x00") != strings.Join(want, "\x00") {
			fail("stored-entity-list", fmt.Sprintf("after M6 the stored entities are %q, expected the accessory and the controller %q", names, want))
			return
		}
	}
	if cell.Restart {
		dir := b.Dir
		b.CloseKeep()
		pin := cell.Pin
		if cell.NewPin != "" {
			pin = cell.NewPin
		}
		nb, err := newBed(c, bedOpt{Pin: pin, Dir: dir, Variant: variant})
		if err != nil {
			c.Infra("restart: " + err.Error())
			return
		}
		b = nb
		if b.AccID != s.AccID || !bytes.Equal(b.AccLTPK, s.AccLTPK) {
			fail("restart-identity", "accessory identity changed across a restart")
			return
		}
	}
	vk := k
	if !cell.SameConn || cell.Restart {
		if vk, err = dial(); err != nil {
			c.Infra(err.Error())
			return
		}
		vk.SegmentBodyAt = cell.Segment
	}
	if cell.Before == "rejected-verify" {
		// a complete pair-verify with a foreign signature on this connection first (answered with an error), then the genuine one
		rv := refctl.NewVerify(refctl.Seed32("rej-v"))
		if m, _, err := vk.Do("POST", "/pair-verify", refctl.CTPairing, refctl.VerifyM1(rv.EphPub)); err == nil && rv.ParseM2(m.Body, nil) == nil {
			vk.Do("POST", "/pair-verify", refctl.CTPairing, refctl.VerifyM3Sealed(rv.EncKey, rv.M3Sub(id.ID, idX.Priv)))
		}
	}
	_, vec, err := refctl.PairVerify(vk, id, c04EphSeed(cell.EphSeed), s.AccLTPK)
	if err != nil || vec != 0 {
		fail("pair-verify", fmt.Sprintf("error code %d, %v", vec, err))
		return
	}
	// encrypted talk
	m, _, err := vk.Do("GET", "/accessories", "", nil)
	if err != nil || m.Status != 200 || !bytes.Contains(m.Body, []byte(canaryName)) {
		fail("encrypted-get-accessories", fmt.Sprintf("status/err: %v %v", m, err))
		return
	}
	var dbj struct {
		Accessories []json.RawMessage `json:"accessories"`
	}
	if json.Unmarshal(m.Body, &dbj) != nil || len(dbj.Accessories) != 5+cell.Bridged {
		fail("accessories-json", fmt.Sprintf("attribute database (%d bytes received) is not the expected JSON with %d accessories", len(m.Body), 5+cell.Bridged))
		return
	}
	if cell.Bridged > 0 {
		// a read of one characteristic of every accessory in one request: another large answer
		var ids []string
		for a := 1; a <= 5+cell.Bridged; a++ {
			ids = append(ids, fmt.Sprintf("%d.2", a), fmt.Sprintf("%d.3", a), fmt.Sprintf("%d.4", a), fmt.Sprintf("%d.5", a))
		}
		m, _, err := vk.Do("GET", "/characteristics?id="+strings.Join(ids, ","), "", nil)
		var cj struct {
			Characteristics []json.RawMessage `json:"characteristics"`
		}
		if err != nil || (m.Status != 200 && m.Status != 207) || json.Unmarshal(m.Body, &cj) != nil || len(cj.Characteristics) != len(ids) {
			fail("encrypted-get-many-characteristics", fmt.Sprintf("read of %d characteristics: %v %v", len(ids), m, err))
			return
		}
	}
	aid, iid := b.Brightness()
	put := fmt.Sprintf(`{"characteristics":[{"aid":%d,"iid":%d,"value":42}]}`, aid, iid)
	if cell.ReqSize > 0 {
		// pad the JSON body with spaces so that the whole request has exactly ReqSize bytes
		base := len(refctl.BuildRequest("PUT", "/characteristics", refctl.CTJSON, []byte(put)))
		for pad := cell.ReqSize - base; pad > 0; pad-- {
			cand := put[:len(put)-1] + strings.Repeat(" ", pad) + "}"
			if len(refctl.BuildRequest("PUT", "/characteristics", refctl.CTJSON, []byte(cand))) <= cell.ReqSize {
				put = cand
				break
			}
		}
	}
	m, _, err = vk.Do("PUT", "/characteristics", refctl.CTJSON, []byte(put))
	if err != nil || m.Status != 204 {
		fail("encrypted-put", fmt.Sprintf("request of %d bytes: %v %v", len(refctl.BuildRequest("PUT", "/characteristics", refctl.CTJSON, []byte(put))), m, err))
		return
	}
	if v := b.Bulb.Lightbulb.Brightness.GetValue(); v != 42 {
		fail("put-not-applied", fmt.Sprintf("application sees brightness %d after a write of 42", v))
		return
	}
	m, _, err = vk.Do("GET", fmt.Sprintf("/characteristics?id=%d.%d", aid, iid), "", nil)
	if err != nil || m.Status != 200 || !bytes.Contains(m.Body, []byte(`"value":42`)) {
		fail("encrypted-get-characteristic", fmt.Sprintf("%v %v", m, err))
		return
	}
	if cell.ReVerify {
		// pair-verify once more on the connection that is already encrypted (a controller that refreshes its session):
		// the exchange travels under the current keys, afterwards both directions use the new ones
		if _, vec, err := refctl.PairVerify(vk, id, c04EphSeed(cell.EphSeed+"-again"), s.AccLTPK); err != nil || vec != 0 {
			fail("second-pair-verify-on-the-connection", fmt.Sprintf("error code %d, %v", vec, err))
			return
		}
		if m, _, err := vk.Do("GET", fmt.Sprintf("/characteristics?id=%d.%d", aid, iid), "", nil); err != nil || m.Status != 200 || !bytes.Contains(m.Body, []byte(`"value":42`)) {
			fail("encrypted-get-after-second-pair-verify", fmt.Sprintf("after a second pair-verify on the same connection: %v %v", m, err))
			return
		}
		if m, _, err := vk.Do("GET", "/accessories", "", nil); err != nil || m.Status != 200 {
			fail("encrypted-get-after-second-pair-verify", fmt.Sprintf("after a second pair-verify on the same connection: %v %v", m, err))
			return
		}
		c.Class("verified-twice-on-one-connection")
	}
	if cell.RePair {
		// the same identifier pairs again with a new key pair (the user reset the controller). The accessory may refuse
		// pair-setup while paired (the specification says so); but if it completes the exchange, the new key is the one
		// that verifies from then on.
		id2 := refctl.NewIdentity(id.ID, cell.KeySeed+"-second")
		k2, err := b.Dial()
		if err != nil {
			c.Infra(err.Error())
			return
		}
		_, ec2, err2 := refctl.PairSetup(k2, id2, b.Code, refctl.Seed32("repair-a"))
		if err2 == nil && ec2 == 0 {
			k3, err := b.Dial()
			if err != nil {
				c.Infra(err.Error())
				return
			}
			if _, vec, err := refctl.PairVerify(k3, id2, c04EphSeed(cell.EphSeed), s.AccLTPK); err != nil || vec != 0 {
				fail("pair-verify-after-second-pair-setup", fmt.Sprintf("pair-setup of the same identifier with a new key pair completed, but pair-verify with the new key is answered with error code %d, %v", vec, err))
				return
			}
			if m, _, err := k3.Do("GET", "/accessories", "", nil); err != nil || m.Status != 200 {
				fail("encrypted-get-after-second-pair-setup", fmt.Sprintf("%v %v", m, err))
				return
			}
			k4, err := b.Dial()
			if err != nil {
				c.Infra(err.Error())
				return
			}
			if _, vec, err := refctl.PairVerify(k4, id, c04EphSeed(cell.EphSeed), s.AccLTPK); err == nil && vec == 0 {
				fail("replaced-key-still-verifies", "after the identifier paired again with a new key pair the replaced key still verifies")
				return
			}
			c.Class("re-paired")
		} else {
			c.Class(fmt.Sprintf("second pair-setup refused (%d, %v)", ec2, err2))
		}
	}
	if cell.Restart && cell.NewPin != "" {
		// the user configured another setup code and restarted; a second controller which has the new code pairs, verifies
		// and talks (the stored pairing of the first one was checked above, on the restarted accessory)
		id2 := refctl.NewIdentity(c04ID("uuid")+"-second-controller", cell.KeySeed+"-other")
		k2, err := b.Dial()
		if err != nil {
			c.Infra(err.Error())
			return
		}
		if _, ec2, err2 := refctl.PairSetup(k2, id2, b.Code, refctl.Seed32("newpin-a")); err2 != nil || ec2 != 0 {
			fail("pair-setup-with-new-code", fmt.Sprintf("the accessory was restarted on the same storage with the setup code %s (before: %s); pair-setup with the new code is answered with error code %d, %v", b.Code, formatPin(cell.Pin), ec2, err2))
			return
		}
		k3, err := b.Dial()
		if err != nil {
			c.Infra(err.Error())
			return
		}
		if _, vec, err := refctl.PairVerify(k3, id2, c04EphSeed(cell.EphSeed), s.AccLTPK); err != nil || vec != 0 {
			fail("pair-verify-after-new-code", fmt.Sprintf("error code %d, %v", vec, err))
			return
		}
		if m, _, err := k3.Do("GET", "/accessories", "", nil); err != nil || m.Status != 200 {
			fail("encrypted-get-after-new-code", fmt.Sprintf("%v %v", m, err))
			return
		}
		c.Class("new-code-after-restart")
	}
	if p := world.PanicsFor(""); len(p) > 0 {
		fail("panic", "handler panic during a correct exchange: "+p[0])
		return
	}
	c.Class("ok: " + name)
}

func c04Cells(thorough bool) []c04Cell {
	pins := []string{"00102003", "00000001", "99999998", "01020304", "12345679", "87654320", "11111112", "00000010", "99999990"}
	ids := []string{"uuid", "1byte", "64bytes", "63bytes", "utf8", "96bytes", "97bytes", "124bytes"}
	keys := []string{"k1", "k2", "k3"}
	ephs := []string{"e1", "e2", "highbit"}
	reqs := []int{0, 1024, 1025, 1023, 2048, 2049, 4097}
	var cells []c04Cell
	base := c04Cell{Pin: pins[0], IDKind: "uuid", KeySeed: "k1", EphSeed: "e1"}
	add := func(f func(*c04Cell)) {
		x := base
		f(&x)
		cells = append(cells, x)
	}
	add(func(x *c04Cell) {})
	for _, p := range pins[1:] {
		add(func(x *c04Cell) { x.Pin = p })
	}
	for _, i := range ids[1:] {
		add(func(x *c04Cell) { x.IDKind = i })
	}
	for _, k := range keys[1:] {
		add(func(x *c04Cell) { x.KeySeed = k })
	}
	for _, e := range ephs[1:] {
		add(func(x *c04Cell) { x.EphSeed = e })
	}
	for _, r := range reqs[1:] {
		add(func(x *c04Cell) { x.ReqSize = r })
	}
	add(func(x *c04Cell) { x.Restart = true })
	add(func(x *c04Cell) { x.ReVerify = true })
	add(func(x *c04Cell) { x.ReVerify = true; x.SameConn = true; x.ReqSize = 2049 })
	add(func(x *c04Cell) { x.Restart = true; x.NewPin = "31415926" }) // restarted with another setup code
	add(func(x *c04Cell) { x.Restart = true; x.NewPin = "00102004" }) // … which differs in the last digit
	add(func(x *c04Cell) { x.SameConn = true })
	add(func(x *c04Cell) { x.WrongPin = true })
	add(func(x *c04Cell) { x.SRP = "A-leading-zero" })
	add(func(x *c04Cell) { x.SRP = "S-leading-zero" })
	add(func(x *c04Cell) { x.WrongPin = true; x.IDKind = "utf8"; x.Pin = pins[2] })
	add(func(x *c04Cell) { x.Retry = true })
	add(func(x *c04Cell) { x.Retry = true; x.SameConn = true; x.Pin = pins[3] })
	for _, sg := range []int{1, 2, 3, 120, 258, 300, -1} {
		add(func(x *c04Cell) { x.Segment = sg })
	}
	add(func(x *c04Cell) { x.Segment = 40; x.SameConn = true; x.IDKind = "124bytes" })
	for _, bf := range []string{"abort-after-M1", "abort-after-M3", "rejected-M5", "rejected-verify"} {
		add(func(x *c04Cell) { x.Before = bf })
	}
	add(func(x *c04Cell) { x.Before = "rejected-verify"; x.SameConn = true })
	add(func(x *c04Cell) { x.Peer = "link-local" })
	add(func(x *c04Cell) { x.Peer = "link-local"; x.SameConn = true; x.IDKind = "utf8" })
	add(func(x *c04Cell) { x.RePair = true })
	for _, n := range []int{12, 60, 150} {
		add(func(x *c04Cell) { x.Bridged = n })
	}
	add(func(x *c04Cell) { x.Bridged = 24; x.SameConn = true; x.Restart = true })
	add(func(x *c04Cell) { x.RePair = true; x.SameConn = true; x.IDKind = "utf8" })
	if thorough {
		// the full cross product of the smaller dimensions
		for _, p := range pins[:4] {
			for _, i := range ids {
				for _, e := range ephs {
					for _, r := range []int{0, 1024, 1025, 4097} {
						cells = append(cells, c04Cell{Pin: p, IDKind: i, KeySeed: "k2", EphSeed: e, ReqSize: r, Restart: r == 1025, SameConn: r == 1024})
					}
				}
			}
		}
		for _, i := range ids {
			cells = append(cells, c04Cell{Pin: pins[1], IDKind: i, KeySeed: "k3", EphSeed: "e2", WrongPin: true})
			cells = append(cells, c04Cell{Pin: pins[1], IDKind: i, KeySeed: "k3", EphSeed: "e2", SRP: "A-leading-zero"})
			cells = append(cells, c04Cell{Pin: pins[1], IDKind: i, KeySeed: "k3", EphSeed: "e2", SRP: "S-leading-zero", Restart: true})
		}
	}
	return cells
}

func c04Run(c *fw.Ctx) {
	{
		interfRun(c, "C04") // statement-level interleavings of operations on shared / disjoint objects (subprocess)
	}
	cells := c04Cells(c.Thorough())
	for i, cell := range cells {
		if !c.Mine(i) {
			continue
		}
		if i < 3 {
			c.Sample(cell)
		}
		c04Exec(c, cell)
	}
	// the B-leading-zero cell: B is drawn by the accessory from crypto/rand.Reader, which is steered for this cell
	if c.Mine(len(cells)) {
		c04Exec(c, c04Cell{Pin: "00102003", IDKind: "uuid", KeySeed: "k1", EphSeed: "e1", SRP: "B-leading-zero"})
	}
	if c.Thorough() && c.Mine(len(cells)+1) {
		c04Exec(c, c04Cell{Pin: "99999998", IDKind: "utf8", KeySeed: "k2", EphSeed: "highbit", SRP: "B-leading-zero", Restart: true})
	}
}

func init() {
	fw.Register(&fw.Check{
		ID:    "C04",
		Level: "exploration",
		Rule:  "an independent controller (internal/refctl, no hc import) runs pair-setup, pair-verify and encrypted requests against the real transport for every cell of an explicit input-partition grid: 9 setup codes (default, extremes, adjacent to every trivial code) × controller identifiers {UUID, 1 byte, 63, 64 bytes, multi-byte UTF-8} × 3 Ed25519 identities × X25519 keys incl. one with the high bit set × request sizes {small, 1023, 1024, 1025, 2048, 2049, 4097 bytes} × {fresh, restarted} accessory × {same, new} connection, plus one cell per code-visible shortcut: SRP A and S with a leading zero byte (found by deterministic search), accessory B with a leading zero byte (crypto/rand.Reader steered to a stream found by deterministic search), wrong setup code (must give TLV error 2, store unchanged), a wrong-code attempt followed by the right code on the same connection. quick: one-factor-at-a-time around the base cell; thorough: cross product of the small dimensions. The controller verifies every proof/signature/key the accessory produces. distinct_nontrivial = distinct cells completed Added cells: identifiers of 96, 97 and 124 bytes (the longest with a legal entity file name); every pairing request body delivered in two TCP segments cut at 1, 2, 3, 40, 120, 258, 300 bytes and one byte before its end; a second pair-setup of the same identifier with a new key pair (if the accessory completes it, the new key verifies and the replaced one does not); after M6 the listed entities are exactly the accessory and the controller; bridges with 12, 24, 60 and 150 more accessories (encrypted answers of about 20, 40, 80 and 200 kB: the attribute database and a read of four characteristics of every accessory in one request); a restart on the same storage with another setup code, after which a second controller pairs with the new code; a second pair-verify on the connection that is already encrypted, followed by requests under the new keys.",
		Run:   c04Run,
		Replay: func(c *fw.Ctx, raw json.RawMessage) {
			var cell c04Cell
			json.Unmarshal(raw, &cell)
			c04Exec(c, cell)
		},
		Budget:      func(string) time.Duration { return 15 * time.Minute },
		Assumptions: []string{"the quantifier over all codes/keys/identities is covered only through the branches visible in the code (lengths, leading zeros, fragment and frame boundaries); cryptographic values are otherwise opaque bytes to hc", "SRP values are hashed in minimal length (leading zeros stripped) in M1/M2/K, which is what the accessory's SRP library and Apple's ADK do"},
	})
}

// c04LinkLocal returns a link-local IPv6 address of this host with its zone ("fe80::1%eth0"), or "".
func c04LinkLocal() string {
	ifs, err := net.Interfaces()
	if err != nil {
		return ""
	}
	for _, ifc := range ifs {
		if ifc.Flags&net.FlagUp == 0 || ifc.Flags&net.FlagLoopback != 0 {
			continue
		}
		addrs, _ := ifc.Addrs()
		for _, a := range addrs {
			if ipn, ok := a.(*net.IPNet); ok && ipn.IP.To4() == nil && ipn.IP.IsLinkLocalUnicast() {
				return ipn.IP.String() + "%" + ifc.Name
			}
		}
	}
	return ""
}
