// Package c08 is the C08 check (concurrent writers never corrupt the encrypted stream). It is compiled only
// with the sync-shim overlay (see run.sh / cmd/mkoverlay) into cmd/vsched.
package c08

import (
	"bytes"
	gocontext "context"
	"encoding/json"
	"fmt"
	"net"
	"os"
	"os/exec"
	"path/filepath"
	"strings"
	gosync "sync"
	"sync/atomic"
	"time"

	"github.com/brutella/hc"
	"github.com/brutella/hc/accessory"
	"github.com/brutella/hc/characteristic"
	hccrypto "github.com/brutella/hc/crypto"
	"github.com/brutella/hc/hap"
	hchttp "github.com/brutella/hc/hap/http"
	hclog "github.com/brutella/hc/log"
	"github.com/brutella/hc/verifshim/vsync"
	"github.com/brutella/hc/verifshim/vyield"

	"verif/internal/dlcheck"
	"verif/internal/fw"
	"verif/internal/refctl"
	"verif/internal/sched"
)

type addr string

func (a addr) Network() string { return "fake" }
func (a addr) String() string  { return string(a) }

// wireConn records every socket Write as one wire record. point (if set) is called before the write becomes
// visible — the scheduling point "socket write".
type wireConn struct {
	mu    gosync.Mutex
	wire  [][]byte
	point func()
	// slow: the peer stalls in the middle of every socket write (second scheduling point); a write deadline that
	// somebody arms on the connection meanwhile expires for the write in flight, which then fails after its first half
	slow     bool
	deadline int // number of non-zero SetWriteDeadline calls so far
	// incoming ciphertext, delivered one piece per socket Read; the arrival of each piece is a scheduling point
	in     [][]byte
	remote string
	closed bool // after Close nothing more reaches the peer: writes fail, a stalled write loses its second half
	// delivered: an incoming piece has been handed to the reader; early[i]: wire record i was written before that
	delivered bool
	early     []bool
	// hold: the peer does not take the bytes of a write before this is true (it is busy sending its own request and
	// drains nothing meanwhile); wait blocks the writing thread in the scheduler until then
	hold func() bool
	wait func(func() bool)
}

// stallConn is a socket whose FIRST write takes a long (real) time.
type stallConn struct {
	wireConn
	stall time.Duration
	n     int32
}

func (f *stallConn) Write(b []byte) (int, error) {
	if atomic.AddInt32(&f.n, 1) == 1 {
		time.Sleep(f.stall)
	}
	return f.wireConn.Write(b)
}

type timeoutError struct{}

func (timeoutError) Error() string   { return "i/o timeout" }
func (timeoutError) Timeout() bool   { return true }
func (timeoutError) Temporary() bool { return true }

func (f *wireConn) Write(b []byte) (int, error) {
	if f.point != nil {
		f.point()
	}
	f.mu.Lock()
	if f.closed {
		f.mu.Unlock()
		return 0, net.ErrClosed
	}
	f.mu.Unlock()
	if f.slow && len(b) > 1 && f.point != nil {
		half := len(b) / 2
		f.mu.Lock()
		f.wire = append(f.wire, append([]byte{}, b[:half]...))
		armedBefore := f.deadline
		f.mu.Unlock()
		f.point() // the peer stalls here
		if f.hold != nil && f.wait != nil {
			f.wait(f.hold) // … and, in these scenarios, until it has sent what it is sending
		}
		f.mu.Lock()
		defer f.mu.Unlock()
		if f.closed {
			return half, net.ErrClosed
		}
		if f.deadline != armedBefore {
			return half, timeoutError{}
		}
		f.wire = append(f.wire, append([]byte{}, b[half:]...))
		return len(b), nil
	}
	f.mu.Lock()
	f.wire = append(f.wire, append([]byte{}, b...))
	f.early = append(f.early, !f.delivered)
	f.mu.Unlock()
	return len(b), nil
}
func (f *wireConn) Read(b []byte) (int, error) {
	if f.point != nil {
		f.point() // the next piece arrives (or the reader is woken) at a moment the scheduler chooses
	}
	f.mu.Lock()
	defer f.mu.Unlock()
	if len(f.in) == 0 {
		return 0, timeoutError{}
	}
	f.delivered = true
	n := copy(b, f.in[0])
	if n == len(f.in[0]) {
		f.in = f.in[1:]
	} else {
		f.in[0] = f.in[0][n:]
	}
	return n, nil
}
func (f *wireConn) Close() error {
	if f.point != nil {
		f.point() // the socket is closed at a moment the scheduler chooses
	}
	f.mu.Lock()
	f.closed = true
	f.mu.Unlock()
	return nil
}
func (f *wireConn) LocalAddr() net.Addr { return addr("10.0.0.1:1") }
func (f *wireConn) RemoteAddr() net.Addr {
	if f.remote != "" {
		return addr(f.remote)
	}
	return addr("10.0.0.2:2")
}
func (f *wireConn) SetDeadline(time.Time) error     { return nil }
func (f *wireConn) SetReadDeadline(time.Time) error { return nil }
func (f *wireConn) SetWriteDeadline(t time.Time) error {
	if !t.IsZero() {
		f.mu.Lock()
		f.deadline++
		f.mu.Unlock()
	}
	return nil
}

var secret = [32]byte{7, 7, 7, 1, 2, 3}

// keepAlive as a writer's only "length" makes that thread a hap.KeepAlive round instead of plain writes.
const keepAlive = -2

// notify as a writer's only "length": the thread changes a characteristic value through the application API of a
// real (not started) hc IP transport; the transport's own notifyListener then writes the EVENT to the subscribed
// connection. Scenarios containing it use the transport's context and a slow socket.
const notify = -3

// read as a thread's only "length": the thread is the connection's READER (net/http's goroutine): it reads one
// incoming two-frame request whose ciphertext arrives in pieces (inside the length field, inside the ciphertext,
// at the frame boundary). Scenarios containing it use a slow socket, so that writes are in flight while frames
// are opened and the other way round.
const read = -4

// otherConn as a thread's only "length": the thread writes a 1500-byte message on ANOTHER connection of the
// same accessory (own session, own slow socket).
const otherConn = -5

// closer as a thread's only "length": the thread closes the connection (what net/http does after a read error and
// what the transport does for every connection when it stops) while the others write. The peer may then miss
// payloads, but everything that reaches it before the socket is closed still has to decrypt in order: nothing
// unencrypted, no counter out of order.
const closer = -6

// notifyLong as a thread's only "length": like notify, for a string characteristic set to 3000 bytes — an EVENT of
// four frames, longer than the 2048-byte pieces hc cuts response bodies into.
const notifyLong = -7

// switching as a thread's only "length": the connection has just completed pair-verify — its session holds the new
// keys but has not switched yet. This thread is the connection's reader: it reads the controller's first encrypted
// request (which switches the session) and then writes the response. The other threads of such a scenario write
// while that happens (the plain pair-verify response still in the socket, a keep-alive). Seen from the accessory, the
// wire is then: messages in plain text, and from some point on frames — never plain text after the first frame.
const switching = -8

// response: a response as net/http hands it to the connection — announced (BeginResponse), written in two pieces,
// finished (EndResponse). Its pieces must reach the peer as one uninterrupted message, and what other writers have for
// the connection in the meantime comes after it, under the counters of its arrival position.
const response = -9

// readStalled: like read, but the peer takes nothing of what the accessory writes before its own request has been
// delivered to the accessory's reader: a reader that needs anything a stalled writer holds never gets there.
const readStalled = -11

// responses: two such responses one after the other (what was kept during the first must not land inside the second)
const responses = -10

func has(writers [][]int, kind int) bool {
	for _, w := range writers {
		if len(w) == 1 && w[0] == kind {
			return true
		}
	}
	return false
}

var secret2 = [32]byte{9, 9, 9, 4, 5, 6}

func requestPlain() []byte {
	b := payload(9, 9, 1500)
	copy(b, "PUT /characteristics HTTP/1.1\r\n")
	return b
}

func hasNotify(writers [][]int) bool {
	for _, w := range writers {
		if len(w) == 1 && (w[0] == notify || w[0] == notifyLong) {
			return true
		}
	}
	return false
}

func keepAlivePayload() []byte {
	var b bytes.Buffer
	hap.NewNotification(new(bytes.Buffer)).Write(&b)
	return hap.FixProtocolSpecifier(b.Bytes())
}

// Case is one scenario + schedule.
type Case struct {
	Writers  [][]int `json:"writers"`  // per writer goroutine: payload lengths written in order
	Schedule []int   `json:"schedule"` // choice at each scheduling point
	Bound    int     `json:"bound"`
	Prior    int     `json:"prior,omitempty"` // one-byte writes on the connection before the threads start
}

func payload(w, i, n int) []byte {
	b := make([]byte, n)
	for k := range b {
		b[k] = byte('A' + w*7 + i*3 + k%5)
	}
	// shaped like the messages hc writes: response / EVENT / keep-alive
	hdr := []string{"HTTP/1.1 200 OK\r\n", "EVENT/1.0 200 OK\r\n", "HTTP/1.1 204 No Content\r\n"}[(w+i)%3]
	copy(b, hdr)
	b[len(b)-1] = byte('0' + w*4 + i) // unique last byte per (writer, write)
	return b
}

// setup builds a real hap.Connection with a real secure session over conn.
// onceContext lets a KeepAlive loop send exactly one round: the first ActiveConnections call cancels the loop's
// context, later calls see no connections.
type onceContext struct {
	hap.Context
	cancel func()
	used   bool
}

func (o *onceContext) ActiveConnections() []net.Conn {
	if o.used {
		return nil
	}
	o.used = true
	o.cancel()
	return o.Context.ActiveConnections()
}

var lastCtx hap.Context

func setup(conn net.Conn) *hap.Connection {
	ctx := hap.NewContextForSecuredDevice(nil)
	lastCtx = ctx
	return setupOn(ctx, conn, secret)
}

func setupOn(ctx hap.Context, conn net.Conn, secret [32]byte) *hap.Connection {
	c := hap.NewConnection(conn, ctx)
	cs, err := hccrypto.NewSecureSessionFromSharedKey(secret)
	if err != nil {
		panic(err)
	}
	sess := ctx.GetSessionForConnection(conn)
	sess.SetCryptographer(cs)
	sess.Decrypter() // installs the cryptographer (as the first decrypted read does)
	return c
}

// setupTransport builds a real hc IP transport (not started: no network), registers conn in ITS context with a
// real secure session and subscribes the session to the switch.
func setupTransport(c *fw.Ctx, conn net.Conn, pending bool) (*hap.Connection, *accessory.Switch, error) {
	sw := accessory.NewSwitch(accessory.Info{Name: "C08Switch"})
	longChar = characteristic.NewString("F0D1")
	longChar.Perms = characteristic.PermsAll()
	longChar.SetValue("")
	sw.Switch.AddCharacteristic(longChar.Characteristic)
	longAcc = sw.Accessory
	dir := filepath.Join(c.Scratch, "c08-transport")
	t, err := hc.NewIPTransport(hc.Config{StoragePath: dir}, sw.Accessory)
	if err != nil {
		return nil, nil, err
	}
	ctx := t.VerifContext()
	lastCtx = ctx
	hc2 := hap.NewConnection(conn, ctx)
	cs, err := hccrypto.NewSecureSessionFromSharedKey(secret)
	if err != nil {
		return nil, nil, err
	}
	sess := ctx.GetSessionForConnection(conn)
	sess.SetCryptographer(cs)
	if pending {
		// the connection has just completed pair-verify: the keys are there, the switch has not happened, and it has
		// not subscribed to anything yet
		return hc2, sw, nil
	}
	sess.Decrypter()
	sess.Subscribe(sw.Switch.On.Characteristic)
	sess.Subscribe(longChar.Characteristic)
	return hc2, sw, nil
}

// notifyPayload is the plaintext of the EVENT for the switch's current value (built with hc's own helper: the
// oracle is about framing, ordering and integrity on the wire, not about the EVENT's wording).
var longChar *characteristic.String
var longAcc *accessory.Accessory

func longValue() string { return strings.Repeat("long-event-", 273)[:3000] }

func notifyLongPayload() []byte {
	resp, err := hap.NewCharacteristicNotification(longAcc, longChar.Characteristic)
	if err != nil {
		return nil
	}
	var b bytes.Buffer
	resp.Write(&b)
	return hap.FixProtocolSpecifier(b.Bytes())
}

func notifyPayload(sw *accessory.Switch, v bool) []byte {
	resp, err := hap.NewCharacteristicNotification(sw.Accessory, sw.Switch.On.Characteristic)
	if err != nil {
		return nil
	}
	var b bytes.Buffer
	resp.Write(&b)
	return hap.FixProtocolSpecifier(b.Bytes())
}

// judge applies the oracle to a captured wire.
func judge(wire [][]byte, want [][]byte) (sym, desc string) { return judgeKey(secret, wire, want) }

func judgeKey(secret [32]byte, wire [][]byte, want [][]byte) (sym, desc string) {
	return judgeFrom(secret, wire, want, 0, false)
}

// judgeFrom: start = frame counter of the first frame on the wire; closing = the connection was closed meanwhile:
// the wire may end inside a frame and payloads may be missing, everything else is as strict as before.
func judgeFrom(secret [32]byte, wire [][]byte, want [][]byte, start uint64, closing bool) (sym, desc string) {
	a2c, _ := refctl.SessionKeys(secret[:])
	var stream []byte
	for _, w := range wire {
		stream = append(stream, w...)
	}
	ctr := start
	pts, err := refctl.OpenFrames(a2c, &ctr, stream)
	if err != nil && closing && strings.HasPrefix(err.Error(), "truncated") {
		// the socket was closed in the middle of a frame: what is left over must be the beginning of the frame that
		// the reference framing produces at this counter for a 1024-byte piece of one of the payloads
		used := 0
		for _, p := range pts {
			used += 2 + len(p) + 16
		}
		tail := stream[used:]
		ok := false
		for _, p := range want {
			for off := 0; off < len(p) && !ok; off += 1024 {
				end := off + 1024
				if end > len(p) {
					end = len(p)
				}
				k := ctr
				ok = bytes.HasPrefix(refctl.Frames(a2c, &k, p[off:end]), tail)
			}
		}
		if !ok {
			return "undecryptable", fmt.Sprintf("the %d bytes that reached the peer after frame %d, before the socket was closed, are not the beginning of an encrypted frame of any payload (they begin with %q)", len(tail), ctr, string(trunc(tail, 24)))
		}
		err = nil
	}
	if err != nil {
		return "undecryptable", fmt.Sprintf("frame %d on the wire does not decrypt with the counter of its arrival position (%v): a counter was emitted out of order or reused", ctr, err)
	}
	plain := bytes.Join(pts, nil)
	// the decrypted stream must be a concatenation of whole payloads (backtracking: payloads may share prefixes)
	var match func(rest []byte, left [][]byte) ([][]byte, bool)
	match = func(rest []byte, left [][]byte) ([][]byte, bool) {
		if len(rest) == 0 {
			return left, true
		}
		for i, p := range left {
			if bytes.HasPrefix(rest, p) {
				nl := append(append([][]byte{}, left[:i]...), left[i+1:]...)
				if l, ok := match(rest[len(p):], nl); ok {
					return l, true
				}
			}
		}
		return nil, false
	}
	if closing {
		// whole payloads, then possibly the beginning of one more
		var matchPrefix func(rest []byte, left [][]byte) bool
		matchPrefix = func(rest []byte, left [][]byte) bool {
			if len(rest) == 0 {
				return true
			}
			for i, p := range left {
				if bytes.HasPrefix(rest, p) {
					nl := append(append([][]byte{}, left[:i]...), left[i+1:]...)
					if matchPrefix(rest[len(p):], nl) {
						return true
					}
				} else if bytes.HasPrefix(p, rest) {
					return true
				}
			}
			return false
		}
		if !matchPrefix(plain, want) {
			return "interleaved", "what reached the peer before the connection was closed is not a sequence of whole payloads (plus the beginning of one): frames of different writes are interleaved or a payload is damaged"
		}
		return "", ""
	}
	left, ok := match(plain, want)
	if !ok {
		return "interleaved", "the decrypted stream is not a sequence of whole payloads: frames of different writes are interleaved or a payload is damaged"
	}
	if len(left) > 0 {
		return "missing", fmt.Sprintf("%d payload(s) never reached the wire", len(left))
	}
	return "", ""
}

// judgeSwitch: the wire of a connection that switches to encryption while writers are active. Every socket write is
// either one of the payloads in plain text or frames; once a frame has been written no plain text follows; the
// frames decrypt in order from counter 0 into whole payloads; every payload got out one way or the other.
func judgeSwitch(wire [][]byte, early []bool, want [][]byte) (sym, desc string) {
	left := append([][]byte{}, want...)
	take := func(p []byte) bool {
		for i, w := range left {
			if bytes.Equal(w, p) {
				left = append(left[:i], left[i+1:]...)
				return true
			}
		}
		return false
	}
	var cipher []byte
	encrypted := false
	for i, rec := range wire {
		if !encrypted && take(rec) {
			continue // a whole payload in plain text, before any frame
		}
		if i < len(early) && early[i] {
			// nothing the controller encrypted has arrived yet: the session cannot have switched, so this — e.g. the
			// response to pair-verify itself — has to go out in plain text
			return "encrypted-before-switch", fmt.Sprintf("socket write %d went out as frames although none of the controller's encrypted bytes had arrived yet: the session was switched by something other than the connection's own read", i)
		}
		if encrypted {
			for _, w := range want {
				if bytes.Equal(w, rec) {
					return "plaintext-after-switch", fmt.Sprintf("socket write %d is a message in plain text (%q…) although frames of the encrypted session were written before it", i, string(trunc(rec, 24)))
				}
			}
		}
		encrypted = true
		cipher = append(cipher, rec...)
	}
	a2c, _ := refctl.SessionKeys(secret[:])
	var ctr uint64
	pts, err := refctl.OpenFrames(a2c, &ctr, cipher)
	if err != nil {
		return "undecryptable", fmt.Sprintf("after the switch frame %d does not decrypt with the counter of its arrival position (%v)", ctr, err)
	}
	plain := bytes.Join(pts, nil)
	for len(plain) > 0 {
		ok := false
		for _, w := range left {
			if bytes.HasPrefix(plain, w) {
				plain = plain[len(w):]
				take(w)
				ok = true
				break
			}
		}
		if !ok {
			return "interleaved", "after the switch the decrypted stream is not a sequence of whole payloads"
		}
	}
	if len(left) > 0 {
		return "missing", fmt.Sprintf("%d payload(s) never reached the wire", len(left))
	}
	return "", ""
}

func trunc(b []byte, n int) []byte {
	if len(b) > n {
		return b[:n]
	}
	return b
}

func wireOrder(wire [][]byte) string {
	var s []string
	for _, w := range wire {
		s = append(s, fmt.Sprint(len(w)))
	}
	return strings.Join(s, ",")
}

// execute runs one schedule of a scenario.
func execute(c *fw.Ctx, writers [][]int, prefix []int, bound int, prior int) []sched.PointRec {
	S := &sched.Sched{}
	vsync.HookLock = func(m *vsync.Mutex) bool {
		if !S.Active() {
			return false
		}
		S.Point(func() bool { return !m.Held })
		m.Held = true
		return true
	}
	vsync.HookUnlock = func(m *vsync.Mutex) bool {
		if !S.Active() {
			return false
		}
		m.Held = false
		return true
	}
	vsync.HookRLock = func(m *vsync.RWMutex, write bool) bool {
		if !S.Active() {
			return false
		}
		if write {
			S.Point(func() bool { return !m.Writer && m.Readers == 0 })
			m.Writer = true
		} else {
			S.Point(func() bool { return !m.Writer })
			m.Readers++
		}
		return true
	}
	vsync.HookActive = func() bool { return S.Active() }
	// a goroutine the library starts while a managed thread runs is a thread of the explorer, too
	vyield.GoHook = func(fn func()) {
		if S.Active() {
			S.Spawn(fn)
			return
		}
		go fn()
	}
	vsync.HookCondWait = func(cd *vsync.Cond, w *vsync.CondWaiter) bool {
		S.Point(func() bool { return w.Woken })
		return true
	}
	vsync.HookRUnlock = func(m *vsync.RWMutex, write bool) bool {
		if !S.Active() {
			return false
		}
		if write {
			m.Writer = false
		} else {
			m.Readers--
		}
		return true
	}
	fc := &wireConn{}
	var conn *hap.Connection
	var sw *accessory.Switch
	if hasNotify(writers) {
		fc.slow = !has(writers, switching)
		var err error
		conn, sw, err = setupTransport(c, fc, has(writers, switching))
		if err != nil {
			c.Infra("transport scenario: " + err.Error())
			return nil
		}
	} else if has(writers, switching) {
		ctx := hap.NewContextForSecuredDevice(nil)
		lastCtx = ctx
		conn = hap.NewConnection(fc, ctx)
		cs, err := hccrypto.NewSecureSessionFromSharedKey(secret)
		if err != nil {
			panic(err)
		}
		ctx.GetSessionForConnection(fc).SetCryptographer(cs) // pending: the first decrypted read switches
	} else {
		conn = setup(fc)
	}
	fc.point = func() {
		if S.Active() {
			S.Point(nil)
		}
	}
	if has(writers, closer) {
		fc.slow = true
	}
	// a connection that has been in use: `prior` one-byte messages were written before (not scheduled: nothing else runs)
	for i := 0; i < prior; i++ {
		conn.Write([]byte{'.'})
	}
	if prior > 0 {
		fc.wire = nil
	}
	var fc2 *wireConn
	var conn2 *hap.Connection
	if has(writers, otherConn) {
		fc.slow = true
		fc2 = &wireConn{slow: true, point: fc.point, remote: "10.0.0.3:3"}
		conn2 = setupOn(lastCtx, fc2, secret2)
	}
	var reqPlain, reqGot []byte
	var reqErr error
	if has(writers, switching) {
		reqPlain = requestPlain()
		_, c2a := refctl.SessionKeys(secret[:])
		var rc uint64
		ct := refctl.Frames(c2a, &rc, reqPlain)
		fc.in = append(fc.in, ct[:600], ct[600:])
	}
	if has(writers, readStalled) {
		fc.hold = func() bool { return len(reqGot) >= len(requestPlain()) || reqErr != nil }
		fc.wait = func(cond func() bool) {
			if S.Active() {
				S.Point(cond)
			}
		}
	}
	if has(writers, read) || has(writers, readStalled) {
		fc.slow = true
		reqPlain = requestPlain()
		_, c2a := refctl.SessionKeys(secret[:])
		var rc uint64
		ct := refctl.Frames(c2a, &rc, reqPlain)
		for _, cut := range [][2]int{{0, 1}, {1, 600}, {600, 1042}, {1042, 1044}, {1044, len(ct)}} {
			fc.in = append(fc.in, ct[cut[0]:cut[1]])
		}
	}
	var want [][]byte
	var bodies []func()
	hctx := lastCtx
	for w, lens := range writers {
		w, lens := w, lens
		if len(lens) == 1 && lens[0] == notify {
			bodies = append(bodies, func() { sw.Switch.On.SetValue(true) })
			continue
		}
		if len(lens) == 1 && lens[0] == notifyLong {
			bodies = append(bodies, func() { longChar.SetValue(longValue()) })
			continue
		}
		if len(lens) == 1 && (lens[0] == read || lens[0] == readStalled) {
			bodies = append(bodies, func() {
				buf := make([]byte, 4096)
				for len(reqGot) < len(reqPlain) && reqErr == nil {
					n, err := conn.Read(buf)
					reqGot = append(reqGot, buf[:n]...)
					reqErr = err
				}
			})
			continue
		}
		if len(lens) == 1 && lens[0] == otherConn {
			bodies = append(bodies, func() { conn2.Write(payload(8, 8, 1500)) })
			continue
		}
		if len(lens) == 1 && lens[0] == switching {
			want = append(want, payload(7, 7, 300))
			bodies = append(bodies, func() {
				buf := make([]byte, 4096)
				for len(reqGot) < len(reqPlain) && reqErr == nil {
					n, err := conn.Read(buf)
					reqGot = append(reqGot, buf[:n]...)
					reqErr = err
				}
				conn.Write(payload(7, 7, 300)) // the response to that request
			})
			continue
		}
		if len(lens) == 1 && lens[0] == closer {
			bodies = append(bodies, func() { conn.Close() })
			continue
		}
		if len(lens) == 1 && lens[0] == responses {
			one, two := payload(9, 9, 1500), payload(9, 10, 1300)
			want = append(want, one, two)
			bodies = append(bodies, func() {
				conn.BeginResponse()
				conn.Write(one[:1100])
				conn.Write(one[1100:])
				conn.EndResponse()
				conn.BeginResponse()
				conn.Write(two[:1100])
				conn.Write(two[1100:])
				conn.EndResponse()
			})
			continue
		}
		if len(lens) == 1 && lens[0] == response {
			whole := payload(9, 9, 1500)
			want = append(want, whole)
			bodies = append(bodies, func() {
				conn.BeginResponse()
				conn.Write(whole[:1100])
				conn.Write(whole[1100:])
				conn.EndResponse()
			})
			continue
		}
		if len(lens) == 1 && lens[0] == keepAlive {
			// a keep-alive round sent by hap.KeepAlive itself (one round, see onceContext)
			want = append(want, keepAlivePayload())
			bodies = append(bodies, func() {
				kctx, cancel := gocontext.WithCancel(gocontext.Background())
				hap.NewKeepAlive(time.Nanosecond, &onceContext{Context: hctx, cancel: cancel}).Start(kctx)
			})
			continue
		}
		for i, n := range lens {
			want = append(want, payload(w, i, n))
		}
		bodies = append(bodies, func() {
			for i, n := range lens {
				conn.Write(payload(w, i, n))
			}
		})
	}
	out := S.Run(prefix, bodies)
	if sw != nil {
		if has(writers, notify) && !has(writers, switching) { // (a connection that has not switched has not subscribed)
			want = append(want, notifyPayload(sw, true)) // the value is true now
		}
		if has(writers, notifyLong) {
			want = append(want, notifyLongPayload())
		}
	}
	vsync.HookLock, vsync.HookUnlock, vsync.HookRLock, vsync.HookRUnlock = nil, nil, nil, nil
	vsync.HookCondWait, vsync.HookActive = nil, nil
	vyield.GoHook = nil
	c.Eval(1)
	c.State(1)
	c.Trace(1)
	c.Transition(len(out.Points))
	cas := Case{Writers: writers, Schedule: sched.Choices(out.Points), Bound: bound, Prior: prior}
	scen := fmt.Sprint(writers)
	if prior > 0 {
		scen += fmt.Sprintf("after-%d-writes", prior)
	}
	switch {
	case out.Stuck:
		c.NotExhaustive("a writer blocked on a primitive the scheduler does not model (scenario " + scen + "); the free-running pass still applies")
		return out.Points
	case out.Deadlock:
		c.Report("deadlock/"+scen, "all writers are blocked: no payload can reach the peer", cas)
		return out.Points
	}
	c.Class(scen + ":" + wireOrder(fc.wire))
	if has(writers, switching) {
		if sym, desc := judgeSwitch(fc.wire, fc.early, want); sym != "" {
			c.Report(sym+"/"+scen, desc, cas)
		}
	} else if sym, desc := judgeFrom(secret, fc.wire, want, uint64(prior), has(writers, closer)); sym != "" {
		c.Report(sym+"/"+scen, desc, cas)
	}
	if fc2 != nil {
		if sym, desc := judgeKey(secret2, fc2.wire, [][]byte{payload(8, 8, 1500)}); sym != "" {
			c.Report(sym+"/other-connection/"+scen, "on the other connection: "+desc, cas)
		}
	}
	if reqPlain != nil && (reqErr != nil || !bytes.Equal(reqGot, reqPlain)) {
		c.Report("incoming-request-damaged/"+scen, fmt.Sprintf("while writers were active the connection's reader did not get the peer's well-formed two-frame request intact: %d of %d bytes, error %v", len(reqGot), len(reqPlain), reqErr), cas)
	}
	return out.Points
}

type scenario struct {
	writers [][]int
	bound   int // preemption bound, -1 = unbounded
	prior   int // writes on the connection before the scenario starts
}

func scenarios(thorough bool) []scenario {
	s := []scenario{
		{[][]int{{10}, {1500}}, -1, 0},
		{[][]int{{300}, {150}}, -1, 0},
		{[][]int{{1500}, {2100}}, -1, 0},
		{[][]int{{300, 150}, {1500, 40}}, 2, 0},
		{[][]int{{300}, {150}, {1500}}, 2, 0},
		{[][]int{{keepAlive}, {1500}}, -1, 0},
		{[][]int{{300}, {keepAlive}, {1500}}, 2, 0},
		{[][]int{{10}, {20}, {1500}}, -1, 0},
		{[][]int{{1500}, {notify}}, -1, 0},
		{[][]int{{300}, {notify}, {40}}, 2, 0},
		{[][]int{{1500}, {notifyLong}}, -1, 0},
		{[][]int{{300}, {notifyLong}, {notify}}, 2, 0},
		{[][]int{{1500}, {read}}, -1, 0},
		{[][]int{{300}, {read}, {40}}, 2, 0},
		{[][]int{{1500}, {readStalled}}, -1, 0},
		{[][]int{{300}, {readStalled}, {notify}}, 2, 0},
		{[][]int{{1500}, {otherConn}}, -1, 0},
		{[][]int{{300}, {otherConn}, {read}}, 2, 0},
		// a connection that has carried 255 / 65535 writes before (where a narrow counter of a lock or a queue wraps)
		{[][]int{{10}, {1500}}, -1, 255},
		{[][]int{{10}, {1500}}, -1, 65535},
		// the connection is closed while writers are active
		// the connection switches to encryption (first encrypted request after pair-verify) while writers are active
		{[][]int{{switching}, {300}}, -1, 0},
		{[][]int{{switching}, {300}, {40}}, 2, 0},
		// … and while the application changes a value (the transport's fan-out walks over all connections)
		{[][]int{{switching}, {300}, {notify}}, 2, 0},
		// a response in two pieces while the application changes a value / a keep-alive is due / another writer writes
		{[][]int{{response}, {notify}}, -1, 0},
		// (no third writer that calls Write directly: responses are written by the connection's own handler only; everybody
		// else goes through WriteMessage)
		{[][]int{{response}, {keepAlive}}, -1, 0},
		{[][]int{{responses}, {notify}}, 3, 0},
		{[][]int{{responses}, {keepAlive}}, 3, 0},
		{[][]int{{response}, {notifyLong}, {notify}}, 2, 0},
		{[][]int{{1500}, {closer}}, -1, 0},
		{[][]int{{300}, {40}, {closer}}, 2, 0},
		{[][]int{{300}, {notify}, {closer}}, 2, 0},
	}
	if thorough {
		s = append(s,
			scenario{[][]int{{300, 150}, {1500, 40}}, -1, 0},
			scenario{[][]int{{300}, {150}, {1500}}, -1, 0},
			scenario{[][]int{{300, 1500}, {150, 2100}, {40}}, 3, 0},
			scenario{[][]int{{300, 40}, {150, 60}, {1500, 80}}, 3, 0},
			scenario{[][]int{{10}, {20}, {30}, {1500}}, 2, 0},
			scenario{[][]int{{300, 150, 1500}, {40, 2100, 60}}, -1, 0},
			scenario{[][]int{{10}, {20}, {30}, {1500}}, -1, 0},
			scenario{[][]int{{300, 1500}, {150, 2100}, {40}}, 4, 0},
			scenario{[][]int{{300, 40}, {150, 60}, {1500, 80}}, 4, 0},
			scenario{[][]int{{1}, {2}, {3}, {4}, {1500}}, 3, 0},
			scenario{[][]int{{10}, {1500}}, -1, 256},
			scenario{[][]int{{10}, {1500}}, -1, 65534},
			scenario{[][]int{{10}, {1500}}, -1, 65536},
			scenario{[][]int{{10}, {20}, {1500}}, 2, 65535},
			scenario{[][]int{{300}, {40}, {closer}}, -1, 0},
			scenario{[][]int{{300}, {notify}, {closer}}, -1, 0},
			scenario{[][]int{{300}, {keepAlive}, {closer}}, 2, 0},
		)
	}
	return s
}

// interfPass runs the statement-level exploration (binary with a scheduling point before every statement of hc's
// packages) of the pairs "two writers on one connection", "a writer and the reader", "writers on two connections",
// "a write that notifies another connection" and files its report under this check.
func interfPass(c *fw.Ctx) {
	exe, _ := os.Executable()
	bin := filepath.Join(filepath.Dir(exe), "vsched-yield")
	if _, err := os.Stat(bin); err != nil {
		bin = filepath.Join(os.Getenv("VERIF_ROOT"), ".build", "vsched-yield")
	}
	if _, err := os.Stat(bin); err != nil {
		c.Note("statement-level interleavings skipped: vsched-yield not built")
		return
	}
	tier := "quick"
	if c.Thorough() {
		tier = "thorough"
	}
	lim := 5 * time.Minute
	if c.Thorough() {
		lim = 18 * time.Minute
	}
	ictx, icancel := gocontext.WithTimeout(gocontext.Background(), lim)
	defer icancel()
	out, err := exec.CommandContext(ictx, bin, "interf", tier, "0", "1", c.Scratch, "C08").CombinedOutput()
	if ictx.Err() != nil {
		c.NotExhaustive("statement-level interleavings: the explorer subprocess did not end within its time limit and was stopped")
		return
	}
	var rep struct {
		Pairs []struct {
			A          string
			Bound      int
			Schedules  int
			Points     int
			Exhaustive bool
		} `json:"pairs"`
		Violations []struct {
			Sig  string          `json:"sig"`
			Desc string          `json:"desc"`
			Case json.RawMessage `json:"case"`
		} `json:"violations"`
		Infra string `json:"infra"`
	}
	found := false
	for _, l := range strings.Split(string(out), "\n") {
		if strings.HasPrefix(l, "INTERF-REPORT ") {
			found = json.Unmarshal([]byte(strings.TrimPrefix(l, "INTERF-REPORT ")), &rep) == nil
		}
	}
	if !found || rep.Infra != "" {
		c.Infra(fmt.Sprintf("statement-level interleavings: %v %s %s", err, rep.Infra, lastLine(string(out))))
		return
	}
	for _, p := range rep.Pairs {
		c.Eval(p.Schedules)
		c.State(p.Schedules)
		c.Trace(p.Schedules)
		c.Transition(p.Points)
		c.Class("statement-level:" + p.A)
		c.Note(fmt.Sprintf("statement-level interleavings of %q: %d schedules, preemption bound %d", p.A, p.Schedules, p.Bound))
		if !p.Exhaustive {
			c.NotExhaustive("statement-level interleavings of " + p.A + ": deadline or un-modelled blocking")
		}
	}
	for _, v := range rep.Violations {
		c.Report(v.Sig, v.Desc, v.Case)
	}
}

func run(c *fw.Ctx) {
	hclog.Info.Disable()
	if c.Shard == 0 {
		interfPass(c)
	}
	if c.Shard == 1%c.NShards {
		// net/http interrupts its background read with a read deadline in the past at the end of every request: if
		// that leaked into the write deadline, an event written at that moment would fail after its counter is spent
		depth := 3
		if c.Thorough() {
			depth = 4
		}
		n := dlcheck.Explore(depth, func(sig, desc string, cas dlcheck.Case) { c.Report(sig, desc, cas) })
		c.Eval(n)
		c.State(n)
		acceptIdentity(c)
		c.Note(fmt.Sprintf("deadline forwarding: %d sequences of SetDeadline/SetReadDeadline/SetWriteDeadline calls (length ≤ %d over 12 symbols)", n, depth))
	}
	sc := scenarios(c.Thorough())
	if c.Shard == c.NShards-1 && c.NShards > 1 {
		racePass(c)
		return
	}
	for i, s := range sc {
		if c.NShards > 1 && i%(c.NShards-1) != c.Shard {
			continue
		}
		n := sched.Explore(s.bound, func(prefix []int) []sched.PointRec {
			return execute(c, s.writers, prefix, s.bound, s.prior)
		}, c.Expired)
		b := "unbounded"
		if s.bound >= 0 {
			b = fmt.Sprintf("preemption bound %d", s.bound)
		}
		c.Note(fmt.Sprintf("scenario %v (after %d earlier writes): %d schedules, %s completed", s.writers, s.prior, n, b))
		if c.Expired() {
			c.NotExhaustive("deadline")
		}
		c.Sample(map[string]interface{}{"writers": s.writers, "bound": s.bound, "schedules": n})
	}
}

// acceptIdentity: responses are written through the object net/http got from the server's Accept, events and keep-alives
// through the object the session holds. The write lock lives in that object — so it has to be ONE object: what Accept
// returns is identical to what the context lists as the connection of the session (a wrapper or a copy would give the
// two kinds of writers two locks). Real listener on the loopback interface, one connection.
func acceptIdentity(c *fw.Ctx) {
	c.Eval(1)
	ctx := hap.NewContextForSecuredDevice(nil)
	var srv *hchttp.Server
	if p := func() (p interface{}) {
		defer func() { p = recover() }()
		srv = hchttp.NewServer(hchttp.Config{Context: ctx, Container: accessory.NewContainer()})
		return nil
	}(); p != nil || srv == nil {
		c.Note(fmt.Sprintf("accept identity: the server could not be created (%v)", p))
		return
	}
	defer srv.Close()
	cl, err := net.Dial("tcp", "127.0.0.1:"+srv.Port())
	if err != nil {
		c.Note("accept identity: " + err.Error())
		return
	}
	defer cl.Close()
	accepted, err := srv.Accept()
	if err != nil {
		c.Note("accept identity: " + err.Error())
		return
	}
	defer accepted.Close()
	held := ctx.ActiveConnections()
	cas := map[string]string{"kind": "accept-identity"}
	switch {
	case len(held) != 1:
		c.Report("accept-identity/sessions", fmt.Sprintf("after one accepted connection the context holds %d sessions", len(held)), cas)
	case held[0] != accepted:
		c.Report("accept-identity/two-objects", fmt.Sprintf("the server hands net/http a %T for an accepted connection while the session (through which events and keep-alives are written) holds another object, a %T: responses and events do not share one write lock", accepted, held[0]), cas)
	}
	c.Class("accept-identity")
}

// racePass runs the same writer bodies free-running in a binary built with -race (no scheduler: the hooks are
// nil, so vsync behaves like sync); a data race report or an oracle failure is a violation.
func racePass(c *fw.Ctx) {
	exe, _ := os.Executable()
	bin := filepath.Join(filepath.Dir(exe), "vsched-race")
	if _, err := os.Stat(bin); err != nil {
		c.Note("free-running -race pass skipped: " + bin + " not built")
		return
	}
	// the pass normally takes a few seconds; writers that block each other forever must not hang the check
	tctx, cancel := gocontext.WithTimeout(gocontext.Background(), 5*time.Minute)
	defer cancel()
	cmd := exec.CommandContext(tctx, bin, "freerun")
	cmd.Env = append(os.Environ(), "GORACE=exitcode=66 halt_on_error=0")
	out, err := cmd.CombinedOutput()
	if tctx.Err() != nil {
		c.Eval(1)
		c.Class("race-pass:hang")
		c.Report("free-running-hang", "free-running concurrent writers (one of them against a peer that stalls for 3.5 s) did not finish within 5 minutes: writers block each other, payloads never reach the peer — last output: "+lastLine(string(out)), Case{Writers: [][]int{{-1}}})
		return
	}
	c.Eval(1)
	c.State(1)
	c.Transition(1)
	s := string(out)
	if strings.Contains(s, "WARNING: DATA RACE") {
		site := ""
		for _, l := range strings.Split(s, "\n") {
			if strings.Contains(l, "github.com/brutella/hc/") && site == "" {
				site = strings.TrimSpace(l)
			}
		}
		c.Class("race-pass:race")
		c.Report("data-race", "the race detector reports a data race between concurrent uses of the connection (writers, its reader, a writer on another connection) at "+site, Case{Writers: [][]int{{-1}}})
		return
	}
	if strings.Contains(s, "ORACLE-FAIL") {
		c.Class("race-pass:oracle-fail")
		c.Report("free-running-oracle", "free-running concurrent writers produced a wire the peer cannot decrypt in order: "+lastLine(s), Case{Writers: [][]int{{-1}}})
		return
	}
	if err != nil {
		c.Infra("race pass: " + err.Error() + " " + lastLine(s))
		return
	}
	c.Class("race-pass:clean")
	c.Note("free-running -race pass: " + lastLine(s))
}

func lastLine(s string) string {
	l := strings.Split(strings.TrimSpace(s), "\n")
	return l[len(l)-1]
}

// FreeRun is the body of the -race binary.
func FreeRun() {
	hclog.Info.Disable()
	fails := 0
	iters := 300
	for it := 0; it < iters; it++ {
		fc := &wireConn{}
		conn := setup(fc)
		var wg gosync.WaitGroup
		var want [][]byte
		lens := [][]int{{300, 40}, {150, 1500}, {1500, 80}, {20, 2100}}
		for w, ls := range lens {
			for i, n := range ls {
				want = append(want, payload(w, i, n))
			}
			wg.Add(1)
			go func(w int, ls []int) {
				defer wg.Done()
				for i, n := range ls {
					conn.Write(payload(w, i, n))
				}
			}(w, ls)
		}
		// the connection's reader opens an incoming two-frame request meanwhile, and another connection of the
		// same accessory is written to
		reqPlain := requestPlain()
		_, c2a := refctl.SessionKeys(secret[:])
		var rc uint64
		ct := refctl.Frames(c2a, &rc, reqPlain)
		fc.in = [][]byte{ct[:1], ct[1:600], ct[600:1042], ct[1042:1044], ct[1044:]}
		var reqGot []byte
		var reqErr error
		wg.Add(1)
		go func() {
			defer wg.Done()
			buf := make([]byte, 4096)
			for len(reqGot) < len(reqPlain) && reqErr == nil {
				n, err := conn.Read(buf)
				reqGot = append(reqGot, buf[:n]...)
				reqErr = err
			}
		}()
		fc2 := &wireConn{remote: "10.0.0.3:3"}
		conn2 := setupOn(lastCtx, fc2, secret2)
		wg.Add(1)
		go func() {
			defer wg.Done()
			conn2.Write(payload(8, 8, 1500))
		}()
		wg.Wait()
		sym, desc := judge(fc.wire, want)
		if sym == "" {
			sym, desc = judgeKey(secret2, fc2.wire, [][]byte{payload(8, 8, 1500)})
		}
		if sym == "" && (reqErr != nil || !bytes.Equal(reqGot, reqPlain)) {
			sym, desc = "incoming-request-damaged", fmt.Sprintf("%d of %d bytes, error %v", len(reqGot), len(reqPlain), reqErr)
		}
		if sym != "" {
			fails++
			if fails == 1 {
				fmt.Println("ORACLE-FAIL", sym, desc)
			}
		}
	}
	// a peer that stalls for seconds in the middle of a write (a slow or sleeping controller): the writers that
	// arrive meanwhile wait, nobody overtakes, nobody gives up
	{
		fc := &stallConn{stall: 3500 * time.Millisecond}
		conn := setup(fc)
		var wg gosync.WaitGroup
		var want [][]byte
		for w, n := range []int{1500, 40, 300} {
			want = append(want, payload(w, 0, n))
			wg.Add(1)
			go func(w, n int) {
				defer wg.Done()
				time.Sleep(time.Duration(w) * 150 * time.Millisecond)
				conn.Write(payload(w, 0, n))
			}(w, n)
		}
		wg.Wait()
		if sym, desc := judge(fc.wire, want); sym != "" {
			fails++
			fmt.Println("ORACLE-FAIL", "stalled-peer/"+sym, desc)
		}
	}
	fmt.Printf("free-running: %d iterations of 4 writers x 2 writes + the reader + a writer on another connection, %d oracle failures\n", iters, fails)
}

func replay(c *fw.Ctx, raw json.RawMessage) {
	var k struct {
		Kind string `json:"kind"`
	}
	if json.Unmarshal(raw, &k) == nil && k.Kind == "interference-schedule" {
		exe, _ := os.Executable()
		bin := filepath.Join(filepath.Dir(exe), "vsched-yield")
		if _, err := os.Stat(bin); err != nil {
			bin = filepath.Join(os.Getenv("VERIF_ROOT"), ".build", "vsched-yield")
		}
		out, _ := exec.Command(bin, "interf-replay", c.Scratch, string(raw)).CombinedOutput()
		c.Eval(1)
		if strings.Contains(string(out), `"violations":[{`) {
			c.Report("interference/replayed", "the recorded schedule still fails: "+lastLine(string(out)), raw)
		}
		return
	}
	var ai map[string]interface{}
	if json.Unmarshal(raw, &ai) == nil && ai["kind"] == "accept-identity" {
		acceptIdentity(c)
		return
	}
	var dc dlcheck.Case
	if json.Unmarshal(raw, &dc) == nil && dc.Kind == "deadline-sequence" {
		c.Eval(1)
		if d := dlcheck.Run(dc.Ops); d != "" {
			c.Report("deadline-not-forwarded/replayed", d, dc)
		}
		return
	}
	var cas Case
	json.Unmarshal(raw, &cas)
	if len(cas.Writers) == 1 && len(cas.Writers[0]) == 1 && cas.Writers[0][0] == -1 {
		racePass(c)
		return
	}
	hclog.Info.Disable()
	execute(c, cas.Writers, cas.Schedule, cas.Bound, cas.Prior)
}

func init() {
	fw.Register(&fw.Check{
		ID:    "C08",
		Level: "model_checking",
		Rule:  "stateless exploration of goroutine interleavings under a cooperative scheduler with iterative preemption bounding: 2–5 writer goroutines × 1–3 Connection.Write calls with one- and two-frame payloads, keep-alive rounds sent by hap.KeepAlive itself, and EVENTs written by the notifyListener of a real (not started) IP transport after an application value change (a boolean, and a 3000-byte string: an EVENT of four frames), over a socket that stalls in the middle of every write (a write deadline armed meanwhile expires for the write in flight), the connection's own reader opening an incoming two-frame request whose ciphertext arrives in five pieces (each arrival a scheduling point) while writes are in flight, and a writer on another connection of the same accessory, on a real hap.Connection with a real secure session; scheduling points = every Lock of a sync.Mutex/RWMutex and every Wait of a sync.Cond in packages hap and crypto (import rewritten to a shim through go build -overlay) and every socket Write; per schedule the captured wire must decrypt front to back with counters in arrival order (reference AEAD) and be a sequence of whole payloads (the same for the other connection's wire), and the reader must get the request intact — also when the peer takes nothing of what the accessory writes before its own request has been delivered (a reader that waits for something a stalled writer holds is a deadlock). 2-writer scenarios unbounded, larger ones preemption bound 2 (thorough: unbounded / 3). Plus the same questions at STATEMENT granularity (subprocess built with a scheduling point before every statement of hc's packages, preemption bound 1 / 2): two writers on one connection, a writer and the reader, writers on two connections, a write that notifies another connection. Also: a connection that switches to encryption — its reader takes the controller's first encrypted request and writes the response — while other writers are active (seen from the accessory: plain messages, then frames, never plain text after the first frame, and no frames before the controller's first encrypted bytes have arrived — also while the application changes a value and the transport's fan-out walks over the connections); the 2-writer scenario on a connection that has carried 255 / 65535 (thorough also 256, 65534, 65536) writes before; scenarios in which a third thread closes the connection while writers are active (what reaches the peer before the socket closes must still decrypt in order and be whole payloads plus at most the beginning of one — nothing unencrypted); a response announced to the connection (BeginResponse), written in two pieces and finished (EndResponse) while the application changes a value or a keep-alive is due: its pieces reach the peer as one uninterrupted message and what became due meanwhile follows it under the counters of its arrival position (also with a second response right behind the first: nothing kept during the first lands inside the second); the object the server's Accept hands to net/http is the one the session holds (responses and events share one write lock); and every sequence of ≤3 (thorough ≤4) SetDeadline / SetReadDeadline / SetWriteDeadline calls through the hap.Connection (net/http's read-deadline calls at the end of every request must not reach the write deadline of a concurrent event write). Plus a free-running pass of the same bodies in a -race build, with one run against a peer that stalls for 3.5 s (real time) in the middle of a write while two more writers arrive. distinct_nontrivial = distinct (scenario, wire record order) outcomes — more than one per scenario means writers really collided",
		Shards: func(t string) int {
			if t == "thorough" {
				return 16
			}
			return 8
		},
		Run:    run,
		Replay: replay,
		Budget: func(t string) time.Duration {
			if t == "thorough" {
				return 20 * time.Minute
			}
			return 2 * time.Minute
		},
		Assumptions: []string{"code between two scheduling points runs atomically under the cooperative scheduler; unsynchronised accesses inside such a block (e.g. the counter increment) are the business of the separate free-running -race pass", "a synchronisation primitive other than sync.Mutex/RWMutex (channels) is not modelled: the watchdog ends such a run as inconclusive (exhaustive:false), never as a violation"},
	})
}
