// Package world is the system under exploration: the real hc IP transport on a loopback port with file
// storage in a scratch directory, plus application-side probes.
package world

import (
	"bytes"
	"fmt"
	"image"
	stdlog "log"
	"os"
	"path/filepath"
	"regexp"
	"sort"
	"strings"
	"sync"
	"time"

	"github.com/brutella/hc"
	"github.com/brutella/hc/accessory"
	hclog "github.com/brutella/hc/log"
)

type transport interface {
	Start()
	Stop() <-chan struct{}
	VerifPort() string
	VerifTxtRecords() map[string]string
	XHMURI() (string, error)
}

// panic capture: net/http logs "http: panic serving <addr>: ..." through the std logger.
type capture struct {
	mu  sync.Mutex
	buf bytes.Buffer
}

func (c *capture) Write(p []byte) (int, error) {
	c.mu.Lock()
	defer c.mu.Unlock()
	if c.buf.Len() < 1<<20 {
		c.buf.Write(p)
	}
	return len(p), nil
}

var cap = &capture{}

func init() {
	hclog.Info.Disable()
	stdlog.SetOutput(cap)
	stdlog.SetFlags(0)
}

var panicRe = regexp.MustCompile(`http: panic serving ([0-9.:\[\]a-f]+): ([^\n]*)`)

// PanicsFor returns the panic messages net/http logged for the given remote address ("" = all).
func PanicsFor(remote string) []string {
	cap.mu.Lock()
	s := cap.buf.String()
	cap.mu.Unlock()
	var out []string
	for _, m := range panicRe.FindAllStringSubmatch(s, -1) {
		if remote == "" || m[1] == remote {
			out = append(out, m[2])
		}
	}
	return out
}

// PanicSite extracts the first hc frame below the panic in the captured log for remote (best effort).
func PanicSite(remote string) string {
	cap.mu.Lock()
	s := cap.buf.String()
	cap.mu.Unlock()
	i := strings.Index(s, "http: panic serving "+remote)
	if i < 0 {
		return ""
	}
	rest := s[i:]
	if j := strings.Index(rest[1:], "http: panic serving "); j >= 0 {
		rest = rest[:j+1]
	}
	re := regexp.MustCompile(`github\.com/brutella/hc/[^\s(]+(\(\*?[A-Za-z]+\)\.)?[A-Za-z.]+`)
	for _, f := range re.FindAllString(rest, -1) {
		if strings.Contains(f, "/log.") || strings.Contains(f, "log.(*Logger)") {
			continue
		}
		return strings.TrimPrefix(f, "github.com/brutella/hc/")
	}
	return ""
}

// ResetCapture clears the captured std log.
func ResetCapture() { cap.mu.Lock(); cap.buf.Reset(); cap.mu.Unlock() }

// World is one started transport.
type World struct {
	T    transport
	Dir  string
	Addr string
	Pin  string
}

// Options for Start.
type Options struct {
	Dir      string // storage directory (created if needed)
	Pin      string
	Snapshot bool // register /resource
	SetupID  string
}

// Start creates and starts a transport for the accessories (first one is the bridge / main accessory). A start
// that fails for an environmental reason (no free port) is retried; it never counts as a verdict.
func Start(o Options, a *accessory.Accessory, as ...*accessory.Accessory) (*World, error) {
	var lastErr error
	for attempt := 0; attempt < 20; attempt++ {
		w, err, retry := start1(o, a, as...)
		if err == nil {
			return w, nil
		}
		lastErr = err
		if !retry {
			break
		}
		time.Sleep(time.Duration(50*(attempt+1)) * time.Millisecond)
	}
	return nil, lastErr
}

func start1(o Options, a *accessory.Accessory, as ...*accessory.Accessory) (w *World, err error, retry bool) {
	cfg := hc.Config{StoragePath: o.Dir, Pin: o.Pin, SetupId: o.SetupID}
	t, err := hc.NewIPTransport(cfg, a, as...)
	if err != nil {
		return nil, err, false
	}
	if o.Snapshot {
		t.CameraSnapshotReq = func(width, height uint) (*image.Image, error) {
			var img image.Image = image.NewGray(image.Rect(0, 0, 2, 2))
			return &img, nil
		}
	}
	w = &World{T: t, Dir: o.Dir, Pin: o.Pin}
	failed := make(chan string, 1)
	go func() {
		defer func() {
			if p := recover(); p != nil {
				failed <- fmt.Sprint(p)
			}
		}()
		t.Start()
	}()
	deadline := time.Now().Add(10 * time.Second)
	for {
		if p := t.VerifPort(); p != "" {
			w.Addr = "127.0.0.1:" + p
			return w, nil, false
		}
		select {
		case msg := <-failed:
			return nil, fmt.Errorf("transport start failed: %s", msg), true
		default:
		}
		if time.Now().After(deadline) {
			return nil, fmt.Errorf("transport did not start"), true
		}
		time.Sleep(50 * time.Microsecond)
	}
}

// Stop stops the transport without waiting for the mDNS goodbye.
func (w *World) Stop() {
	ch := w.T.Stop()
	go func() { <-ch }()
}

// StopWait stops and waits (used by restart histories so the listener is closed before the next start).
func (w *World) StopWait() {
	ch := w.T.Stop()
	select {
	case <-ch:
	case <-time.After(5 * time.Second):
	}
}

// StoreSnapshot returns the sorted "name=hex(content)" listing of the storage directory.
func StoreSnapshot(dir string) []string {
	ents, err := os.ReadDir(dir)
	if err != nil {
		return []string{"!" + err.Error()}
	}
	var out []string
	for _, e := range ents {
		b, _ := os.ReadFile(filepath.Join(dir, e.Name()))
		out = append(out, e.Name()+"="+string(b))
	}
	sort.Strings(out)
	return out
}

// EntityFiles returns only the *.entity entries of the snapshot.
func EntityFiles(dir string) []string {
	var out []string
	for _, l := range StoreSnapshot(dir) {
		if i := strings.Index(l, "="); i >= 0 && strings.HasSuffix(l[:i], ".entity") {
			out = append(out, l)
		}
	}
	return out
}
