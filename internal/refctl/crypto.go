package refctl

import (
	"crypto/hmac"
	"crypto/sha512"
	"encoding/binary"
	"errors"
	"math/big"

	"golang.org/x/crypto/chacha20poly1305"
)

// HKDF is HKDF-SHA-512 (RFC 5869) written out on crypto/hmac, 32 bytes of output.
func HKDF(ikm, salt, info []byte) []byte {
	m := hmac.New(sha512.New, salt)
	m.Write(ikm)
	prk := m.Sum(nil)
	m = hmac.New(sha512.New, prk)
	m.Write(info)
	m.Write([]byte{1})
	return m.Sum(nil)[:32]
}

// LabelNonce is the 12-byte nonce 00 00 00 00 | 8-byte ASCII label used by pairing messages.
func LabelNonce(l string) []byte {
	var n [12]byte
	copy(n[4:], l)
	return n[:]
}

// CounterNonce is 00 00 00 00 | LE64 counter.
func CounterNonce(c uint64) []byte {
	var n [12]byte
	binary.LittleEndian.PutUint64(n[4:], c)
	return n[:]
}

// Seal is ChaCha20-Poly1305 (IETF, 96-bit nonce) returning ciphertext||tag.
func Seal(key, nonce, plaintext, aad []byte) []byte {
	a, err := chacha20poly1305.New(key)
	if err != nil {
		panic(err)
	}
	return a.Seal(nil, nonce, plaintext, aad)
}

// Open is the inverse of Seal.
func Open(key, nonce, ct, aad []byte) ([]byte, error) {
	if len(ct) < 16 {
		return nil, errors.New("shorter than a tag")
	}
	a, err := chacha20poly1305.New(key)
	if err != nil {
		panic(err)
	}
	return a.Open(nil, nonce, ct, aad)
}

// FrameSize is the maximum plaintext per HAP session frame.
const FrameSize = 1024

// Frames seals msg as HAP session frames starting at counter *ctr (advanced).
// A zero-length message produces no frame.
func Frames(key []byte, ctr *uint64, msg []byte) []byte {
	var out []byte
	for len(msg) > 0 {
		n := len(msg)
		if n > FrameSize {
			n = FrameSize
		}
		var hdr [2]byte
		binary.LittleEndian.PutUint16(hdr[:], uint16(n))
		out = append(out, hdr[:]...)
		out = append(out, Seal(key, CounterNonce(*ctr), msg[:n], hdr[:])...)
		*ctr++
		msg = msg[n:]
	}
	return out
}

// FrameSpans lists (start,end) ciphertext offsets of each frame produced for a message of length n.
func FrameSpans(n int) [][2]int {
	var out [][2]int
	off := 0
	for n > 0 {
		k := n
		if k > FrameSize {
			k = FrameSize
		}
		out = append(out, [2]int{off, off + 2 + k + 16})
		off += 2 + k + 16
		n -= k
	}
	return out
}

// OpenFrames decrypts a whole stream of frames front to back starting at *ctr; it returns the plaintext of
// the frames that opened and an error at the first one that does not.
func OpenFrames(key []byte, ctr *uint64, stream []byte) ([][]byte, error) {
	var out [][]byte
	for len(stream) > 0 {
		if len(stream) < 2 {
			return out, errors.New("truncated length")
		}
		n := int(binary.LittleEndian.Uint16(stream))
		if len(stream) < 2+n+16 {
			return out, errors.New("truncated frame")
		}
		pt, err := Open(key, CounterNonce(*ctr), stream[2:2+n+16], stream[:2])
		if err != nil {
			return out, err
		}
		*ctr++
		out = append(out, pt)
		stream = stream[2+n+16:]
	}
	return out, nil
}

// SessionKeys derives the two control-channel keys from the pair-verify shared secret.
// a2c: accessory→controller ("Control-Read-Encryption-Key"), c2a: controller→accessory.
func SessionKeys(shared []byte) (a2c, c2a []byte) {
	return HKDF(shared, []byte("Control-Salt"), []byte("Control-Read-Encryption-Key")),
		HKDF(shared, []byte("Control-Salt"), []byte("Control-Write-Encryption-Key"))
}

// ---------------------------------------------------------------------------------------------------
// SRP-6a, 3072-bit group of RFC 5054, SHA-512, as HAP uses it.

var srpN, srpG = computeGroup(), big.NewInt(5)

// SRPN returns the 3072-bit modulus.
func SRPN() *big.Int { return new(big.Int).Set(srpN) }

// computeGroup derives the RFC 3526 3072-bit MODP prime from its defining formula
// 2^3072 − 2^3008 − 1 + 2^64·(⌊2^2942·π⌋ + 1690314) with π computed here by Machin's formula.
func computeGroup() *big.Int {
	const guard = 64
	prec := uint(2942 + guard)
	one := new(big.Int).Lsh(big.NewInt(1), prec)
	arctanInv := func(x int64) *big.Int { // arctan(1/x) scaled by 2^prec
		bx := big.NewInt(x)
		x2 := new(big.Int).Mul(bx, bx)
		term := new(big.Int).Div(one, bx)
		sum := new(big.Int).Set(term)
		for k := int64(1); term.Sign() != 0; k++ {
			term.Div(term, x2)
			t := new(big.Int).Div(term, big.NewInt(2*k+1))
			if k%2 == 1 {
				sum.Sub(sum, t)
			} else {
				sum.Add(sum, t)
			}
		}
		return sum
	}
	pi := new(big.Int).Mul(arctanInv(5), big.NewInt(16))
	pi.Sub(pi, new(big.Int).Mul(arctanInv(239), big.NewInt(4)))
	pi.Rsh(pi, guard) // ⌊2^2942·π⌋
	n := new(big.Int).Lsh(big.NewInt(1), 3072)
	n.Sub(n, new(big.Int).Lsh(big.NewInt(1), 3008))
	n.Sub(n, big.NewInt(1))
	t := new(big.Int).Add(pi, big.NewInt(1690314))
	n.Add(n, t.Lsh(t, 64))
	return n
}

func sha(parts ...[]byte) []byte {
	h := sha512.New()
	for _, p := range parts {
		h.Write(p)
	}
	return h.Sum(nil)
}

func pad384(b []byte) []byte {
	if len(b) >= 384 {
		return b
	}
	return append(make([]byte, 384-len(b)), b...)
}

// SRPClient holds a controller-side SRP exchange.
type SRPClient struct {
	a    *big.Int
	A    []byte // as sent
	K    []byte // session key H(S)
	S    []byte // premaster secret, minimal length
	M1   []byte
	salt []byte
	B    []byte
}

// NewSRPClient creates a client with private exponent a (32 bytes recommended).
func NewSRPClient(a []byte) *SRPClient {
	c := &SRPClient{a: new(big.Int).SetBytes(a)}
	c.A = new(big.Int).Exp(srpG, c.a, srpN).Bytes()
	return c
}

// Compute derives S, K and the proof M1 from salt, B and the setup code "XXX-XX-XXX".
func (c *SRPClient) Compute(salt, B []byte, password string) error {
	c.salt, c.B = salt, B
	bB := new(big.Int).SetBytes(B)
	if new(big.Int).Mod(bB, srpN).Sign() == 0 {
		return errors.New("B mod N == 0")
	}
	k := new(big.Int).SetBytes(sha(srpN.Bytes(), pad384(srpG.Bytes())))
	u := new(big.Int).SetBytes(sha(pad384(c.A), pad384(B)))
	x := new(big.Int).SetBytes(sha(salt, sha([]byte("Pair-Setup:"+password))))
	// S = (B − k·g^x)^(a + u·x) mod N
	gx := new(big.Int).Exp(srpG, x, srpN)
	base := new(big.Int).Sub(bB, new(big.Int).Mul(k, gx))
	base.Mod(base, srpN)
	exp := new(big.Int).Add(c.a, new(big.Int).Mul(u, x))
	S := new(big.Int).Exp(base, exp, srpN)
	c.S = S.Bytes()
	c.K = sha(c.S)
	hn, hg := sha(srpN.Bytes()), sha(srpG.Bytes())
	xor := make([]byte, len(hn))
	for i := range hn {
		xor[i] = hn[i] ^ hg[i]
	}
	c.M1 = sha(xor, sha([]byte("Pair-Setup")), salt, c.A, B, c.K)
	return nil
}

// ProofFor computes the client proof M1 for arbitrary (public) inputs.
func (c *SRPClient) ProofFor(salt, A, B, K []byte) []byte {
	hn, hg := sha(srpN.Bytes()), sha(srpG.Bytes())
	xor := make([]byte, len(hn))
	for i := range hn {
		xor[i] = hn[i] ^ hg[i]
	}
	return sha(xor, sha([]byte("Pair-Setup")), salt, A, B, K)
}

// ExpectedM2 is the accessory proof H(A | M1 | K).
func (c *SRPClient) ExpectedM2() []byte { return sha(c.A, c.M1, c.K) }
