package refctl

import (
	"bufio"
	"bytes"
	"encoding/binary"
	"errors"
	"fmt"
	"io"
	"net"
	"strconv"
	"strings"
	"syscall"
	"time"
)

// Msg is one HTTP response or EVENT message.
type Msg struct {
	Proto  string // "HTTP/1.1", "EVENT/1.0"
	Status int
	Header map[string]string // lower-cased keys
	Body   []byte
}

func (m *Msg) IsEvent() bool { return strings.HasPrefix(m.Proto, "EVENT/") }

// Ctl is one controller connection (plaintext until Secure is called).
type Ctl struct {
	C     net.Conn
	raw   *bufio.Reader // bytes from the socket
	br    *bufio.Reader // plaintext view (== raw until secured)
	a2c   []byte        // accessory→controller key
	c2a   []byte        // controller→accessory key
	rc    uint64
	wc    uint64
	Local string // local address "ip:port" as the server sees it

	// Events collects EVENT messages seen while waiting for responses.
	Events []*Msg
	// Timeout for one read of a response.
	Timeout time.Duration
	// SegmentBodyAt != 0: Do writes a request with a body as two TCP segments, cut SegmentBodyAt bytes into the
	// body (negative: counted from its end), with a pause in between, so that the server's body reader sees a
	// short read. A legal way for a network to deliver the request.
	SegmentBodyAt int
}

// Dial opens a TCP connection to addr.
func Dial(addr string) (*Ctl, error) {
	c, err := net.DialTimeout("tcp", addr, 5*time.Second)
	if err != nil {
		return nil, err
	}
	k := &Ctl{C: c, raw: bufio.NewReaderSize(c, 8192), Timeout: 10 * time.Second, Local: c.LocalAddr().String()}
	k.br = k.raw
	return k, nil
}

// Close resets the connection (SO_LINGER 0): no TIME_WAIT socket is left behind, so that hundreds of thousands of
// short connections do not exhaust the ephemeral port range.
// DialFrom is Dial with the local (source) address fixed, e.g. the ip:port a previous connection used.
func DialFrom(addr, local string) (*Ctl, error) {
	la, err := net.ResolveTCPAddr("tcp", local)
	if err != nil {
		return nil, err
	}
	d := net.Dialer{Timeout: 5 * time.Second, LocalAddr: la, Control: func(network, address string, rc syscall.RawConn) error {
		var serr error
		rc.Control(func(fd uintptr) { serr = syscall.SetsockoptInt(int(fd), syscall.SOL_SOCKET, syscall.SO_REUSEADDR, 1) })
		return serr
	}}
	c, err := d.Dial("tcp", addr)
	if err != nil {
		return nil, err
	}
	k := &Ctl{C: c, raw: bufio.NewReaderSize(c, 8192), Timeout: 10 * time.Second, Local: c.LocalAddr().String()}
	k.br = k.raw
	return k, nil
}

// DialRebindable connects from an explicitly bound local port chosen so that the same port can be bound again
// later (SO_REUSEADDR on this socket, and no foreign TIME_WAIT socket sits on the port — otherwise this bind
// would have failed too).
func DialRebindable(addr string) (*Ctl, error) {
	var last error
	for i := 0; i < 200; i++ {
		port := 20000 + (int(time.Now().UnixNano()/1000)+i*7919)%12000
		k, err := DialFrom(addr, fmt.Sprintf("127.0.0.1:%d", port))
		if err == nil {
			return k, nil
		}
		last = err
	}
	return nil, last
}

// DialRcvBuf is Dial with SO_RCVBUF fixed before the connection is established (no receive-buffer autotuning),
// so that a reader which stops reading really blocks a sender with a large response.
func DialRcvBuf(addr string, rcvbuf int) (*Ctl, error) {
	d := net.Dialer{Timeout: 5 * time.Second, Control: func(network, address string, rc syscall.RawConn) error {
		var serr error
		rc.Control(func(fd uintptr) { serr = syscall.SetsockoptInt(int(fd), syscall.SOL_SOCKET, syscall.SO_RCVBUF, rcvbuf) })
		return serr
	}}
	c, err := d.Dial("tcp", addr)
	if err != nil {
		return nil, err
	}
	k := &Ctl{C: c, raw: bufio.NewReaderSize(c, 8192), Timeout: 10 * time.Second, Local: c.LocalAddr().String()}
	k.br = k.raw
	return k, nil
}

func (k *Ctl) Close() {
	if tc, ok := k.C.(*net.TCPConn); ok {
		tc.SetLinger(0)
	}
	k.C.Close()
}

// Secured says whether this side encrypts.
func (k *Ctl) Secured() bool { return k.c2a != nil }

// Secure switches the connection to the encrypted session with the given keys, counters from 0.
func (k *Ctl) Secure(a2c, c2a []byte) {
	k.a2c, k.c2a, k.rc, k.wc = a2c, c2a, 0, 0
	k.br = bufio.NewReaderSize(&frameReader{k: k}, 8192)
}

type frameReader struct {
	k    *Ctl
	rest []byte
	err  error
}

func (f *frameReader) Read(p []byte) (int, error) {
	if f.err != nil {
		return 0, f.err
	}
	for len(f.rest) == 0 {
		var hdr [2]byte
		if _, err := io.ReadFull(f.k.raw, hdr[:]); err != nil {
			f.err = err
			return 0, err
		}
		n := int(binary.LittleEndian.Uint16(hdr[:]))
		ct := make([]byte, n+16)
		if _, err := io.ReadFull(f.k.raw, ct); err != nil {
			f.err = err
			return 0, err
		}
		pt, err := Open(f.k.a2c, CounterNonce(f.k.rc), ct, hdr[:])
		if err != nil {
			f.err = fmt.Errorf("frame %d from accessory does not authenticate: %v", f.k.rc, err)
			return 0, f.err
		}
		f.k.rc++
		f.rest = pt
	}
	n := copy(p, f.rest)
	f.rest = f.rest[n:]
	return n, nil
}

// SendRaw writes bytes as they are to the socket (no framing, whatever the mode).
func (k *Ctl) SendRaw(b []byte) error {
	k.C.SetWriteDeadline(time.Now().Add(k.Timeout))
	_, err := k.C.Write(b)
	return err
}

// Send writes an application message: framed and sealed when secured, else plaintext.
func (k *Ctl) Send(b []byte) error {
	if k.c2a == nil {
		return k.SendRaw(b)
	}
	return k.SendRaw(Frames(k.c2a, &k.wc, b))
}

// BuildRequest formats an HTTP/1.1 request.
func BuildRequest(method, path, ctype string, body []byte) []byte {
	var b bytes.Buffer
	fmt.Fprintf(&b, "%s %s HTTP/1.1\r\nHost: accessory.local\r\n", method, path)
	if body != nil {
		if ctype != "" {
			fmt.Fprintf(&b, "Content-Type: %s\r\n", ctype)
		}
		fmt.Fprintf(&b, "Content-Length: %d\r\n", len(body))
	}
	b.WriteString("\r\n")
	b.Write(body)
	return b.Bytes()
}

// BeginRequest sends only the head of a request with "Expect: 100-continue" and waits for the interim
// "100 Continue", which the server sends when the handler starts to read the body: at that point the handler is
// running and blocked. FinishRequest sends the body and returns the final response. Everything done on other
// connections in between overlaps with this handler — a deterministic way to interleave two handlers.
func (k *Ctl) BeginRequest(method, path, ctype string, bodyLen int) error {
	var b bytes.Buffer
	fmt.Fprintf(&b, "%s %s HTTP/1.1\r\nHost: accessory.local\r\nContent-Type: %s\r\nContent-Length: %d\r\nExpect: 100-continue\r\n\r\n", method, path, ctype, bodyLen)
	if err := k.Send(b.Bytes()); err != nil {
		return err
	}
	m, err := k.ReadMsg()
	if err != nil {
		return err
	}
	if m.Status != 100 {
		return fmt.Errorf("expected 100 Continue, got %d", m.Status)
	}
	return nil
}

// FinishRequest completes a request started with BeginRequest.
func (k *Ctl) FinishRequest(body []byte) (*Msg, []*Msg, error) {
	if err := k.Send(body); err != nil {
		return nil, nil, err
	}
	return k.Await()
}

// PeekResponseStart waits until the first bytes of the next message are available without consuming them.
func (k *Ctl) PeekResponseStart() error {
	k.C.SetReadDeadline(time.Now().Add(k.Timeout))
	_, err := k.br.Peek(5)
	return err
}

// ReadMsg reads one HTTP or EVENT message from the plaintext view.
func (k *Ctl) ReadMsg() (*Msg, error) {
	k.C.SetReadDeadline(time.Now().Add(k.Timeout))
	return readMsg(k.br)
}

func readLine(r *bufio.Reader) (string, error) {
	s, err := r.ReadString('\n')
	if err != nil {
		return s, err
	}
	return strings.TrimRight(s, "\r\n"), nil
}

func readMsg(r *bufio.Reader) (*Msg, error) {
	line, err := readLine(r)
	if err != nil {
		if line == "" {
			return nil, err
		}
		return nil, fmt.Errorf("truncated status line %q: %v", line, err)
	}
	parts := strings.SplitN(line, " ", 3)
	if len(parts) < 2 || !(strings.HasPrefix(parts[0], "HTTP/") || strings.HasPrefix(parts[0], "EVENT/")) {
		return nil, fmt.Errorf("malformed status line %q", line)
	}
	st, err := strconv.Atoi(parts[1])
	if err != nil || st < 100 || st > 999 {
		return nil, fmt.Errorf("malformed status line %q", line)
	}
	m := &Msg{Proto: parts[0], Status: st, Header: map[string]string{}}
	for {
		h, err := readLine(r)
		if err != nil {
			return nil, fmt.Errorf("truncated header: %v", err)
		}
		if h == "" {
			break
		}
		i := strings.IndexByte(h, ':')
		if i < 0 {
			return nil, fmt.Errorf("malformed header %q", h)
		}
		m.Header[strings.ToLower(strings.TrimSpace(h[:i]))] = strings.TrimSpace(h[i+1:])
	}
	switch {
	case strings.Contains(strings.ToLower(m.Header["transfer-encoding"]), "chunked"):
		for {
			l, err := readLine(r)
			if err != nil {
				return nil, fmt.Errorf("truncated chunk header: %v", err)
			}
			if i := strings.IndexByte(l, ';'); i >= 0 {
				l = l[:i]
			}
			n, err := strconv.ParseUint(strings.TrimSpace(l), 16, 31)
			if err != nil {
				return nil, fmt.Errorf("malformed chunk size %q", l)
			}
			if n == 0 {
				for { // trailers
					t, err := readLine(r)
					if err != nil {
						return nil, fmt.Errorf("truncated trailer: %v", err)
					}
					if t == "" {
						break
					}
				}
				break
			}
			buf := make([]byte, n)
			if _, err := io.ReadFull(r, buf); err != nil {
				return nil, fmt.Errorf("truncated chunk: %v", err)
			}
			m.Body = append(m.Body, buf...)
			if l, err := readLine(r); err != nil || l != "" {
				return nil, fmt.Errorf("malformed chunk end %q %v", l, err)
			}
		}
	case m.Header["content-length"] != "":
		n, err := strconv.ParseUint(m.Header["content-length"], 10, 31)
		if err != nil {
			return nil, fmt.Errorf("malformed content-length %q", m.Header["content-length"])
		}
		m.Body = make([]byte, n)
		if _, err := io.ReadFull(r, m.Body); err != nil {
			return nil, fmt.Errorf("truncated body: %v", err)
		}
	case st == 204 || st == 304 || st/100 == 1:
	default:
		b, err := io.ReadAll(r)
		if err != nil && !errors.Is(err, io.EOF) {
			// a reset after the full body is still a complete close-delimited body only on clean EOF
			return nil, fmt.Errorf("close-delimited body: %v", err)
		}
		m.Body = b
	}
	return m, nil
}

// Do sends a request and reads messages up to and including its response; EVENT messages that arrive before
// it are appended to k.Events and also returned.
func (k *Ctl) Do(method, path, ctype string, body []byte) (*Msg, []*Msg, error) {
	req := BuildRequest(method, path, ctype, body)
	if k.SegmentBodyAt != 0 && len(body) > 1 && k.c2a == nil {
		cut := k.SegmentBodyAt
		if cut < 0 {
			cut += len(body)
		}
		if cut <= 0 || cut >= len(body) {
			cut = len(body) / 2
		}
		cut += len(req) - len(body)
		if err := k.SendRaw(req[:cut]); err != nil {
			return nil, nil, err
		}
		time.Sleep(25 * time.Millisecond)
		req = req[cut:]
	}
	if err := k.Send(req); err != nil {
		return nil, nil, err
	}
	return k.Await()
}

// Await reads until the next non-EVENT message.
func (k *Ctl) Await() (*Msg, []*Msg, error) {
	var evs []*Msg
	for {
		m, err := k.ReadMsg()
		if err != nil {
			return nil, evs, err
		}
		if m.IsEvent() {
			k.Events = append(k.Events, m)
			evs = append(evs, m)
			continue
		}
		return m, evs, nil
	}
}

// Probe sends bytes sealed under the given keys (counters from 0) on a connection this side treats as
// plaintext, half-closes, and classifies what comes back: a plaintext message, a message that decrypts under
// a2c, or nothing. Destructive: the connection is finished afterwards.
type ProbeResult struct {
	Plain     *Msg // response readable as plaintext
	Decrypted *Msg // response readable only after decryption under the probe keys
	RawLen    int
	Err       string
}

func (k *Ctl) ProbeEncrypted(a2c, c2a []byte, req []byte) ProbeResult {
	var wc uint64
	if err := k.SendRaw(Frames(c2a, &wc, req)); err != nil {
		return ProbeResult{Err: "send: " + err.Error()}
	}
	if tc, ok := k.C.(*net.TCPConn); ok {
		tc.CloseWrite()
	}
	k.C.SetReadDeadline(time.Now().Add(k.Timeout))
	all, _ := io.ReadAll(k.raw)
	res := ProbeResult{RawLen: len(all)}
	if len(all) == 0 {
		return res
	}
	if m, err := readMsg(bufio.NewReader(bytes.NewReader(all))); err == nil {
		res.Plain = m
		return res
	}
	var rc uint64
	pts, _ := OpenFrames(a2c, &rc, all)
	if len(pts) > 0 {
		if m, err := readMsg(bufio.NewReader(bytes.NewReader(bytes.Join(pts, nil)))); err == nil {
			res.Decrypted = m
		} else {
			res.Decrypted = &Msg{Proto: "?", Status: 0, Body: bytes.Join(pts, nil)}
		}
		return res
	}
	res.Err = "unreadable response"
	return res
}

// SendPieces sends each piece as ONE session frame of its own (a piece may be empty: a well-formed frame with no
// data), all in one socket write. Only on a secured connection.
func (k *Ctl) SendPieces(pieces ...[]byte) error {
	var out []byte
	for _, p := range pieces {
		var hdr [2]byte
		binary.LittleEndian.PutUint16(hdr[:], uint16(len(p)))
		out = append(out, hdr[:]...)
		out = append(out, Seal(k.c2a, CounterNonce(k.wc), p, hdr[:])...)
		k.wc++
	}
	return k.SendRaw(out)
}
