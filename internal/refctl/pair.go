package refctl

import (
	"bytes"
	"crypto/ecdh"
	"crypto/ed25519"
	"crypto/sha512"
	"errors"
	"fmt"
)

const CTPairing = "application/pairing+tlv8"
const CTJSON = "application/hap+json"

// Identity is a controller identity (pairing id + Ed25519 key pair).
type Identity struct {
	ID   string
	Priv ed25519.PrivateKey
	Pub  ed25519.PublicKey
}

// NewIdentity derives a deterministic identity from a seed string.
func NewIdentity(id, seed string) Identity {
	h := sha512.Sum512([]byte("identity:" + seed))
	priv := ed25519.NewKeyFromSeed(h[:32])
	return Identity{ID: id, Priv: priv, Pub: priv.Public().(ed25519.PublicKey)}
}

// ---------------------------------------------------------------------------------------------------
// pair-setup

// Setup is the controller side of one pair-setup exchange.
type Setup struct {
	SRP  *SRPClient
	Salt []byte
	B    []byte
	// set after M4
	EncKey []byte
	// accessory identity learnt from M6
	AccID   string
	AccLTPK []byte
}

// SetupM1 is the start request.
func SetupM1() []byte { return TLVEncode(T(TagState, []byte{1}), T(TagMethod, []byte{0})) }

// ParseM2 reads salt and B.
func (s *Setup) ParseM2(body []byte) error {
	m, err := TLVMap(body)
	if err != nil {
		return err
	}
	if e := m[TagError]; len(e) > 0 {
		return fmt.Errorf("M2 error %d", e[0])
	}
	if st := m[TagState]; len(st) != 1 || st[0] != 2 {
		return fmt.Errorf("M2 state %v", m[TagState])
	}
	s.Salt, s.B = m[TagSalt], m[TagPublicKey]
	if len(s.Salt) != 16 {
		return fmt.Errorf("M2 salt length %d (spec: 16)", len(s.Salt))
	}
	if len(s.B) == 0 || len(s.B) > 384 {
		return fmt.Errorf("M2 public key length %d", len(s.B))
	}
	return nil
}

// M3 builds the verify request for the given setup code with private exponent a.
func (s *Setup) M3(a []byte, code string) ([]byte, error) {
	s.SRP = NewSRPClient(a)
	if err := s.SRP.Compute(s.Salt, s.B, code); err != nil {
		return nil, err
	}
	return TLVEncode(T(TagState, []byte{3}), T(TagPublicKey, s.SRP.A), T(TagProof, s.SRP.M1)), nil
}

// ParseM4 checks the accessory proof. It returns the TLV error code (0 = none).
func (s *Setup) ParseM4(body []byte) (errCode byte, err error) {
	m, perr := TLVMap(body)
	if perr != nil {
		return 0, perr
	}
	if st := m[TagState]; len(st) != 1 || st[0] != 4 {
		return 0, fmt.Errorf("M4 state %v", m[TagState])
	}
	if e := m[TagError]; len(e) > 0 {
		return e[0], nil
	}
	if !bytes.Equal(m[TagProof], s.SRP.ExpectedM2()) {
		return 0, errors.New("M4: accessory proof does not verify under H(A|M1|K)")
	}
	s.EncKey = HKDF(s.SRP.K, []byte("Pair-Setup-Encrypt-Salt"), []byte("Pair-Setup-Encrypt-Info"))
	return 0, nil
}

// M5Sub builds the signed sub-TLV of M5 for identity id using session key K.
func M5Sub(K []byte, id Identity) []byte {
	x := HKDF(K, []byte("Pair-Setup-Controller-Sign-Salt"), []byte("Pair-Setup-Controller-Sign-Info"))
	mat := append(append(append([]byte{}, x...), id.ID...), id.Pub...)
	sig := ed25519.Sign(id.Priv, mat)
	return TLVEncode(T(TagIdentifier, []byte(id.ID)), T(TagPublicKey, id.Pub), T(TagSignature, sig))
}

// M5Sealed wraps a sub-TLV sealed under key.
func M5Sealed(key, sub []byte) []byte {
	return TLVEncode(T(TagState, []byte{5}), T(TagEncrypted, Seal(key, LabelNonce("PS-Msg05"), sub, nil)))
}

// M5 builds the genuine key-exchange request.
func (s *Setup) M5(id Identity) []byte { return M5Sealed(s.EncKey, M5Sub(s.SRP.K, id)) }

// ParseM6 verifies the accessory's signed identity. It returns the TLV error code (0 = none).
func (s *Setup) ParseM6(body []byte) (errCode byte, err error) {
	m, perr := TLVMap(body)
	if perr != nil {
		return 0, perr
	}
	if e := m[TagError]; len(e) > 0 {
		return e[0], nil
	}
	if st := m[TagState]; len(st) != 1 || st[0] != 6 {
		return 0, fmt.Errorf("M6 state %v", m[TagState])
	}
	pt, oerr := Open(s.EncKey, LabelNonce("PS-Msg06"), m[TagEncrypted], nil)
	if oerr != nil {
		return 0, fmt.Errorf("M6 encrypted data does not open under the session key with nonce PS-Msg06: %v", oerr)
	}
	sub, perr := TLVMap(pt)
	if perr != nil {
		return 0, perr
	}
	s.AccID, s.AccLTPK = string(sub[TagIdentifier]), sub[TagPublicKey]
	if len(s.AccLTPK) != ed25519.PublicKeySize {
		return 0, fmt.Errorf("M6 accessory LTPK length %d", len(s.AccLTPK))
	}
	x := HKDF(s.SRP.K, []byte("Pair-Setup-Accessory-Sign-Salt"), []byte("Pair-Setup-Accessory-Sign-Info"))
	mat := append(append(append([]byte{}, x...), s.AccID...), s.AccLTPK...)
	if !ed25519.Verify(s.AccLTPK, mat, sub[TagSignature]) {
		return 0, errors.New("M6 accessory signature does not verify over AccessoryX|id|LTPK")
	}
	return 0, nil
}

// PairSetup runs the whole honest exchange on k. a is the SRP private exponent.
func PairSetup(k *Ctl, id Identity, code string, a []byte) (*Setup, byte, error) {
	s := &Setup{}
	post := func(b []byte) ([]byte, error) {
		m, _, err := k.Do("POST", "/pair-setup", CTPairing, b)
		if err != nil {
			return nil, err
		}
		if m.Status != 200 {
			return nil, fmt.Errorf("HTTP status %d", m.Status)
		}
		return m.Body, nil
	}
	b, err := post(SetupM1())
	if err != nil {
		return s, 0, fmt.Errorf("M1: %v", err)
	}
	if err := s.ParseM2(b); err != nil {
		return s, 0, err
	}
	m3, err := s.M3(a, code)
	if err != nil {
		return s, 0, err
	}
	if b, err = post(m3); err != nil {
		return s, 0, fmt.Errorf("M3: %v", err)
	}
	ec, err := s.ParseM4(b)
	if err != nil || ec != 0 {
		return s, ec, err
	}
	if b, err = post(s.M5(id)); err != nil {
		return s, 0, fmt.Errorf("M5: %v", err)
	}
	ec, err = s.ParseM6(b)
	return s, ec, err
}

// ---------------------------------------------------------------------------------------------------
// pair-verify

// Verify is the controller side of one pair-verify exchange.
type Verify struct {
	Eph    *ecdh.PrivateKey
	EphPub []byte
	AccEph []byte
	Shared []byte
	EncKey []byte
	AccID  string
	AccSig []byte
	RawM2  []byte
	RawM3  []byte
}

// NewVerify creates an exchange from a 32-byte X25519 private key seed.
func NewVerify(seed []byte) *Verify {
	k, err := ecdh.X25519().NewPrivateKey(seed)
	if err != nil {
		panic(err)
	}
	return &Verify{Eph: k, EphPub: k.PublicKey().Bytes()}
}

// VerifyM1 builds a start request carrying the given public key bytes.
func VerifyM1(pub []byte) []byte {
	return TLVEncode(T(TagState, []byte{1}), T(TagPublicKey, pub))
}

// ParseM2 derives the shared secret, opens the accessory's sub-TLV and (when accLTPK is given) checks its
// signature over (accessory ephemeral | accessory id | controller ephemeral).
func (v *Verify) ParseM2(body []byte, accLTPK []byte) error {
	v.RawM2 = body
	m, err := TLVMap(body)
	if err != nil {
		return err
	}
	if e := m[TagError]; len(e) > 0 {
		return fmt.Errorf("verify M2 error %d", e[0])
	}
	if st := m[TagState]; len(st) != 1 || st[0] != 2 {
		return fmt.Errorf("verify M2 state %v", m[TagState])
	}
	v.AccEph = m[TagPublicKey]
	if len(v.AccEph) != 32 {
		return fmt.Errorf("verify M2 key length %d", len(v.AccEph))
	}
	pk, err := ecdh.X25519().NewPublicKey(v.AccEph)
	if err != nil {
		return err
	}
	v.Shared, err = v.Eph.ECDH(pk)
	if err != nil {
		return err
	}
	v.EncKey = HKDF(v.Shared, []byte("Pair-Verify-Encrypt-Salt"), []byte("Pair-Verify-Encrypt-Info"))
	pt, err := Open(v.EncKey, LabelNonce("PV-Msg02"), m[TagEncrypted], nil)
	if err != nil {
		return fmt.Errorf("verify M2 encrypted data does not open (nonce PV-Msg02): %v", err)
	}
	sub, err := TLVMap(pt)
	if err != nil {
		return err
	}
	v.AccID, v.AccSig = string(sub[TagIdentifier]), sub[TagSignature]
	if accLTPK != nil {
		mat := append(append(append([]byte{}, v.AccEph...), v.AccID...), v.EphPub...)
		if !ed25519.Verify(accLTPK, mat, v.AccSig) {
			return errors.New("verify M2: accessory signature does not verify under its long-term key")
		}
	}
	return nil
}

// M3Sub builds the signed sub-TLV naming `name`, signed with priv over material (ctl eph | name | acc eph).
func (v *Verify) M3Sub(name string, priv ed25519.PrivateKey) []byte {
	mat := append(append(append([]byte{}, v.EphPub...), name...), v.AccEph...)
	return TLVEncode(T(TagIdentifier, []byte(name)), T(TagSignature, ed25519.Sign(priv, mat)))
}

// VerifyM3Sealed wraps a sub-TLV under key.
func VerifyM3Sealed(key, sub []byte) []byte {
	return TLVEncode(T(TagState, []byte{3}), T(TagEncrypted, Seal(key, LabelNonce("PV-Msg03"), sub, nil)))
}

// M3 is the genuine finish request.
func (v *Verify) M3(id Identity) []byte {
	v.RawM3 = VerifyM3Sealed(v.EncKey, v.M3Sub(id.ID, id.Priv))
	return v.RawM3
}

// ParseM4 returns the TLV error code of the finish response (0 = verified).
func ParseVerifyM4(body []byte) (byte, error) {
	m, err := TLVMap(body)
	if err != nil {
		return 0, err
	}
	if e := m[TagError]; len(e) > 0 {
		return e[0], nil
	}
	if st := m[TagState]; len(st) != 1 || st[0] != 4 {
		return 0, fmt.Errorf("verify M4 state %v", m[TagState])
	}
	return 0, nil
}

// PairVerify runs the honest exchange and switches k to the encrypted session on success.
func PairVerify(k *Ctl, id Identity, ephSeed []byte, accLTPK []byte) (*Verify, byte, error) {
	v := NewVerify(ephSeed)
	m, _, err := k.Do("POST", "/pair-verify", CTPairing, VerifyM1(v.EphPub))
	if err != nil {
		return v, 0, fmt.Errorf("verify M1: %v", err)
	}
	if m.Status != 200 {
		return v, 0, fmt.Errorf("verify M1: HTTP status %d", m.Status)
	}
	if err := v.ParseM2(m.Body, accLTPK); err != nil {
		return v, 0, err
	}
	m, _, err = k.Do("POST", "/pair-verify", CTPairing, v.M3(id))
	if err != nil {
		return v, 0, fmt.Errorf("verify M3: %v", err)
	}
	if m.Status != 200 {
		return v, 0, fmt.Errorf("verify M3: HTTP status %d", m.Status)
	}
	ec, err := ParseVerifyM4(m.Body)
	if err != nil || ec != 0 {
		return v, ec, err
	}
	a2c, c2a := SessionKeys(v.Shared)
	k.Secure(a2c, c2a)
	return v, 0, nil
}

// Seed32 derives a deterministic 32-byte seed from a label.
func Seed32(label string) []byte {
	h := sha512.Sum512([]byte("seed:" + label))
	return h[:32]
}

// Ed25519Neutral is the encoding of the neutral element of the Ed25519 group. As a public key it accepts the
// signature (R = neutral element, S = 0) for EVERY message: an adversary that may choose "its" long-term key can pass
// any signature check whose message it does not know.
var Ed25519Neutral = append([]byte{1}, make([]byte, 31)...)

// UniversalM5Sub is the key-exchange sub-TLV of an adversary that names itself `name`, presents the neutral element
// as its long-term key and the signature that this key accepts for every message.
func UniversalM5Sub(name string) []byte {
	sig := append(append([]byte{}, Ed25519Neutral...), make([]byte, 32)...)
	return TLVEncode(T(TagIdentifier, []byte(name)), T(TagPublicKey, Ed25519Neutral), T(TagSignature, sig))
}
