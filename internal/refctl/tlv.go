// Package refctl is an independent HomeKit Accessory Protocol controller written from the specification.
// It imports no package of brutella/hc: own TLV8 codec, SRP-6a client on math/big, HKDF-SHA-512 on
// crypto/hmac, ChaCha20-Poly1305 through x/crypto, Ed25519 / X25519 from the standard library, HAP session
// framing and an HTTP/EVENT stream reader.
package refctl

import (
	"errors"
)

// Item is one logical TLV8 item (fragments already merged).
type Item struct {
	Tag byte
	Val []byte
}

// TLVEncode encodes logical items; values longer than 255 bytes become consecutive fragments of 255 bytes
// followed by the remainder; a value whose length is a non-zero multiple of 255 is followed by nothing
// (standard TLV8: the last fragment may be 255 long); an empty value is one zero-length item.
func TLVEncode(items ...Item) []byte {
	var out []byte
	for _, it := range items {
		v := it.Val
		if len(v) == 0 {
			out = append(out, it.Tag, 0)
			continue
		}
		for len(v) > 0 {
			n := len(v)
			if n > 255 {
				n = 255
			}
			out = append(out, it.Tag, byte(n))
			out = append(out, v[:n]...)
			v = v[n:]
		}
	}
	return out
}

// ErrTruncated is returned by TLVParse when an item header or value is cut short.
var ErrTruncated = errors.New("tlv8: truncated")

// TLVParseRaw splits a byte string into raw (un-merged) items.
func TLVParseRaw(b []byte) ([]Item, error) {
	var out []Item
	for len(b) > 0 {
		if len(b) < 2 {
			return out, ErrTruncated
		}
		t, n := b[0], int(b[1])
		if len(b) < 2+n {
			return out, ErrTruncated
		}
		out = append(out, Item{t, append([]byte{}, b[2:2+n]...)})
		b = b[2+n:]
	}
	return out, nil
}

// TLVParse parses and merges *adjacent* fragments of the same tag when the earlier one is 255 bytes long.
func TLVParse(b []byte) ([]Item, error) {
	raw, err := TLVParseRaw(b)
	var out []Item
	prevFull := false
	for _, it := range raw {
		if prevFull && len(out) > 0 && out[len(out)-1].Tag == it.Tag {
			out[len(out)-1].Val = append(out[len(out)-1].Val, it.Val...)
		} else {
			out = append(out, it)
		}
		prevFull = len(it.Val) == 255
	}
	return out, err
}

// TLVMap is the view used by protocol code: first occurrence of each tag (after merging adjacent fragments).
func TLVMap(b []byte) (map[byte][]byte, error) {
	items, err := TLVParse(b)
	m := map[byte][]byte{}
	for _, it := range items {
		if _, ok := m[it.Tag]; !ok {
			m[it.Tag] = it.Val
		}
	}
	return m, err
}

// TLVConcat returns, per tag, the concatenation of all items with that tag (what a container "get" yields).
func TLVConcat(b []byte) (map[byte][]byte, error) {
	raw, err := TLVParseRaw(b)
	m := map[byte][]byte{}
	for _, it := range raw {
		m[it.Tag] = append(m[it.Tag], it.Val...)
	}
	return m, err
}

// T is shorthand to build an item.
func T(tag int, val []byte) Item { return Item{byte(tag), val} }

// HAP pairing TLV tags.
const (
	TagMethod     = 0
	TagIdentifier = 1
	TagSalt       = 2
	TagPublicKey  = 3
	TagProof      = 4
	TagEncrypted  = 5
	TagState      = 6
	TagError      = 7
	TagSignature  = 10
	TagPermission = 11
)
