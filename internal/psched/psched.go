// Package psched explores interleavings of the pairing handlers of several connections of one accessory under
// the cooperative scheduler: the real /pair-setup and /pair-verify endpoints are driven in-process (one thread
// per connection), scheduling points are every log statement of the library (a file added to hc's log package
// through the build overlay), every Lock of a sync.Mutex / RWMutex in packages hap and crypto (import rewritten
// to the shim) and the gap between two requests of a connection. It is compiled into cmd/vsched (overlay build)
// and run as a subprocess of the C02 and C03 checks, which turn its report into evidence and violations.
package psched

import (
	"bytes"
	"encoding/json"
	"fmt"
	"net"
	"net/http"
	"net/http/httptest"
	"os"
	"path/filepath"
	"runtime"
	"sort"
	"strings"
	"time"

	"github.com/brutella/hc/db"
	"github.com/brutella/hc/event"
	"github.com/brutella/hc/hap"
	"github.com/brutella/hc/hap/endpoint"
	hclog "github.com/brutella/hc/log"
	"github.com/brutella/hc/verifshim/vsync"
	"github.com/brutella/hc/verifshim/vyield"

	"verif/internal/refctl"
	"verif/internal/sched"
)

// Case identifies one execution.
type Case struct {
	Kind     string `json:"kind"` // always "pairing-schedule"
	Scenario string `json:"scenario"`
	Schedule []int  `json:"schedule"`
	Bound    int    `json:"bound"`
}

// Violation is one failed execution.
type Violation struct {
	Sig  string `json:"sig"`
	Desc string `json:"desc"`
	Case Case   `json:"case"`
}

// Report is what the subprocess prints (one JSON document).
type Report struct {
	Scenarios  []ScenarioReport `json:"scenarios"`
	Violations []Violation      `json:"violations"`
	Infra      string           `json:"infra,omitempty"`
}

// ScenarioReport is the coverage of one scenario.
type ScenarioReport struct {
	Name       string   `json:"name"`
	Bound      int      `json:"bound"`
	Schedules  int      `json:"schedules"`
	Points     int      `json:"points"`
	Outcomes   []string `json:"outcomes"` // distinct observed orders of completion / storage
	Exhaustive bool     `json:"exhaustive"`
	Note       string   `json:"note,omitempty"`
}

const code = "001-02-003"

type addr string

func (a addr) Network() string { return "tcp" }
func (a addr) String() string  { return string(a) }

type nullConn struct{ remote string }

func (c *nullConn) Read(b []byte) (int, error)       { return 0, fmt.Errorf("no data") }
func (c *nullConn) Write(b []byte) (int, error)      { return len(b), nil }
func (c *nullConn) Close() error                     { return nil }
func (c *nullConn) LocalAddr() net.Addr              { return addr("10.0.0.1:51826") }
func (c *nullConn) RemoteAddr() net.Addr             { return addr(c.remote) }
func (c *nullConn) SetDeadline(time.Time) error      { return nil }
func (c *nullConn) SetReadDeadline(time.Time) error  { return nil }
func (c *nullConn) SetWriteDeadline(time.Time) error { return nil }

// world is one accessory with its pairing endpoints and some connections.
type world struct {
	dir      string
	database db.Database
	device   hap.SecuredDevice
	ctx      hap.Context
	setupEP  *endpoint.PairSetup
	verifyEP *endpoint.PairVerify
	conns    map[string]*nullConn
	yield    func()
}

func newWorld(scratch string, stored ...refctl.Identity) (*world, error) {
	dir, err := os.MkdirTemp(scratch, "psched-")
	if err != nil {
		return nil, err
	}
	database, err := db.NewDatabase(dir)
	if err != nil {
		return nil, err
	}
	for _, id := range stored {
		if err := database.SaveEntity(db.NewEntity(id.ID, id.Pub, nil)); err != nil {
			return nil, err
		}
	}
	device, err := hap.NewSecuredDevice("AC:CE:55:00:00:01", code, database)
	if err != nil {
		return nil, err
	}
	ctx := hap.NewContextForSecuredDevice(device)
	w := &world{dir: dir, database: database, device: device, ctx: ctx, conns: map[string]*nullConn{}}
	em := event.NewEmitter()
	w.setupEP = endpoint.NewPairSetup(ctx, device, database, em)
	w.verifyEP = endpoint.NewPairVerify(ctx, database)
	return w, nil
}

func (w *world) close() { os.RemoveAll(w.dir) }

func (w *world) connect(name, remote string) {
	c := &nullConn{remote: remote}
	w.conns[name] = c
	hap.NewConnection(c, w.ctx)
}

// post delivers one request body to an endpoint on a connection, as net/http would, and returns status and body.
func (w *world) post(conn string, h http.Handler, path string, body []byte) (int, []byte) {
	if w.yield != nil {
		w.yield() // the request arrives at a moment the scheduler chooses
	}
	req := httptest.NewRequest("POST", path, bytes.NewReader(body))
	req.RemoteAddr = w.conns[conn].remote
	rec := httptest.NewRecorder()
	h.ServeHTTP(rec, req)
	return rec.Code, rec.Body.Bytes()
}

func (w *world) verified(conn string) bool {
	s := w.ctx.GetSessionForConnection(w.conns[conn])
	return s != nil && s.Decrypter() != nil
}

func (w *world) stored() map[string]string {
	out := map[string]string{}
	es, err := w.database.Entities()
	if err != nil {
		out["<error>"] = err.Error()
		return out
	}
	for _, e := range es {
		if e.Name != w.device.Name() {
			out[e.Name] = fmt.Sprintf("%x", e.PublicKey)
		}
	}
	return out
}

// setupThrough runs a genuine pair-setup on a connection up to and including M4 (outside the scheduler).
func (w *world) setupThrough(conn string, seed string) (*refctl.Setup, error) {
	s := &refctl.Setup{}
	st, b := w.post(conn, w.setupEP, "/pair-setup", refctl.SetupM1())
	if st != 200 {
		return nil, fmt.Errorf("M1 status %d", st)
	}
	if err := s.ParseM2(b); err != nil {
		return nil, err
	}
	m3, err := s.M3(refctl.Seed32(seed), code)
	if err != nil {
		return nil, err
	}
	st, b = w.post(conn, w.setupEP, "/pair-setup", m3)
	if st != 200 {
		return nil, fmt.Errorf("M3 status %d", st)
	}
	if ec, err := s.ParseM4(b); err != nil || ec != 0 {
		return nil, fmt.Errorf("M4: %v code %d", err, ec)
	}
	return s, nil
}

var (
	idC1 = refctl.NewIdentity("C1C1C1C1-0000-0000-0000-000000000001", "psched-c1")
	idC2 = refctl.NewIdentity("C2C2C2C2-0000-0000-0000-000000000002", "psched-c2")
	idL  = refctl.NewIdentity("1111AAAA-2222-3333-4444-5555bbbb6666", "legit-L")
	idX  = refctl.NewIdentity("EEEEEEEE-0000-0000-0000-EEEEEEEEEEEE", "adversary-X")
)

// a scenario prepares a world, returns the thread bodies and an oracle evaluated after all threads finished.
type scenario struct {
	name  string
	props string // properties whose checks run this scenario
	bound int
	build func(w *world) (bodies []func(), oracle func() (sig, desc, outcome string), err error)
}

func expectStored(w *world, want map[string]refctl.Identity) (string, string) {
	want[idL.ID] = idL // stored before the scenario starts
	got := w.stored()
	var names []string
	for n := range got {
		names = append(names, n)
	}
	sort.Strings(names)
	for n, id := range want {
		k, ok := got[n]
		if !ok {
			return "pairing-missing", fmt.Sprintf("the pairing of %s, whose genuine key exchange was answered with M6, is not stored (stored: %v)", n, names)
		}
		if k != fmt.Sprintf("%x", id.Pub) {
			return "stored-key-differs", fmt.Sprintf("the pairing %s is stored with key %s, the signed key-exchange message delivered %x", n, k, id.Pub)
		}
	}
	for _, n := range names {
		if _, ok := want[n]; !ok {
			return "stored-without-proof", fmt.Sprintf("a pairing for %q is stored that no valid exchange delivered", n)
		}
	}
	return "", ""
}

// genuineM5 is the body of a thread that sends the genuine key exchange of a prepared exchange.
func genuineM5(w *world, conn string, s *refctl.Setup, id refctl.Identity, done *string) func() {
	return func() {
		st, b := w.post(conn, w.setupEP, "/pair-setup", s.M5(id))
		if st != 200 {
			*done = fmt.Sprintf("status %d", st)
			return
		}
		ec, err := s.ParseM6(b)
		switch {
		case err != nil:
			*done = "M6 invalid: " + err.Error()
		case ec != 0:
			*done = fmt.Sprintf("error %d", ec)
		default:
			*done = "ok"
		}
	}
}

// genuineVerify is the body of a thread that runs a complete genuine pair-verify.
func genuineVerify(w *world, conn string, id refctl.Identity, seed string, done *string) func() {
	return func() {
		v := refctl.NewVerify(refctl.Seed32(seed))
		st, b := w.post(conn, w.verifyEP, "/pair-verify", refctl.VerifyM1(v.EphPub))
		if st != 200 {
			*done = fmt.Sprintf("M1 status %d", st)
			return
		}
		if err := v.ParseM2(b, w.device.PublicKey()); err != nil {
			*done = "M2 invalid: " + err.Error()
			return
		}
		st, b = w.post(conn, w.verifyEP, "/pair-verify", v.M3(id))
		if st != 200 {
			*done = fmt.Sprintf("M3 status %d", st)
			return
		}
		ec, err := refctl.ParseVerifyM4(b)
		switch {
		case err != nil:
			*done = "M4 invalid: " + err.Error()
		case ec != 0:
			*done = fmt.Sprintf("error %d", ec)
		default:
			*done = "ok"
		}
	}
}

// forgedVerify: a complete pair-verify whose finish names `name` but is signed with X's key.
func forgedVerify(w *world, conn string, name string, seed string, done *string) func() {
	return func() {
		v := refctl.NewVerify(refctl.Seed32(seed))
		st, b := w.post(conn, w.verifyEP, "/pair-verify", refctl.VerifyM1(v.EphPub))
		if st != 200 || v.ParseM2(b, nil) != nil {
			*done = "start rejected"
			return
		}
		st, b = w.post(conn, w.verifyEP, "/pair-verify", refctl.VerifyM3Sealed(v.EncKey, v.M3Sub(name, idX.Priv)))
		ec, err := refctl.ParseVerifyM4(b)
		if st == 200 && err == nil && ec == 0 {
			*done = "ACCEPTED"
		} else {
			*done = "rejected"
		}
	}
}

func scenarios(thorough bool) []scenario {
	b2, b3 := 2, 3
	if !thorough {
		b2, b3 = 1, 2
	}
	_ = b3
	return []scenario{
		{"two genuine key exchanges (M5) of two controllers on two connections", "C02", b2 + 1, func(w *world) ([]func(), func() (string, string, string), error) {
			w.connect("c1", "10.0.0.11:50001")
			w.connect("c2", "10.0.0.12:50002")
			s1, err := w.setupThrough("c1", "ps-a1")
			if err != nil {
				return nil, nil, err
			}
			s2, err := w.setupThrough("c2", "ps-a2")
			if err != nil {
				return nil, nil, err
			}
			var d1, d2 string
			return []func(){genuineM5(w, "c1", s1, idC1, &d1), genuineM5(w, "c2", s2, idC2, &d2)}, func() (string, string, string) {
				want := map[string]refctl.Identity{}
				if d1 == "ok" {
					want[idC1.ID] = idC1
				}
				if d2 == "ok" {
					want[idC2.ID] = idC2
				}
				if d1 != "ok" || d2 != "ok" {
					return "genuine-exchange-fails", fmt.Sprintf("two controllers that know the setup code pair at the same time on two connections: key exchange 1 → %s, key exchange 2 → %s", d1, d2), ""
				}
				sig, desc := expectStored(w, want)
				return sig, desc, d1 + "/" + d2
			}, nil
		}},
		{"a genuine key exchange (M5) while a paired controller verifies on another connection", "C02 C03", b2 + 1, func(w *world) ([]func(), func() (string, string, string), error) {
			w.connect("c1", "10.0.0.11:50001")
			w.connect("cl", "10.0.0.13:50003")
			s1, err := w.setupThrough("c1", "ps-a1")
			if err != nil {
				return nil, nil, err
			}
			var d1, dl string
			return []func(){genuineM5(w, "c1", s1, idC1, &d1), genuineVerify(w, "cl", idL, "ps-vl", &dl)}, func() (string, string, string) {
				if d1 != "ok" {
					return "genuine-exchange-fails", "a genuine key exchange next to another connection's pair-verify is answered with " + d1, ""
				}
				if dl != "ok" || !w.verified("cl") {
					return "genuine-verify-fails", fmt.Sprintf("a paired controller's genuine pair-verify next to another connection's key exchange: %s, session switched: %v", dl, w.verified("cl")), ""
				}
				if w.verified("c1") {
					return "verification-carried-over", "the connection that only ran pair-setup became verified", ""
				}
				sig, desc := expectStored(w, map[string]refctl.Identity{idC1.ID: idC1, idL.ID: idL})
				return sig, desc, d1 + "/" + dl
			}, nil
		}},
		{"a genuine pair-verify and a forged one (naming the same controller) on two connections", "C03", b2 + 1, func(w *world) ([]func(), func() (string, string, string), error) {
			w.connect("cl", "10.0.0.13:50003")
			w.connect("cx", "10.0.0.66:50066")
			var dl, dx string
			return []func(){genuineVerify(w, "cl", idL, "ps-vl", &dl), forgedVerify(w, "cx", idL.ID, "ps-vx", &dx)}, func() (string, string, string) {
				if dx == "ACCEPTED" || w.verified("cx") {
					return "forged-verify-accepted", fmt.Sprintf("a finish signed with a foreign key was %s next to a genuine pair-verify of the named controller; its session switched: %v", dx, w.verified("cx")), ""
				}
				if dl != "ok" || !w.verified("cl") {
					return "genuine-verify-fails", fmt.Sprintf("the genuine pair-verify next to a forged one: %s, session switched: %v", dl, w.verified("cl")), ""
				}
				return "", "", dl + "/" + dx
			}, nil
		}},
		{"a genuine key exchange (M5) while an adversary without the code sends key exchanges and a forged pair-verify", "C02 C03", b2, func(w *world) ([]func(), func() (string, string, string), error) {
			w.connect("c1", "10.0.0.11:50001")
			w.connect("cx", "10.0.0.66:50066")
			s1, err := w.setupThrough("c1", "ps-a1")
			if err != nil {
				return nil, nil, err
			}
			var d1, dx string
			adversary := func() {
				// a start, then a key exchange sealed under a key the adversary made up, then a forged verify
				w.post("cx", w.setupEP, "/pair-setup", refctl.SetupM1())
				w.post("cx", w.setupEP, "/pair-setup", refctl.M5Sealed(refctl.Seed32("no-key"), refctl.M5Sub(nil, idX)))
				forgedVerify(w, "cx", idC1.ID, "ps-vx", &dx)()
			}
			return []func(){genuineM5(w, "c1", s1, idC1, &d1), adversary}, func() (string, string, string) {
				if dx == "ACCEPTED" || w.verified("cx") {
					return "forged-verify-accepted", "the adversary's forged pair-verify was accepted next to a genuine key exchange", ""
				}
				// hc resets a running exchange of ANOTHER connection? it must not: the genuine one completes
				if d1 != "ok" {
					return "genuine-exchange-fails", "a genuine key exchange next to an adversary's requests on another connection is answered with " + d1, ""
				}
				sig, desc := expectStored(w, map[string]refctl.Identity{idC1.ID: idC1, idL.ID: idL})
				return sig, desc, d1 + "/" + dx
			}, nil
		}},
	}
}

func installHooks(S *sched.Sched) {
	vsync.HookLock = func(m *vsync.Mutex) bool {
		if !S.Active() {
			return false
		}
		S.Point(func() bool { return !m.Held })
		m.Held = true
		return true
	}
	vsync.HookUnlock = func(m *vsync.Mutex) bool {
		if !S.Active() {
			return false
		}
		m.Held = false
		return true
	}
	vsync.HookRLock = func(m *vsync.RWMutex, write bool) bool {
		if !S.Active() {
			return false
		}
		if write {
			S.Point(func() bool { return !m.Writer && m.Readers == 0 })
			m.Writer = true
		} else {
			S.Point(func() bool { return !m.Writer })
			m.Readers++
		}
		return true
	}
	vsync.HookRUnlock = func(m *vsync.RWMutex, write bool) bool {
		if !S.Active() {
			return false
		}
		if write {
			m.Writer = false
		} else {
			m.Readers--
		}
		return true
	}
	vsync.HookActive = func() bool { return S.Active() }
	vsync.HookCondWait = func(cd *vsync.Cond, w *vsync.CondWaiter) bool {
		S.Point(func() bool { return w.Woken })
		return true
	}
	hclog.VerifYield = func() {
		if S.Active() {
			S.Point(nil)
		}
	}
	if statementLevel() {
		// in the binary whose hc packages carry a scheduling point before every statement: those points too
		vyield.Hook = hclog.VerifYield
		vyield.GoHook = func(fn func()) { // a go statement of hc starts a managed thread
			if S.Active() {
				S.Spawn(fn)
			} else {
				go fn()
			}
		}
	}
}

// statementLevel: PSCHED_STATEMENTS=1 asks for statement-level scheduling points (preemption bound 1).
func statementLevel() bool { return os.Getenv("PSCHED_STATEMENTS") == "1" }

func removeHooks() {
	vsync.HookLock, vsync.HookUnlock, vsync.HookRLock, vsync.HookRUnlock = nil, nil, nil, nil
	vsync.HookCondWait, vsync.HookActive = nil, nil
	hclog.VerifYield = nil
	vyield.Hook = nil
	vyield.GoHook = nil
}

// execute runs one schedule of a scenario.
func execute(scratch string, sc scenario, prefix []int, rep *Report, sr *ScenarioReport, outcomes map[string]bool) []sched.PointRec {
	w, err := newWorld(scratch, idL)
	if err != nil {
		rep.Infra = "world: " + err.Error()
		return nil
	}
	defer w.close()
	bodies, oracle, err := sc.build(w)
	if err != nil {
		rep.Infra = "scenario prelude: " + err.Error()
		return nil
	}
	S := &sched.Sched{}
	installHooks(S)
	w.yield = hclog.VerifYield
	var panicked interface{}
	for i, b := range bodies {
		b := b
		bodies[i] = func() {
			defer func() {
				if p := recover(); p != nil {
					panicked = p
				}
			}()
			b()
		}
	}
	out := S.Run(prefix, bodies)
	removeHooks()
	w.yield = nil
	sr.Schedules++
	sr.Points += len(out.Points)
	cas := Case{Kind: "pairing-schedule", Scenario: sc.name, Schedule: sched.Choices(out.Points), Bound: sc.bound}
	switch {
	case out.Stuck:
		sr.Exhaustive = false
		sr.Note = "a handler blocked on a primitive the scheduler does not model"
		return out.Points
	case out.Deadlock:
		rep.Violations = append(rep.Violations, Violation{"pairing-schedule/deadlock", "all pairing handlers are blocked — scenario: " + sc.name, cas})
		return out.Points
	case panicked != nil:
		rep.Violations = append(rep.Violations, Violation{"pairing-schedule/panic", fmt.Sprintf("a pairing handler panics under a particular interleaving (%v) — scenario: %s", panicked, sc.name), cas})
		return out.Points
	}
	sig, desc, outcome := oracle()
	if sig != "" {
		rep.Violations = append(rep.Violations, Violation{"pairing-schedule/" + sig, desc + " — scenario: " + sc.name + ", schedule " + fmt.Sprint(cas.Schedule), cas})
	} else {
		outcomes[outcome+"|"+completionOrder(out.Points)] = true
	}
	return out.Points
}

// completionOrder abstracts a schedule to the sequence of thread switches (distinct outcomes = really different runs).
func completionOrder(pts []sched.PointRec) string {
	var b strings.Builder
	last := -1
	for _, p := range pts {
		if len(p.Enabled) == 0 {
			continue
		}
		t := p.Enabled[p.Chosen]
		if t != last {
			fmt.Fprintf(&b, "%d", t)
			last = t
		}
	}
	return b.String()
}

// Main is the entry of `vsched pairsched <tier> <part> <parts> <scratch> <property>` and `vsched pairsched-replay <scratch> <case json>`.
func Main(args []string) {
	runtime.GOMAXPROCS(1)
	hclog.Info.Disable()
	rep := &Report{}
	defer func() {
		j, _ := json.Marshal(rep)
		fmt.Println("PSCHED-REPORT " + string(j))
	}()
	if len(args) >= 3 && args[0] == "pairsched-replay" {
		var cas Case
		if err := json.Unmarshal([]byte(args[2]), &cas); err != nil {
			rep.Infra = err.Error()
			return
		}
		for _, sc := range scenarios(true) {
			if sc.name+" [statement-level scheduling points]" == cas.Scenario {
				sc.name = cas.Scenario
				os.Setenv("PSCHED_STATEMENTS", "1")
			}
			if sc.name == cas.Scenario {
				sr := ScenarioReport{Name: sc.name, Bound: cas.Bound, Exhaustive: true}
				execute(args[1], sc, cas.Schedule, rep, &sr, map[string]bool{})
				rep.Scenarios = append(rep.Scenarios, sr)
			}
		}
		return
	}
	if len(args) < 6 {
		rep.Infra = "usage: pairsched <tier> <part> <parts> <scratch> <property>"
		return
	}
	prop := args[5]
	thorough := args[1] == "thorough"
	var part, parts int
	fmt.Sscan(args[2], &part)
	fmt.Sscan(args[3], &parts)
	scratch := args[4]
	deadline := time.Now().Add(3 * time.Minute)
	if thorough {
		deadline = time.Now().Add(15 * time.Minute)
	}
	n := -1
	for _, sc := range scenarios(thorough) {
		if !strings.Contains(sc.props, prop) {
			continue
		}
		if statementLevel() {
			sc.bound = 1
			sc.name += " [statement-level scheduling points]"
		}
		n++
		if parts > 1 && n%parts != part {
			continue
		}
		sr := ScenarioReport{Name: sc.name, Bound: sc.bound, Exhaustive: true}
		outcomes := map[string]bool{}
		sched.Explore(sc.bound, func(prefix []int) []sched.PointRec {
			return execute(scratch, sc, prefix, rep, &sr, outcomes)
		}, func() bool { return time.Now().After(deadline) || rep.Infra != "" || len(rep.Violations) > 200 })
		if time.Now().After(deadline) {
			sr.Exhaustive = false
			sr.Note = "deadline"
		}
		for o := range outcomes {
			sr.Outcomes = append(sr.Outcomes, o)
		}
		sort.Strings(sr.Outcomes)
		if len(sr.Outcomes) > 40 {
			sr.Outcomes = sr.Outcomes[:40]
		}
		rep.Scenarios = append(rep.Scenarios, sr)
	}
	_ = filepath.Join
}
