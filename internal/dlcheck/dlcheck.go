// Package dlcheck decides that hap.Connection is transparent for deadlines: after every sequence of SetDeadline /
// SetReadDeadline / SetWriteDeadline calls on the hap.Connection, the read and the write deadline in force on the
// underlying socket are those a direct caller of the socket would have left. net/http drives every connection through
// these calls (it interrupts its background read with a read deadline in the past at the end of every request), so a
// read deadline that stays in force makes later reads fail although well-formed frames arrive (C07), and a read
// deadline that leaks into the write deadline makes a concurrent event write fail after its frame counter is spent (C08).
package dlcheck

import (
	"fmt"
	"net"
	"strings"
	"time"

	"github.com/brutella/hc/hap"
)

type sock struct {
	rd, wd time.Time
	calls  []string
}

func (s *sock) Read(b []byte) (int, error)  { return 0, fmt.Errorf("not used") }
func (s *sock) Write(b []byte) (int, error) { return len(b), nil }
func (s *sock) Close() error                { return nil }
func (s *sock) LocalAddr() net.Addr         { return &net.TCPAddr{IP: net.IPv4(10, 0, 0, 1), Port: 1} }
func (s *sock) RemoteAddr() net.Addr        { return &net.TCPAddr{IP: net.IPv4(10, 0, 0, 2), Port: 2} }
func (s *sock) SetDeadline(t time.Time) error {
	s.rd, s.wd = t, t
	return nil
}
func (s *sock) SetReadDeadline(t time.Time) error  { s.rd = t; return nil }
func (s *sock) SetWriteDeadline(t time.Time) error { s.wd = t; return nil }

// Case is a replayable sequence of symbols "<op>:<value>", op ∈ {D, R, W}, value ∈ {zero, past, t1, t2}.
type Case struct {
	Kind string   `json:"kind"` // "deadline-sequence"
	Ops  []string `json:"ops"`
}

var base = time.Date(2030, 1, 1, 0, 0, 0, 0, time.UTC)

func value(v string) time.Time {
	switch v {
	case "past":
		return time.Unix(1, 0) // net/http's aLongTimeAgo
	case "t1":
		return base
	case "t2":
		return base.Add(time.Hour)
	}
	return time.Time{}
}

// Symbols is the alphabet.
func Symbols() []string {
	var out []string
	for _, op := range []string{"R", "D", "W"} {
		for _, v := range []string{"zero", "past", "t1", "t2"} {
			out = append(out, op+":"+v)
		}
	}
	// writes of the three kinds the library knows (a response piece, a notification on an idle connection, a notification
	// that becomes due inside a response and is flushed at its end): whatever they do about their own timeout, the READ
	// deadline is not theirs
	out = append(out, "M:write", "M:idle", "M:resp")
	return out
}

// Run executes one sequence on a fresh connection; it returns "" or a description of the first divergence.
func Run(ops []string) string {
	s := &sock{}
	conn := hap.NewConnection(s, hap.NewContextForSecuredDevice(nil))
	var mr, mw time.Time
	for i, sym := range ops {
		op, v, _ := strings.Cut(sym, ":")
		t := value(v)
		switch op {
		case "D":
			conn.SetDeadline(t)
			mr, mw = t, t
		case "R":
			conn.SetReadDeadline(t)
			mr = t
		case "W":
			conn.SetWriteDeadline(t)
			mw = t
		case "M":
			switch v {
			case "write":
				conn.Write([]byte("HTTP/1.1 204 No Content\r\n\r\n"))
			case "idle":
				conn.WriteMessage([]byte("EVENT/1.0 200 OK\r\n\r\n"))
			case "resp":
				conn.BeginResponse()
				conn.WriteMessage([]byte("EVENT/1.0 200 OK\r\n\r\n"))
				conn.Write([]byte("HTTP/1.1 204 No Content\r\n\r\n"))
				conn.EndResponse()
			}
			if !s.rd.Equal(mr) {
				return fmt.Sprintf("after %s (step %d of %s) the socket's read deadline is %s; before the write it was %s: a write has left a read deadline behind (or taken one away)",
					sym, i+1, strings.Join(ops, ", "), show(s.rd), show(mr))
			}
			mw = s.wd // (what a write does about its own timeout is not judged here)
			continue
		}
		if !s.rd.Equal(mr) || !s.wd.Equal(mw) {
			return fmt.Sprintf("after %s (call %d of %s) the socket's deadlines are read=%s write=%s; a direct caller of the socket would have left read=%s write=%s",
				sym, i+1, strings.Join(ops, ", "), show(s.rd), show(s.wd), show(mr), show(mw))
		}
	}
	return ""
}

func show(t time.Time) string {
	switch {
	case t.IsZero():
		return "none"
	case t.Equal(value("past")):
		return "past"
	case t.Equal(value("t1")):
		return "t1"
	case t.Equal(value("t2")):
		return "t2"
	}
	return t.String()
}

// Explore runs every sequence of length ≤ depth; report is called for each diverging sequence that has no diverging
// proper prefix. It returns the number of sequences executed.
func Explore(depth int, report func(sig, desc string, cas Case)) int {
	syms := Symbols()
	n := 0
	var rec func(h []string)
	rec = func(h []string) {
		if len(h) > 0 {
			n++
			if d := Run(h); d != "" {
				report("deadline-not-forwarded/"+strings.Join(classes(h), ","), d, Case{Kind: "deadline-sequence", Ops: append([]string{}, h...)})
				return
			}
		}
		if len(h) == depth {
			return
		}
		for _, s := range syms {
			rec(append(h, s))
		}
	}
	rec(nil)
	return n
}

func classes(h []string) []string {
	var out []string
	for _, s := range h {
		out = append(out, s[:1])
	}
	return out
}
