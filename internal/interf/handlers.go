package interf

// Handler-level pairs: two verified connections of ONE accessory (the wiring of a real, not started IP transport:
// context, container, notification fan-out; the server without a listener) issue requests that touch DIFFERENT
// characteristics, or the application changes a value meanwhile. Under every interleaving at statement granularity
// each side observes what it observes when the two run one after the other.

import (
	"bytes"
	"fmt"
	"io"
	"net"
	"net/http"
	"net/http/httptest"
	"os"
	"path/filepath"
	"runtime/debug"
	"strings"
	"time"

	"github.com/brutella/hc"
	"github.com/brutella/hc/accessory"
	hccrypto "github.com/brutella/hc/crypto"
	"github.com/brutella/hc/db"
	"github.com/brutella/hc/hap"

	"verif/internal/refctl"
	"verif/internal/sched"
)

type haddr string

func (a haddr) Network() string { return "tcp" }
func (a haddr) String() string  { return string(a) }

type hconn struct {
	remote string
	wire   []byte
	in     []byte // incoming ciphertext, handed out at most 700 bytes per Read
}

type htimeout struct{}

func (htimeout) Error() string   { return "i/o timeout" }
func (htimeout) Timeout() bool   { return true }
func (htimeout) Temporary() bool { return true }

func (c *hconn) Read(b []byte) (int, error) {
	if len(c.in) == 0 {
		return 0, htimeout{}
	}
	n := len(c.in)
	if n > 700 {
		n = 700
	}
	n = copy(b, c.in[:n])
	c.in = c.in[n:]
	return n, nil
}
func (c *hconn) Write(b []byte) (int, error)      { c.wire = append(c.wire, b...); return len(b), nil }
func (c *hconn) Close() error                     { return nil }
func (c *hconn) LocalAddr() net.Addr              { return haddr("10.0.0.1:51826") }
func (c *hconn) RemoteAddr() net.Addr             { return haddr(c.remote) }
func (c *hconn) SetDeadline(time.Time) error      { return nil }
func (c *hconn) SetReadDeadline(time.Time) error  { return nil }
func (c *hconn) SetWriteDeadline(time.Time) error { return nil }

var (
	hidL = refctl.NewIdentity("1111AAAA-2222-3333-4444-5555bbbb6666", "legit-L")
	hidX = refctl.NewIdentity("EEEEEEEE-0000-0000-0000-EEEEEEEEEEEE", "adversary-X")
)

// accept registers a new, unverified connection and returns its index.
func (w *hworld) accept(remote string) int {
	// (the index is fixed before any instrumented code runs: the other thread may accept a connection meanwhile)
	c := &hconn{remote: remote}
	idx := len(w.conns)
	w.conns = append(w.conns, c)
	w.hc = append(w.hc, nil)
	w.hc[idx] = hap.NewConnection(c, w.ctx)
	return idx
}

// acceptVerified registers a new connection whose session already has its keys (secret derived from seed).
func (w *hworld) acceptVerified(remote string, seed byte) int {
	c := w.accept(remote)
	var secret [32]byte
	copy(secret[:], pat(32, seed))
	w.extraSecrets = append(w.extraSecrets, secret)
	w.extraIdx = append(w.extraIdx, c)
	cs, _ := hccrypto.NewSecureSessionFromSharedKey(secret)
	sess := w.ctx.GetSessionForConnection(w.conns[c])
	sess.SetCryptographer(cs)
	sess.Decrypter()
	sess.Encrypter()
	return c
}

func (w *hworld) secretOf(conn int) []byte {
	if conn < 2 {
		return w.secret[conn][:]
	}
	for i, c := range w.extraIdx {
		if c == conn {
			return w.extraSecrets[i][:]
		}
	}
	return make([]byte, 32)
}

func (w *hworld) post(conn int, path string, body []byte) (int, []byte) {
	req := httptest.NewRequest("POST", path, bytes.NewReader(body))
	req.RemoteAddr = w.conns[conn].remote
	rec := httptest.NewRecorder()
	w.mux.ServeHTTP(rec, req)
	return rec.Code, rec.Body.Bytes()
}

func (w *hworld) switched(conn int) bool {
	s := w.ctx.GetSessionForConnection(w.conns[conn])
	return s != nil && s.Decrypter() != nil
}

// verify runs a complete pair-verify on a new connection; the finish names `name` and is signed with priv.
func (w *hworld) verify(remote, seed, name string, id refctl.Identity) string {
	c := w.accept(remote)
	v := refctl.NewVerify(refctl.Seed32(seed))
	st, b := w.post(c, "/pair-verify", refctl.VerifyM1(v.EphPub))
	if st != 200 || v.ParseM2(b, nil) != nil {
		return fmt.Sprintf("start rejected (%d)", st)
	}
	st, b = w.post(c, "/pair-verify", refctl.VerifyM3Sealed(v.EncKey, v.M3Sub(name, id.Priv)))
	ec, err := refctl.ParseVerifyM4(b)
	res := fmt.Sprintf("finish: status %d error %d %v, session switched: %v", st, ec, err != nil, w.switched(c))
	if w.switched(c) {
		// what a verified connection may do
		res += " | " + w.do(c, "GET", "/characteristics?id="+w.id("on"), "")
	} else {
		res += " | " + w.do(c, "GET", "/characteristics?id="+w.id("on"), "")
	}
	return res
}

type hworld struct {
	dir          string
	mux          *http.ServeMux
	ctx          hap.Context
	sw           *accessory.Switch
	bulb         *accessory.ColoredLightbulb
	conns        []*hconn
	hc           []*hap.Connection
	secret       [2][32]byte
	remote       map[string]int // application callback counters
	extraSecrets [][32]byte
	extraIdx     []int
	dbase        db.Database            // a bare database for the database-level pairs
	sess         hccrypto.Cryptographer // a bare session for the session-level pair
	sessIn       []byte
}

func newHWorld(scratch string) (*hworld, error) {
	dir, err := os.MkdirTemp(scratch, "interf-world-")
	if err != nil {
		return nil, err
	}
	w := &hworld{dir: dir, remote: map[string]int{}}
	w.sw = accessory.NewSwitch(accessory.Info{Name: "HSwitch", SerialNumber: "S-1"})
	w.bulb = accessory.NewColoredLightbulb(accessory.Info{Name: "HBulb", SerialNumber: "S-2"})
	if database, err := db.NewDatabase(filepath.Join(dir, "db")); err == nil {
		database.SaveEntity(db.NewEntity(hidL.ID, hidL.Pub, nil)) // a paired controller
	}
	t, err := hc.NewIPTransport(hc.Config{StoragePath: filepath.Join(dir, "db"), Pin: "00102003"}, w.sw.Accessory, w.bulb.Accessory)
	if err != nil {
		return nil, err
	}
	acc := t
	w.ctx, w.mux = acc.VerifContext(), acc.VerifMux()
	w.sw.Switch.On.OnValueRemoteUpdate(func(bool) { w.remote["on"]++ })
	w.bulb.Lightbulb.Brightness.OnValueRemoteUpdate(func(int) { w.remote["brightness"]++ })
	for i := 0; i < 2; i++ {
		c := &hconn{remote: fmt.Sprintf("10.0.0.%d:5000%d", 20+i, i)}
		w.conns = append(w.conns, c)
		w.hc = append(w.hc, hap.NewConnection(c, w.ctx))
		copy(w.secret[i][:], pat(32, byte(40+i)))
		cs, err := hccrypto.NewSecureSessionFromSharedKey(w.secret[i])
		if err != nil {
			return nil, err
		}
		sess := w.ctx.GetSessionForConnection(c)
		sess.SetCryptographer(cs)
		sess.Decrypter()
		sess.Encrypter()
	}
	return w, nil
}

func (w *hworld) close() { os.RemoveAll(w.dir) }

func (w *hworld) do(conn int, method, target, body string) string {
	var rd *strings.Reader
	if body != "" {
		rd = strings.NewReader(body)
	}
	var req *http.Request
	if rd != nil {
		req = httptest.NewRequest(method, target, rd)
	} else {
		req = httptest.NewRequest(method, target, nil)
	}
	req.RemoteAddr = w.conns[conn].remote
	rec := httptest.NewRecorder()
	w.mux.ServeHTTP(rec, req)
	return fmt.Sprintf("%d %s", rec.Code, strings.TrimSpace(rec.Body.String()))
}

// events decrypts what was written to a connection (EVENT messages) and returns the bodies in order.
func (w *hworld) events(conn int) string {
	a2c, _ := refctl.SessionKeys(w.secretOf(conn))
	var ctr uint64
	pts, err := refctl.OpenFrames(a2c, &ctr, w.conns[conn].wire)
	if err != nil {
		return "undecryptable: " + err.Error()
	}
	var out []string
	for _, m := range bytes.Split(bytes.Join(pts, nil), []byte("EVENT/1.0 200 OK")) {
		if i := bytes.Index(m, []byte("\r\n\r\n")); i >= 0 {
			out = append(out, string(bytes.TrimSpace(m[i+4:])))
		}
	}
	return strings.Join(out, " | ")
}

func (w *hworld) id(kind string) string {
	switch kind {
	case "on":
		return fmt.Sprintf("%d.%d", w.sw.Accessory.ID, w.sw.Switch.On.ID)
	case "brightness":
		return fmt.Sprintf("%d.%d", w.bulb.Accessory.ID, w.bulb.Lightbulb.Brightness.ID)
	case "hue":
		return fmt.Sprintf("%d.%d", w.bulb.Accessory.ID, w.bulb.Lightbulb.Hue.ID)
	}
	return "0.0"
}

func (w *hworld) put(kind, field, value string) string {
	p := strings.SplitN(w.id(kind), ".", 2)
	return fmt.Sprintf(`{"characteristics":[{"aid":%s,"iid":%s,"%s":%s}]}`, p[0], p[1], field, value)
}

// hpair is a pair of actions on one world plus what is observed afterwards.
type hpair struct {
	name  string
	props string
	prep  func(w *hworld)
	a, b  func(w *hworld) string
	after func(w *hworld) string
}

// hpairs lists every pair twice: as written and with the two sides swapped, so that "one preemption" covers a
// preemption of either side (thread 0 starts).
func hpairs() []hpair {
	var out []hpair
	for _, p := range hpairsBase() {
		out = append(out, p)
		out = append(out, hpair{name: p.name + " [sides swapped]", props: p.props, prep: p.prep, a: p.b, b: p.a, after: p.after})
	}
	return out
}

func hpairsBase() []hpair {
	state := func(w *hworld) string {
		return fmt.Sprintf("on=%v brightness=%v hue=%v callbacks=%v", w.sw.Switch.On.GetValue(), w.bulb.Lightbulb.Brightness.GetValue(), w.bulb.Lightbulb.Hue.GetValue(), fmt.Sprint(w.remote))
	}
	return []hpair{
		{"reads of different characteristics on two connections", "C09", nil,
			func(w *hworld) string { return w.do(0, "GET", "/characteristics?id="+w.id("on"), "") },
			func(w *hworld) string {
				return w.do(1, "GET", "/characteristics?id="+w.id("brightness")+","+w.id("hue"), "")
			}, state},
		{"writes to different characteristics on two connections", "C09 C11 C12", nil,
			func(w *hworld) string { return w.do(0, "PUT", "/characteristics", w.put("on", "value", "true")) },
			func(w *hworld) string { return w.do(1, "PUT", "/characteristics", w.put("brightness", "value", "42")) }, state},
		{"the attribute database on one connection, a subscription on the other", "C09 C14 C10", nil,
			func(w *hworld) string { return h([]byte(w.do(0, "GET", "/accessories", ""))) },
			func(w *hworld) string { return w.do(1, "PUT", "/characteristics", w.put("brightness", "ev", "true")) }, state},
		{"a write that notifies the other connection while that connection reads another characteristic", "C10 C08 C09",
			func(w *hworld) { w.do(1, "PUT", "/characteristics", w.put("on", "ev", "true")) },
			func(w *hworld) string { return w.do(0, "PUT", "/characteristics", w.put("on", "value", "true")) },
			func(w *hworld) string { return w.do(1, "GET", "/characteristics?id="+w.id("hue"), "") },
			func(w *hworld) string { return state(w) + " events(c0)=" + w.events(0) + " events(c1)=" + w.events(1) }},
		{"an application change and a controller write, each notifying the other connection", "C10 C08",
			func(w *hworld) {
				w.do(1, "PUT", "/characteristics", w.put("on", "ev", "true"))
				w.do(0, "PUT", "/characteristics", w.put("brightness", "ev", "true"))
			},
			func(w *hworld) string { w.sw.Switch.On.SetValue(true); return "set" },
			func(w *hworld) string { return w.do(1, "PUT", "/characteristics", w.put("brightness", "value", "42")) },
			func(w *hworld) string { return state(w) + " events(c0)=" + w.events(0) + " events(c1)=" + w.events(1) }},
		{"Encrypt and Decrypt on ONE secure session at the same time (an event is sealed while a request is opened)", "C06 C05 C08",
			func(w *hworld) {
				var secret [32]byte
				copy(secret[:], pat(32, 77))
				w.sess, _ = hccrypto.NewSecureSessionFromSharedKey(secret)
				_, c2a := refctl.SessionKeys(secret[:])
				var ctr uint64
				w.sessIn = refctl.Frames(c2a, &ctr, wpayload(5, 1100))
			},
			func(w *hworld) string {
				r, err := w.sess.Encrypt(bytes.NewReader(wpayload(6, 1100)))
				if err != nil {
					return "encrypt: " + err.Error()
				}
				ct, _ := io.ReadAll(r)
				var secret [32]byte
				copy(secret[:], pat(32, 77))
				a2c, _ := refctl.SessionKeys(secret[:])
				var ctr uint64
				pts, err := refctl.OpenFrames(a2c, &ctr, ct)
				return fmt.Sprint(err, bytes.Equal(bytes.Join(pts, nil), wpayload(6, 1100)))
			},
			func(w *hworld) string {
				r, err := w.sess.Decrypt(bytes.NewReader(w.sessIn))
				if err != nil {
					return "decrypt: " + err.Error()
				}
				pt, _ := io.ReadAll(r)
				return fmt.Sprint(bytes.Equal(pt, wpayload(5, 1100)))
			},
			func(w *hworld) string { return "" }},
		{"two writers on one encrypted connection", "C08", nil,
			func(w *hworld) string { _, err := w.hc[0].Write(wpayload(1, 1500)); return fmt.Sprint(err) },
			func(w *hworld) string { _, err := w.hc[0].Write(wpayload(2, 40)); return fmt.Sprint(err) },
			func(w *hworld) string { return w.plain(0) }},
		{"a writer and the reader of one encrypted connection", "C08 C07",
			func(w *hworld) {
				_, c2a := refctl.SessionKeys(w.secret[0][:])
				var ctr uint64
				w.conns[0].in = refctl.Frames(c2a, &ctr, wpayload(3, 1500))
			},
			func(w *hworld) string { _, err := w.hc[0].Write(wpayload(1, 1500)); return fmt.Sprint(err) },
			func(w *hworld) string {
				var got []byte
				buf := make([]byte, 4096)
				for len(got) < 1500 {
					n, err := w.hc[0].Read(buf)
					got = append(got, buf[:n]...)
					if err != nil {
						return fmt.Sprintf("read error after %d bytes: %v", len(got), err)
					}
				}
				return fmt.Sprint(bytes.Equal(got, wpayload(3, 1500)))
			},
			func(w *hworld) string { return w.plain(0) }},
		{"writers on two encrypted connections of one accessory", "C08 C05 C06 C09", nil,
			func(w *hworld) string { _, err := w.hc[0].Write(wpayload(1, 1500)); return fmt.Sprint(err) },
			func(w *hworld) string { _, err := w.hc[1].Write(wpayload(2, 1100)); return fmt.Sprint(err) },
			func(w *hworld) string { return w.plain(0) + " / " + w.plain(1) }},
		{"a genuine and a forged pair-verify naming the same controller on two new connections", "C03 C01", nil,
			func(w *hworld) string { return w.verify("10.0.0.31:50031", "hv-l", hidL.ID, hidL) },
			func(w *hworld) string { return w.verify("10.0.0.66:50066", "hv-x", hidL.ID, hidX) }, state},
		{"a pair-verify on a new connection while a verified connection writes", "C03 C09", nil,
			func(w *hworld) string { return w.verify("10.0.0.31:50031", "hv-l", hidL.ID, hidL) },
			func(w *hworld) string { return w.do(1, "PUT", "/characteristics", w.put("brightness", "value", "42")) }, state},
		{"a malformed request on one connection, a read on the other", "C13 C09", nil,
			func(w *hworld) string {
				return w.do(0, "PUT", "/characteristics", `{"characteristics":[{"aid":"x","iid":[1],"value":{"a":null}},null]}`)
			},
			func(w *hworld) string {
				return w.do(1, "GET", "/characteristics?id="+w.id("brightness")+","+w.id("on"), "")
			}, state},
		{"an administrator removes a pairing while the removed controller verifies; afterwards it must be refused", "C01 C03 C18",
			func(w *hworld) {
				// the pairing was added while the accessory was running (through /pairings), not before its start
				body := refctl.TLVEncode(refctl.T(refctl.TagState, []byte{1}), refctl.T(refctl.TagMethod, []byte{3}), refctl.T(refctl.TagIdentifier, []byte(hidL.ID)), refctl.T(refctl.TagPublicKey, hidL.Pub), refctl.T(refctl.TagPermission, []byte{1}))
				w.post(0, "/pairings", body)
			},
			func(w *hworld) string {
				body := refctl.TLVEncode(refctl.T(refctl.TagState, []byte{1}), refctl.T(refctl.TagMethod, []byte{4}), refctl.T(refctl.TagIdentifier, []byte(hidL.ID)))
				st, _ := w.post(0, "/pairings", body)
				return fmt.Sprint(st)
			},
			func(w *hworld) string {
				w.verify("10.0.0.31:50031", "hv-l", hidL.ID, hidL) // succeeds or not, depending on the order: both are fine
				return "-"
			},
			func(w *hworld) string { return "later attempt: " + w.verify("10.0.0.32:50032", "hv-l2", hidL.ID, hidL) }},
		{"a change is fanned out to five subscribed connections while one of them closes", "C10 C13 C08",
			func(w *hworld) {
				for i := 0; i < 3; i++ {
					w.acceptVerified(fmt.Sprintf("10.0.0.%d:5100%d", 40+i, i), byte(60+i))
				}
				for c := 0; c < 5; c++ {
					w.do(c, "PUT", "/characteristics", w.put("on", "ev", "true"))
				}
			},
			func(w *hworld) string { w.sw.Switch.On.SetValue(true); return "set" },
			func(w *hworld) string { w.hc[1].Close(); return "closed" },
			func(w *hworld) string {
				var out []string
				for _, c := range []int{0, 2, 3, 4} {
					out = append(out, fmt.Sprintf("c%d: %s", c, w.events(c)))
				}
				return strings.Join(out, " ; ")
			}},
		{"an entity is deleted while it is looked up (one database object, as the handlers of two connections use it); afterwards it is gone", "C18 C01 C03",
			func(w *hworld) {
				w.dbase, _ = db.NewDatabase(filepath.Join(w.dir, "db2"))
				w.dbase.SaveEntity(db.NewEntity("ctl", pat(32, 1), nil))
			},
			func(w *hworld) string { w.dbase.DeleteEntity(db.NewEntity("ctl", nil, nil)); return "deleted" },
			func(w *hworld) string { w.dbase.EntityWithName("ctl"); return "-" },
			func(w *hworld) string {
				_, err := w.dbase.EntityWithName("ctl")
				es, _ := w.dbase.Entities()
				return fmt.Sprintf("lookup afterwards fails: %v, %d entities listed", err != nil, len(es))
			}},
		{"two entities are saved at the same time through one database object; each is stored with its own key", "C18 C02",
			func(w *hworld) { w.dbase, _ = db.NewDatabase(filepath.Join(w.dir, "db2")) },
			func(w *hworld) string {
				return fmt.Sprint(w.dbase.SaveEntity(db.NewEntity("controller-one", pat(32, 1), nil)))
			},
			func(w *hworld) string {
				return fmt.Sprint(w.dbase.SaveEntity(db.NewEntity("controller-two", pat(32, 2), pat(64, 3))))
			},
			func(w *hworld) string {
				a, ea := w.dbase.EntityWithName("controller-one")
				b, eb := w.dbase.EntityWithName("controller-two")
				return fmt.Sprintf("%v %s %s | %v %s %s", ea, a.Name, h(a.PublicKey), eb, b.Name, h(b.PublicKey))
			}},
		{"an entity is replaced while it is looked up; afterwards the new key is returned", "C18 C02 C04",
			func(w *hworld) {
				w.dbase, _ = db.NewDatabase(filepath.Join(w.dir, "db2"))
				w.dbase.SaveEntity(db.NewEntity("ctl", pat(32, 1), nil))
			},
			func(w *hworld) string { return fmt.Sprint(w.dbase.SaveEntity(db.NewEntity("ctl", pat(32, 2), nil))) },
			func(w *hworld) string { w.dbase.EntityWithName("ctl"); return "-" },
			func(w *hworld) string {
				e, err := w.dbase.EntityWithName("ctl")
				return fmt.Sprintf("lookup afterwards: %v %s", err, h(e.PublicKey))
			}},
		{"a new, unverified connection asks for the attribute database while a verified one is served", "C01 C03", nil,
			func(w *hworld) string { return h([]byte(w.do(0, "GET", "/accessories", ""))) },
			func(w *hworld) string {
				c := w.accept("10.0.0.99:59999")
				return w.do(c, "GET", "/accessories", "") + " | " + w.do(c, "GET", "/characteristics?id="+w.id("on"), "")
			}, state},
	}
}

func wpayload(seed byte, n int) []byte {
	b := pat(n, seed)
	copy(b, "EVENT/1.0 200 OK\r\n")
	return b
}

// plain decrypts everything written to a connection and names the payloads it consists of.
func (w *hworld) plain(conn int) string {
	a2c, _ := refctl.SessionKeys(w.secret[conn][:])
	var ctr uint64
	pts, err := refctl.OpenFrames(a2c, &ctr, w.conns[conn].wire)
	if err != nil {
		return fmt.Sprintf("frame %d undecryptable: %v", ctr, err)
	}
	return h(bytes.Join(pts, nil)) + fmt.Sprintf(" (%d frames)", len(pts))
}

// exploreHPair explores all schedules of (a ‖ b) on one world with at most `bound` preemptions; what both sides
// and the final observation show must be what one of the two sequential orders shows.
func exploreHPair(scratch string, hp hpair, bound int, rep *Report, deadline time.Time) {
	sequential := func(first, second func(*hworld) string, swap bool) (string, error) {
		w, err := newHWorld(scratch)
		if err != nil {
			return "", err
		}
		defer w.close()
		if hp.prep != nil {
			hp.prep(w)
			waitFree()
		}
		r1 := first(w)
		waitFree()
		r2 := second(w)
		waitFree()
		if swap {
			r1, r2 = r2, r1
		}
		return r1 + " ## " + r2 + " ## " + hp.after(w), nil
	}
	refAB, err := sequential(hp.a, hp.b, false)
	if err != nil {
		rep.Infra = "handler world: " + err.Error()
		return
	}
	refBA, _ := sequential(hp.b, hp.a, true)
	if os.Getenv("INTERF_DEBUG") != "" {
		fmt.Fprintf(os.Stderr, "pair %q\n  a;b: %s\n  b;a: %s\n", hp.name, refAB, refBA)
	}
	if again, _ := sequential(hp.a, hp.b, false); again != refAB {
		rep.Infra = "handler pair " + hp.name + " is not deterministic when run sequentially"
		return
	}
	pr := PairReport{A: "handlers: " + hp.name, B: "", Bound: bound, Exhaustive: true}
	nviol := 0
	confirming, confirmed := false, false
	var runOne func(prefix []int) []sched.PointRec
	runOne = func(prefix []int) []sched.PointRec {
		w, err := newHWorld(scratch)
		if err != nil {
			rep.Infra = "handler world: " + err.Error()
			return nil
		}
		defer w.close()
		if hp.prep != nil {
			hp.prep(w)
			waitFree()
		}
		S := &sched.Sched{}
		capped := false
		yieldHooks(S, capFor(bound), &capped)
		installSync(S)
		var ra, rb string
		var pa, pb interface{}
		guard := func(f func(*hworld) string, res *string, p *interface{}) func() {
			return func() {
				defer func() {
					if x := recover(); x != nil {
						*p = fmt.Sprintf("%v at %s", x, panicSite())
					}
				}()
				*res = f(w)
			}
		}
		out := S.Run(prefix, []func(){guard(hp.a, &ra, &pa), guard(hp.b, &rb, &pb)})
		removeYieldHooks()
		removeSync()
		pr.Schedules++
		pr.Points += len(out.Points)
		if capped {
			pr.CapHits++
		}
		cas := Case{Kind: "interference-schedule", A: "handlers: " + hp.name, Schedule: sched.Choices(out.Points), Bound: bound}
		switch {
		case confirming:
			confirmed = out.Deadlock
		case out.Stuck:
			pr.Exhaustive = false
		case out.Deadlock:
			if confirmDeadlock(runOne, sched.Choices(out.Points), &confirming, &confirmed) {
				rep.Violations = append(rep.Violations, Violation{"interference/handlers-deadlock", "two handlers block each other: " + hp.name, cas})
				nviol++
			} else {
				pr.Exhaustive = false
			}
		case diverged(pa, pb):
			// the execution did not repeat under the recorded choices: something in the code under test is not
			// deterministic (e.g. a goroutine the scheduler does not own); this schedule decides nothing
			pr.Exhaustive = false
		case pa != nil || pb != nil:
			rep.Violations = append(rep.Violations, Violation{"interference/handlers-panic", fmt.Sprintf("a handler panics only when interleaved with the other (%v %v): %s", pa, pb, hp.name), cas})
			nviol++
		default:
			got := ra + " ## " + rb + " ## " + hp.after(w)
			if got != refAB && got != refBA {
				rep.Violations = append(rep.Violations, Violation{"interference/handlers-differ", fmt.Sprintf("%s: interleaved, the two sides and the final state show %q; one after the other they show %q", hp.name, trunc(got), trunc(refAB)), cas})
				nviol++
			}
		}
		return out.Points
	}
	sched.Explore(bound, runOne, func() bool { return nviol > 3 || time.Now().After(deadline) || rep.Infra != "" })
	if time.Now().After(deadline) {
		pr.Exhaustive = false
	}
	rep.Pairs = append(rep.Pairs, pr)
}

func replayH(scratch string, hp hpair, cas Case, rep *Report) {
	// the recorded schedule as the complete prefix, no further exploration
	done := false
	sub := &Report{}
	exploreHPairPrefix(scratch, hp, cas, sub, &done)
	rep.Pairs = append(rep.Pairs, sub.Pairs...)
	rep.Violations = append(rep.Violations, sub.Violations...)
	rep.Infra = sub.Infra
}

func exploreHPairPrefix(scratch string, hp hpair, cas Case, rep *Report, done *bool) {
	w, err := newHWorld(scratch)
	if err != nil {
		rep.Infra = err.Error()
		return
	}
	defer w.close()
	ref := func(first, second func(*hworld) string, swap bool) string {
		x, err := newHWorld(scratch)
		if err != nil {
			return ""
		}
		defer x.close()
		if hp.prep != nil {
			hp.prep(x)
		}
		r1, r2 := first(x), second(x)
		if swap {
			r1, r2 = r2, r1
		}
		return r1 + " ## " + r2 + " ## " + hp.after(x)
	}
	refAB, refBA := ref(hp.a, hp.b, false), ref(hp.b, hp.a, true)
	if hp.prep != nil {
		hp.prep(w)
		waitFree()
	}
	S := &sched.Sched{}
	yieldHooks(S, capFor(cas.Bound), nil)
	installSync(S)
	var ra, rb string
	out := S.Run(cas.Schedule, []func(){func() { ra = hp.a(w) }, func() { rb = hp.b(w) }})
	removeYieldHooks()
	removeSync()
	rep.Pairs = append(rep.Pairs, PairReport{A: "handlers: " + hp.name, Bound: cas.Bound, Schedules: 1, Points: len(out.Points), Exhaustive: true})
	got := ra + " ## " + rb + " ## " + hp.after(w)
	if got != refAB && got != refBA {
		rep.Violations = append(rep.Violations, Violation{"interference/handlers-differ", fmt.Sprintf("%s: interleaved %q; sequential %q", hp.name, trunc(got), trunc(refAB)), cas})
	}
	*done = true
}

// panicSite names the hc frames of the current (panicking) goroutine's stack.
func panicSite() string {
	var out []string
	for _, l := range strings.Split(string(debug.Stack()), "\n") {
		if strings.Contains(l, ".go:") && !strings.Contains(l, "/runtime/") && !strings.Contains(l, "/src/") {
			f := strings.Fields(strings.TrimSpace(l))
			if len(f) > 0 {
				out = append(out, filepath.Base(filepath.Dir(f[0]))+"/"+filepath.Base(f[0]))
			}
		}
		if len(out) >= 6 {
			break
		}
	}
	return strings.Join(out, " < ")
}
