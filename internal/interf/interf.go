// Package interf decides non-interference between operations on DISJOINT objects (two sessions, two TLV8
// containers, two characteristics, two stores, …) executed by two goroutines: under every interleaving at
// STATEMENT granularity with at most b preemptions, each operation returns exactly what it returns when it runs
// alone. Whatever makes them interfere is module-level mutable state (a scratch buffer hoisted to package scope, a
// recycled buffer still referenced, a cache keyed too coarsely) — invisible to any single-goroutine test.
//
// It is compiled into a scheduler binary whose hc packages carry a scheduling point before every statement
// (cmd/mkoverlay "yield:<pkg>", textual insertion through go build -overlay; /repo is untouched) and run as a
// subprocess of the checks of the properties the operations belong to.
package interf

import (
	"bytes"
	"crypto/sha256"
	"encoding/json"
	"fmt"
	"io"
	"os"
	"path/filepath"
	"runtime"
	"sort"
	"strings"
	gosync "sync"
	"time"

	"github.com/brutella/hc/accessory"
	"github.com/brutella/hc/characteristic"
	hccrypto "github.com/brutella/hc/crypto"
	"github.com/brutella/hc/crypto/chacha20poly1305"
	"github.com/brutella/hc/crypto/hkdf"
	"github.com/brutella/hc/db"
	"github.com/brutella/hc/hap"
	hclog "github.com/brutella/hc/log"
	"github.com/brutella/hc/service"
	"github.com/brutella/hc/tlv8"
	"github.com/brutella/hc/util"
	"github.com/brutella/hc/verifshim/vsync"
	"github.com/brutella/hc/verifshim/vyield"

	"verif/internal/sched"
)

// Case identifies one execution.
type Case struct {
	Kind     string `json:"kind"` // always "interference-schedule"
	A        string `json:"a"`
	B        string `json:"b"`
	Schedule []int  `json:"schedule"`
	Bound    int    `json:"bound"`
}

type Violation struct {
	Sig  string `json:"sig"`
	Desc string `json:"desc"`
	Case Case   `json:"case"`
}

type PairReport struct {
	A, B       string
	Bound      int
	Schedules  int
	Points     int
	CapHits    int  // executions in which a thread ran past the per-thread cap of preemption points
	Exhaustive bool // every schedule within the bound and the cap was executed
}

type Report struct {
	Pairs      []PairReport `json:"pairs"`
	Violations []Violation  `json:"violations"`
	Infra      string       `json:"infra,omitempty"`
	Cap        int          `json:"cap"`
}

// op is one operation on objects of its own. run returns a canonical rendering of everything it observed.
type op struct {
	name  string
	props string
	run   func(scratch string) string
}

func pat(n int, seed byte) []byte {
	b := make([]byte, n)
	for i := range b {
		b[i] = byte(i*7) + seed
	}
	return b
}

func h(b []byte) string { s := sha256.Sum256(b); return fmt.Sprintf("%x", s[:8]) }

type structA struct {
	U8  uint8   `tlv8:"1"`
	U32 uint32  `tlv8:"2"`
	S   string  `tlv8:"3"`
	B   []byte  `tlv8:"4"`
	L   []elemA `tlv8:"5"`
}
type elemA struct {
	X uint16 `tlv8:"1"`
	N string `tlv8:"2"`
}

func ops() []op {
	session := func(v byte) op {
		return op{fmt.Sprintf("secure-session-%d: Encrypt two messages, the opposite end decrypts them", v), "C05 C06 C07 C08", func(string) string {
			var secret [32]byte
			copy(secret[:], pat(32, v))
			enc, err := hccrypto.NewSecureSessionFromSharedKey(secret)
			if err != nil {
				return "err " + err.Error()
			}
			dec, _ := hccrypto.NewSecureClientSessionFromSharedKey(secret)
			var out []string
			for i, n := range []int{40, 1100} {
				msg := pat(n, v+byte(i))
				r, err := enc.Encrypt(bytes.NewReader(msg))
				if err != nil {
					return "encrypt: " + err.Error()
				}
				ct, _ := io.ReadAll(r)
				pr, err := dec.Decrypt(bytes.NewReader(ct))
				if err != nil {
					return fmt.Sprintf("%v decrypt: %v", out, err)
				}
				pt, _ := io.ReadAll(pr)
				out = append(out, h(ct), fmt.Sprint(bytes.Equal(pt, msg)))
			}
			return strings.Join(out, " ")
		}}
	}
	aead := func(v byte) op {
		return op{fmt.Sprintf("aead-%d: hkdf, EncryptAndSeal, DecryptAndVerify", v), "C02 C03 C04 C05 C06", func(string) string {
			k, err := hkdf.Sha512(pat(32, v), []byte("Pair-Verify-Encrypt-Salt"), []byte("Pair-Verify-Encrypt-Info"))
			if err != nil {
				return err.Error()
			}
			msg := pat(90, v)
			ct, mac, err := chacha20poly1305.EncryptAndSeal(k[:], []byte("PV-Msg02"), msg, nil)
			if err != nil {
				return err.Error()
			}
			pt, err := chacha20poly1305.DecryptAndVerify(k[:], []byte("PV-Msg02"), ct, mac, nil)
			keep := append([]byte{}, pt...)
			pt2, err2 := chacha20poly1305.DecryptAndVerify(k[:], []byte("PV-Msg02"), ct, mac, nil)
			return fmt.Sprint(h(k[:]), h(ct), h(mac[:]), err, bytes.Equal(keep, msg), bytes.Equal(pt, msg), err2, bytes.Equal(pt2, msg))
		}}
	}
	container := func(v byte) op {
		return op{fmt.Sprintf("tlv8-container-%d: set, serialise, parse, get", v), "C16 C02 C03", func(string) string {
			c := util.NewTLV8Container()
			c.SetByte(6, v)
			c.SetBytes(3, pat(300, v))
			c.SetString(1, fmt.Sprintf("name-%d", v))
			ser := append([]byte{}, c.BytesBuffer().Bytes()...)
			back, err := util.NewTLV8ContainerFromReader(bytes.NewReader(ser))
			if err != nil {
				return "parse: " + err.Error()
			}
			return fmt.Sprint(h(ser), back.GetByte(6), h(back.GetBytes(3)), back.GetString(1), h(c.GetBytes(3)))
		}}
	}
	structs := func(v byte) op {
		return op{fmt.Sprintf("tlv8-struct-%d: Marshal, Unmarshal", v), "C17", func(string) string {
			in := structA{U8: v, U32: 70000 + uint32(v), S: fmt.Sprintf("s%d", v), B: pat(270, v), L: []elemA{{X: uint16(v), N: "a"}, {X: 9, N: fmt.Sprintf("n%d", v)}}}
			b, err := tlv8.Marshal(in)
			if err != nil {
				return "marshal: " + err.Error()
			}
			var out structA
			if err := tlv8.Unmarshal(b, &out); err != nil {
				return "unmarshal: " + err.Error()
			}
			j, _ := json.Marshal(out)
			return h(b) + " " + h(j)
		}}
	}
	chars := func(v int) op {
		return op{fmt.Sprintf("characteristic-%d: updates from the application and a connection, typed getter, JSON", v), "C09 C11 C12", func(string) string {
			var out []string
			br := characteristic.NewBrightness()
			nm := characteristic.NewName()
			var seen []string
			br.OnValueRemoteUpdate(func(x int) { seen = append(seen, fmt.Sprint(x)) })
			for _, x := range []interface{}{10 + v, 250, "7", -3.5, []interface{}{1.0}} {
				br.UpdateValue(x)
				br.UpdateValueFromConnection(x, nil)
				out = append(out, fmt.Sprint(br.GetValue()))
			}
			nm.SetValue(fmt.Sprintf("lamp-%d", v))
			nm.UpdateValueFromConnection(5, nil)
			j1, _ := json.Marshal(br.Characteristic)
			j2, _ := json.Marshal(nm.Characteristic)
			return strings.Join(out, ",") + " " + strings.Join(seen, ",") + " " + nm.GetValue() + " " + h(j1) + h(j2)
		}}
	}
	containers := func(v int) op {
		return op{fmt.Sprintf("accessory-container-%d: build, number, encode", v), "C14 C15", func(string) string {
			cont := accessory.NewContainer()
			var a *accessory.Accessory
			if v == 0 {
				sw := accessory.NewSwitch(accessory.Info{Name: "Sw"})
				sw.AddService(service.NewOutlet().Service)
				a = sw.Accessory
			} else {
				lb := accessory.NewColoredLightbulb(accessory.Info{Name: "Lb", SerialNumber: "7"})
				a = lb.Accessory
			}
			e1 := cont.AddAccessory(a)
			e2 := cont.AddAccessory(accessory.NewOutlet(accessory.Info{Name: "O", ID: a.ID}).Accessory)
			j, err := json.Marshal(cont)
			return fmt.Sprint(e1, e2 != nil, err, h(j), len(j))
		}}
	}
	storage := func(v byte) op {
		return op{fmt.Sprintf("file-storage-%d: set, overwrite, list, delete in a directory of its own", v), "C18 C19", func(scratch string) string {
			dir := filepath.Join(scratch, fmt.Sprintf("interf-store-%d", v))
			os.RemoveAll(dir)
			defer os.RemoveAll(dir)
			st, err := util.NewFileStorage(dir)
			if err != nil {
				return err.Error()
			}
			e1 := st.Set("k", pat(40, v))
			e2 := st.Set("k", pat(5, v))
			e3 := st.Set("other", pat(3000, v))
			g, _ := st.Get("k")
			ks, _ := st.KeysWithSuffix("")
			sort.Strings(ks)
			e4 := st.Delete("other")
			_, e5 := st.Get("other")
			return fmt.Sprint(e1, e2, e3, h(g), ks, e4, e5 != nil)
		}}
	}
	database := func(v byte) op {
		return op{fmt.Sprintf("pairing-database-%d: save, look up, list, delete in a directory of its own", v), "C18 C02 C20", func(scratch string) string {
			dir := filepath.Join(scratch, fmt.Sprintf("interf-db-%d", v))
			os.RemoveAll(dir)
			defer os.RemoveAll(dir)
			d, err := db.NewDatabase(dir)
			if err != nil {
				return err.Error()
			}
			n1, n2 := fmt.Sprintf("ctl-%d", v), fmt.Sprintf("CTL/%d:x", v)
			e1 := d.SaveEntity(db.NewEntity(n1, pat(32, v), nil))
			e2 := d.SaveEntity(db.NewEntity(n2, pat(32, v+1), pat(64, v)))
			e3 := d.SaveEntity(db.NewEntity(n1, pat(32, v+2), nil))
			a, ea := d.EntityWithName(n1)
			es, el := d.Entities()
			var names []string
			for _, e := range es {
				names = append(names, e.Name+"="+h(e.PublicKey))
			}
			sort.Strings(names)
			d.DeleteEntity(db.NewEntity(n2, nil, nil))
			_, eb := d.EntityWithName(n2)
			return fmt.Sprint(e1, e2, e3, h(a.PublicKey), ea, names, el, eb != nil)
		}}
	}
	notification := func(v int) op {
		return op{fmt.Sprintf("notification-%d: EVENT message for a changed characteristic", v), "C10", func(string) string {
			sw := accessory.NewSwitch(accessory.Info{Name: fmt.Sprintf("N%d", v), ID: uint64(5 + v)})
			accessory.NewContainer().AddAccessory(sw.Accessory)
			sw.Switch.On.SetValue(v == 0)
			resp, err := hap.NewCharacteristicNotification(sw.Accessory, sw.Switch.On.Characteristic)
			if err != nil {
				return err.Error()
			}
			var b bytes.Buffer
			resp.Write(&b)
			return string(hap.FixProtocolSpecifier(b.Bytes()))
		}}
	}
	setup := func(v int) op {
		return op{fmt.Sprintf("setup-code-%d: validation and setup URI", v), "C20", func(string) string {
			pins := []string{"00102003", "99999998"}
			uri, err := util.XHMURI(pins[v], []string{"HOME", "AB12"}[v], uint8(5+v*20), []util.SetupFlag{util.SetupFlagIP})
			return fmt.Sprint(uri, err)
		}}
	}
	return []op{session(1), session(2), aead(3), aead(4), container(5), container(6), structs(7), structs(8), chars(0), chars(1), containers(0), containers(1), storage(1), storage(2), database(1), database(2), notification(0), notification(1), setup(0), setup(1)}
}

const pointCap = 1500

// capFor: with one preemption the number of schedules grows linearly with the points, so the cap can be generous
// yieldHooks makes every inserted statement hook a scheduling point of the running managed thread (up to cap points
// per thread) and every go statement of the instrumented packages the start of a new managed thread.
func yieldHooks(S *sched.Sched, cap int, capped *bool) {
	var counts []int
	vyield.Hook = func() {
		if !S.Active() {
			return
		}
		t := S.Current()
		for t >= len(counts) {
			counts = append(counts, 0)
		}
		counts[t]++
		if counts[t] > cap {
			if capped != nil {
				*capped = true
			}
			return
		}
		S.Point(nil)
	}
	vyield.GoHook = func(fn func()) {
		if !S.Active() {
			spawnFree(fn)
			return
		}
		S.Spawn(fn)
	}
}

func removeYieldHooks() {
	vyield.Hook = nil
	vyield.GoHook = spawnFree
}

// Outside the scheduler (reference runs of one operation after the other) a goroutine started by instrumented code
// runs freely; waitFree waits for all of them (at most 2 s), so that the reference observation is taken at rest.
var freeWG gosync.WaitGroup

func spawnFree(fn func()) {
	freeWG.Add(1)
	go func() {
		defer freeWG.Done()
		fn()
	}()
}

func waitFree() {
	done := make(chan struct{})
	go func() { freeWG.Wait(); close(done) }()
	select {
	case <-done:
	case <-time.After(2 * time.Second):
	}
}

func init() { vyield.GoHook = spawnFree }

func diverged(pa, pb interface{}) bool {
	return strings.Contains(fmt.Sprint(pa), "replay divergence") || strings.Contains(fmt.Sprint(pb), "replay divergence")
}

func capFor(bound int) int {
	if bound <= 1 {
		return 40000
	}
	return pointCap
}

// explorePair explores all schedules of (a ‖ b) with at most `bound` preemptions.
func explorePair(scratch string, a, b op, bound int, rep *Report, deadline time.Time) {
	soloA, soloB := a.run(scratch), b.run(scratch)
	if again := a.run(scratch); again != soloA {
		rep.Infra = "operation " + a.name + " is not deterministic when run alone"
		return
	}
	pr := PairReport{A: a.name, B: b.name, Bound: bound, Exhaustive: true}
	nviol := 0
	confirming, confirmed := false, false
	var runOne func(prefix []int) []sched.PointRec
	runOne = func(prefix []int) []sched.PointRec {
		S := &sched.Sched{}
		capped := false
		yieldHooks(S, capFor(bound), &capped)
		installSync(S)
		var ra, rb string
		var pa, pb interface{}
		guard := func(f func(string) string, res *string, p *interface{}) func() {
			return func() {
				defer func() {
					if x := recover(); x != nil {
						*p = x
					}
				}()
				*res = f(scratch)
			}
		}
		out := S.Run(prefix, []func(){guard(a.run, &ra, &pa), guard(b.run, &rb, &pb)})
		removeYieldHooks()
		removeSync()
		pr.Schedules++
		pr.Points += len(out.Points)
		if capped {
			pr.CapHits++
		}
		cas := Case{Kind: "interference-schedule", A: a.name, B: b.name, Schedule: sched.Choices(out.Points), Bound: bound}
		kind := strings.SplitN(a.name, ":", 2)[0] + "|" + strings.SplitN(b.name, ":", 2)[0]
		switch {
		case confirming:
			confirmed = out.Deadlock
		case out.Stuck:
			pr.Exhaustive = false
		case out.Deadlock:
			// believed only when the same choices end in it again, twice (a goroutine the scheduler does not own may
			// have held a lock for a moment)
			if confirmDeadlock(runOne, sched.Choices(out.Points), &confirming, &confirmed) {
				rep.Violations = append(rep.Violations, Violation{"interference/deadlock/" + kind, "two operations on disjoint objects block each other: " + a.name + " ‖ " + b.name, cas})
				nviol++
			} else {
				pr.Exhaustive = false
			}
		case diverged(pa, pb):
			// the execution did not repeat under the recorded choices: something in the code under test is not
			// deterministic (e.g. a goroutine the scheduler does not own); this schedule decides nothing
			pr.Exhaustive = false
		case pa != nil || pb != nil:
			rep.Violations = append(rep.Violations, Violation{"interference/panic/" + kind, fmt.Sprintf("an operation panics only when interleaved with an operation on other objects (%v %v): %s ‖ %s", pa, pb, a.name, b.name), cas})
			nviol++
		case ra != soloA || rb != soloB:
			which, got, want := a.name, ra, soloA
			if ra == soloA {
				which, got, want = b.name, rb, soloB
			}
			rep.Violations = append(rep.Violations, Violation{"interference/result-differs/" + kind, fmt.Sprintf("%q returns %q when interleaved with %q, and %q alone: the two share mutable state", which, trunc(got), a.name+" ‖ "+b.name, trunc(want)), cas})
			nviol++
		}
		return out.Points
	}
	sched.Explore(bound, runOne, func() bool { return nviol > 3 || time.Now().After(deadline) || rep.Infra != "" })
	if time.Now().After(deadline) {
		pr.Exhaustive = false
	}
	rep.Pairs = append(rep.Pairs, pr)
}

// confirmDeadlock replays the complete choice sequence of an execution that ended with "nothing enabled" twice; only
// when both replays end the same way is the deadlock one of the code under test.
func confirmDeadlock(runOne func([]int) []sched.PointRec, choices []int, confirming, confirmed *bool) (ok bool) {
	defer func() {
		*confirming = false
		if recover() != nil { // the replay diverged: not reproducible
			ok = false
		}
	}()
	for k := 0; k < 2; k++ {
		*confirming, *confirmed = true, false
		runOne(choices)
		if !*confirmed {
			return false
		}
	}
	return true
}

func trunc(s string) string {
	if len(s) > 700 {
		return s[:700] + "…"
	}
	return s
}

func installSync(S *sched.Sched) {
	vsync.HookLock = func(m *vsync.Mutex) bool {
		if !S.Active() {
			return false
		}
		S.Point(func() bool { return !m.Held })
		m.Held = true
		return true
	}
	vsync.HookUnlock = func(m *vsync.Mutex) bool {
		if !S.Active() {
			return false
		}
		m.Held = false
		return true
	}
	vsync.HookRLock = func(m *vsync.RWMutex, write bool) bool {
		if !S.Active() {
			return false
		}
		if write {
			S.Point(func() bool { return !m.Writer && m.Readers == 0 })
			m.Writer = true
		} else {
			S.Point(func() bool { return !m.Writer })
			m.Readers++
		}
		return true
	}
	vsync.HookRUnlock = func(m *vsync.RWMutex, write bool) bool {
		if !S.Active() {
			return false
		}
		if write {
			m.Writer = false
		} else {
			m.Readers--
		}
		return true
	}
	vsync.HookActive = func() bool { return S.Active() }
	vsync.HookCondWait = func(cd *vsync.Cond, w *vsync.CondWaiter) bool {
		S.Point(func() bool { return w.Woken })
		return true
	}
}

func removeSync() {
	vsync.HookLock, vsync.HookUnlock, vsync.HookRLock, vsync.HookRUnlock = nil, nil, nil, nil
	vsync.HookCondWait, vsync.HookActive = nil, nil
}

// Main: `interf <tier> <part> <parts> <scratch> <property>` and `interf-replay <scratch> <case json>`.
func Main(args []string) {
	runtime.GOMAXPROCS(1)
	hclog.Info.Disable()
	rep := &Report{Cap: capFor(1)}
	defer func() {
		j, _ := json.Marshal(rep)
		fmt.Println("INTERF-REPORT " + string(j))
	}()
	all := ops()
	if len(args) >= 3 && args[0] == "interf-replay" {
		var cas Case
		if err := json.Unmarshal([]byte(args[2]), &cas); err != nil {
			rep.Infra = err.Error()
			return
		}
		if strings.HasPrefix(cas.A, "handlers: ") {
			for _, hp := range hpairs() {
				if "handlers: "+hp.name == cas.A {
					replayH(args[1], hp, cas, rep)
				}
			}
			return
		}
		var a, b *op
		for i := range all {
			if all[i].name == cas.A {
				a = &all[i]
			}
			if all[i].name == cas.B {
				b = &all[i]
			}
		}
		if a == nil || b == nil {
			rep.Infra = "unknown operations in the case"
			return
		}
		// replay = the recorded schedule only: explore with the schedule as prefix and bound 0 deviations after it
		replayOne(args[1], *a, *b, cas, rep)
		return
	}
	if len(args) < 6 {
		rep.Infra = "usage: interf <tier> <part> <parts> <scratch> <property>"
		return
	}
	thorough := args[1] == "thorough"
	deadline := time.Now().Add(150 * time.Second)
	if thorough {
		deadline = time.Now().Add(15 * time.Minute)
	}
	var part, parts int
	fmt.Sscan(args[2], &part)
	fmt.Sscan(args[3], &parts)
	scratch, prop := args[4], args[5]
	n := -1
	for i := range all {
		for j := i + 1; j < len(all); j++ {
			inI, inJ := strings.Contains(all[i].props, prop), strings.Contains(all[j].props, prop)
			if !inI && !inJ {
				continue
			}
			// quick: pairs of the same kind on different data and pairs whose both operations belong to the property,
			// preemption bound 1. thorough: those with bound 2, and a property's operation against every other
			// kind with bound 1.
			same := kindOf(all[i].name) == kindOf(all[j].name)
			bound := 0
			switch {
			case (same || inI && inJ) && thorough:
				bound = 2
			case same || inI && inJ:
				bound = 1
			case thorough:
				bound = 1
			}
			if bound == 0 {
				continue
			}
			n++
			if parts > 1 && n%parts != part {
				continue
			}
			explorePair(scratch, all[i], all[j], bound, rep, deadline)
			explorePair(scratch, all[j], all[i], bound, rep, deadline) // the other side starts
			if rep.Infra != "" {
				return
			}
		}
	}
	for _, hp := range hpairs() {
		if !strings.Contains(hp.props, prop) {
			continue
		}
		n++
		if parts > 1 && n%parts != part {
			continue
		}
		bound := 1
		if thorough {
			bound = 2
		}
		exploreHPair(scratch, hp, bound, rep, deadline)
		if rep.Infra != "" {
			return
		}
	}
}

func kindOf(name string) string {
	k := strings.SplitN(name, ":", 2)[0]
	if i := strings.LastIndex(k, "-"); i > 0 {
		return k[:i]
	}
	return k
}

func replayOne(scratch string, a, b op, cas Case, rep *Report) {
	soloA, soloB := a.run(scratch), b.run(scratch)
	S := &sched.Sched{}
	yieldHooks(S, capFor(cas.Bound), nil)
	installSync(S)
	var ra, rb string
	var pa, pb interface{}
	guard := func(f func(string) string, res *string, p *interface{}) func() {
		return func() {
			defer func() {
				if x := recover(); x != nil {
					*p = x
				}
			}()
			*res = f(scratch)
		}
	}
	out := S.Run(cas.Schedule, []func(){guard(a.run, &ra, &pa), guard(b.run, &rb, &pb)})
	removeYieldHooks()
	removeSync()
	rep.Pairs = append(rep.Pairs, PairReport{A: a.name, B: b.name, Bound: cas.Bound, Schedules: 1, Points: len(out.Points), Exhaustive: true})
	kind := strings.SplitN(a.name, ":", 2)[0] + "|" + strings.SplitN(b.name, ":", 2)[0]
	switch {
	case pa != nil || pb != nil:
		rep.Violations = append(rep.Violations, Violation{"interference/panic/" + kind, fmt.Sprintf("panic %v %v", pa, pb), cas})
	case ra != soloA || rb != soloB:
		rep.Violations = append(rep.Violations, Violation{"interference/result-differs/" + kind, fmt.Sprintf("interleaved results %q / %q, alone %q / %q", trunc(ra), trunc(rb), trunc(soloA), trunc(soloB)), cas})
	}
}
