// Package sched is a cooperative scheduler for goroutine interleavings plus an iterative
// preemption-bounding explorer (Musuvathi & Qadeer). Managed goroutines run one at a time; a scheduling point
// precedes every hooked operation; the enabled set is in canonical order (running thread first if still
// enabled, then ascending ids).
package sched

import (
	"fmt"
	"time"
)

type thread struct {
	id      int
	resume  chan struct{}
	done    bool
	enabled func() bool // nil = enabled
}

// PointRec is one scheduling decision.
type PointRec struct {
	Enabled []int // thread ids in canonical order
	Running int   // thread that ran before this point (-1 at the start)
	Chosen  int   // index into Enabled
}

// Sched runs one execution.
type Sched struct {
	threads []*thread
	yield   chan *thread
	cur     *thread
	Points  []PointRec
	prefix  []int
	// a decision taken inside Point, to be carried out by the scheduler loop
	decided  bool
	next     *thread
	deadlock bool
	// Watchdog is how long the running thread may take to reach its next point.
	Watchdog time.Duration
	// FreeGrace: how long "no managed thread is enabled" must last before it counts as a deadlock (0: at once). Set
	// where goroutines the scheduler does not own can hold a modelled lock for a moment.
	FreeGrace time.Duration
}

// Active says whether a managed thread is currently running (hooks use it to ignore setup code).
func (s *Sched) Active() bool { return s != nil && s.cur != nil }

// Current returns the id of the running thread.
func (s *Sched) Current() int { return s.cur.id }

// Point is called by the running managed thread before a visible operation; enabled (may be nil) says whether
// the operation can proceed (e.g. the mutex is free). It returns when the thread is scheduled again.
func (s *Sched) Point(enabled func() bool) {
	t := s.cur
	if t == nil { // (called by a goroutine the scheduler does not own, between two turns: nothing to decide)
		return
	}
	t.enabled = enabled
	// The decision is taken right here by the running thread (it is the only managed thread that runs): when it is
	// "the same thread goes on" nothing is handed over.
	next, deadlock := s.decide(t.id)
	if next == t && !deadlock {
		t.enabled = nil
		return
	}
	s.decided, s.next, s.deadlock = true, next, deadlock
	s.yield <- t
	<-t.resume
	t.enabled = nil
}

// decide records one scheduling decision (prefix choice or 0) and returns the chosen thread.
func (s *Sched) decide(last int) (next *thread, deadlock bool) {
	var en []int
	for _, t := range s.threads {
		if t.done {
			continue
		}
		if t.enabled != nil && !t.enabled() {
			continue
		}
		en = append(en, t.id)
	}
	if len(en) == 0 && s.FreeGrace > 0 {
		// Nothing is enabled right now. Where goroutines the scheduler does not own take part (a server's connection
		// goroutines), one of them may hold what the managed threads wait for and will let go of it by itself: only what
		// stays blocked for FreeGrace is a deadlock.
		for waited := time.Duration(0); len(en) == 0 && waited < s.FreeGrace; waited += time.Millisecond {
			time.Sleep(time.Millisecond)
			for _, t := range s.threads {
				if !t.done && (t.enabled == nil || t.enabled()) {
					en = append(en, t.id)
				}
			}
		}
	}
	if len(en) == 0 {
		return nil, true
	}
	ord := en
	for i, id := range en {
		if id == last && i > 0 {
			ord = append([]int{id}, append(append([]int{}, en[:i]...), en[i+1:]...)...)
		}
	}
	k := 0
	if len(s.Points) < len(s.prefix) {
		k = s.prefix[len(s.Points)]
		if k >= len(ord) {
			panic(fmt.Sprintf("replay divergence at point %d: choice %d of %d", len(s.Points), k, len(ord)))
		}
	}
	s.Points = append(s.Points, PointRec{Enabled: ord, Running: last, Chosen: k})
	return s.threads[ord[k]], false
}

// Spawn adds a managed thread that runs body (called by the running managed thread in place of a go statement). The
// new thread is enabled at once and runs when the scheduler chooses it; the execution ends when it has ended, too.
func (s *Sched) Spawn(body func()) {
	t := &thread{id: len(s.threads), resume: make(chan struct{})}
	s.threads = append(s.threads, t)
	go func() {
		<-t.resume
		body()
		t.done = true
		s.yield <- t
	}()
}

// Outcome of one execution.
type Outcome struct {
	Points   []PointRec
	Deadlock bool
	Stuck    bool // un-modelled blocking: the running thread reached no point within the watchdog
}

// Run executes bodies under the choice prefix (then choice 0 everywhere). A prefix choice that is out of range
// is a replay divergence and panics.
func (s *Sched) Run(prefix []int, bodies []func()) Outcome {
	s.threads, s.Points = nil, nil
	s.yield = make(chan *thread)
	if s.Watchdog == 0 {
		s.Watchdog = 5 * time.Second
	}
	for i, b := range bodies {
		t := &thread{id: i, resume: make(chan struct{})}
		s.threads = append(s.threads, t)
		go func(t *thread, b func()) {
			<-t.resume
			b()
			t.done = true
			s.yield <- t
		}(t, b)
	}
	s.prefix = prefix
	s.decided = false
	last := -1
	for {
		alive := 0
		for _, t := range s.threads {
			if !t.done {
				alive++
			}
		}
		if alive == 0 {
			s.cur = nil
			return Outcome{Points: s.Points}
		}
		var t *thread
		if s.decided {
			s.decided = false
			if s.deadlock {
				s.cur = nil
				return Outcome{Points: s.Points, Deadlock: true}
			}
			t = s.next
		} else {
			var dl bool
			if t, dl = s.decide(last); dl {
				s.cur = nil
				return Outcome{Points: s.Points, Deadlock: true}
			}
		}
		last = t.id
		s.cur = t
		select {
		case t.resume <- struct{}{}:
		case <-time.After(s.Watchdog):
			// nobody waits for this turn: a goroutine the scheduler does not know has disturbed the hand-over
			s.cur = nil
			return Outcome{Points: s.Points, Stuck: true}
		}
		select {
		case y := <-s.yield:
			last = y.id
		case <-time.After(s.Watchdog):
			s.cur = nil
			return Outcome{Points: s.Points, Stuck: true}
		}
	}
}

// Choices extracts the chosen indices.
func Choices(pts []PointRec) []int {
	c := make([]int, len(pts))
	for i, p := range pts {
		c[i] = p.Chosen
	}
	return c
}

// Preemptions counts the preemptions in pts[:n].
func Preemptions(pts []PointRec, n int) int {
	c := 0
	for j := 0; j < n; j++ {
		p := pts[j]
		if p.Running >= 0 && p.Enabled[0] == p.Running && p.Chosen != 0 {
			c++
		}
	}
	return c
}

// Explore enumerates every schedule with at most bound preemptions (bound < 0: unbounded). run executes one
// schedule from a prefix and returns its points; it is called once per schedule. stop aborts the exploration.
func Explore(bound int, run func(prefix []int) []PointRec, stop func() bool) (executions int) {
	var rec func(prefix []int)
	rec = func(prefix []int) {
		if stop != nil && stop() {
			return
		}
		pts := run(prefix)
		executions++
		ch := Choices(pts)
		before := Preemptions(pts, len(prefix)) // preemptions among the points before i, kept incrementally
		for i := len(prefix); i < len(pts); i++ {
			p := pts[i]
			if i > len(prefix) {
				q := pts[i-1]
				if q.Running >= 0 && q.Enabled[0] == q.Running && q.Chosen != 0 {
					before++
				}
			}
			cost := before
			if p.Running >= 0 && p.Enabled[0] == p.Running {
				cost++ // switching away from a runnable thread is a preemption
			}
			if bound >= 0 && cost > bound {
				continue
			}
			for alt := 1; alt < len(p.Enabled); alt++ {
				rec(append(append([]int{}, ch[:i]...), alt))
			}
		}
	}
	rec(nil)
	return
}
